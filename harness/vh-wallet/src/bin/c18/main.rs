//! probe (temporary)
use std::time::Instant;

use rand_chacha::ChaCha8Rng;
use rand_core::SeedableRng;
use zcash_client_backend::data_api::testing::TestBuilder;
use zcash_client_backend::data_api::{Account as _, WalletRead, WalletWrite};
use zcash_client_sqlite::pool_migration::orchard_ironwood::PoolMigrations;
use zcash_client_sqlite::testing::{BlockCache, db::TestDbFactory};
use zcash_client_sqlite::util::SystemClock;
use zcash_pool_migration::engine::{
    PoolMigrationRead, PoolMigrationWrite, commit_preparation_with_funding, plan_migration,
};
use zcash_pool_migration::satisfiability::ReplanThreshold;
use zcash_pool_migration::scheduling::{AnchorBucketInterval, SchedulingParams};
use zcash_pool_migration_memory::{CommitMock, TARGET_HEIGHT, regtest_network, spending_key};
use zcash_primitives::block::BlockHash;
use zcash_protocol::consensus::BlockHeight;
use zcash_protocol::value::COIN;

fn main() {
    let t0 = Instant::now();
    let mut st = TestBuilder::new()
        .with_data_store_factory(TestDbFactory::default())
        .with_block_cache(BlockCache::new())
        .with_account_from_sapling_activation(BlockHash([0; 32]))
        .build();
    println!("build {:?}", t0.elapsed());
    let account = st.test_account().unwrap().account().id();
    let t0 = Instant::now();
    let h = st.generate_and_scan_empty_blocks(60);
    println!("60 empty blocks {:?} -> {h:?}", t0.elapsed());
    let tip = st.wallet().chain_height().unwrap().unwrap();
    for d in [1u32, 3, 7, 20, 50] {
        let t0 = Instant::now();
        let got = st.wallet_mut().truncate_to_height(tip - d);
        println!("truncate to tip-{d}: {:?} in {:?}", got.map(|g| u32::from(tip) - u32::from(g)), t0.elapsed());
        // regrow
        let cur = st.wallet().chain_height().unwrap().unwrap();
        st.truncate_to_height(cur);
        let t0 = Instant::now();
        st.generate_and_scan_empty_blocks((u32::from(tip) - u32::from(cur)) as usize);
        println!("  regrow {:?} tip {:?}", t0.elapsed(), st.wallet().chain_height().unwrap());
    }

    for (seed, vals, interval) in [
        (1u64, vec![78 * COIN], 144u32),
        (2, vec![400 * COIN], 144),
        (3, vec![12 * COIN, 7 * COIN, 3 * COIN], 16),
        (4, vec![100 * COIN; 5], 8),
    ] {
        let t0 = Instant::now();
        let sp = SchedulingParams::new_with_default_distributions(AnchorBucketInterval::custom(
            std::num::NonZeroU32::new(interval).unwrap(),
        ));
        let mut backend = CommitMock::new(seed, &vals).with_scheduling_params(sp);
        let mut rng = ChaCha8Rng::seed_from_u64(seed);
        let plan = match plan_migration(&regtest_network(true), &backend, &mut rng) {
            Ok(p) => p,
            Err(e) => {
                println!("plan failed: {e:?}");
                continue;
            }
        };
        let r = commit_preparation_with_funding(
            &regtest_network(true),
            BlockHeight::from_u32(TARGET_HEIGHT),
            &mut backend,
            &spending_key(seed),
            &plan,
            &mut rng,
            ReplanThreshold::DEFAULT,
        );
        match r {
            Ok((state, funding)) => {
                println!(
                    "commit seed {seed} in {:?}: {} txs, {} funding; status {:?}",
                    t0.elapsed(),
                    state.transactions().len(),
                    funding.len(),
                    state.status()
                );
                for t in state.transactions() {
                    println!(
                        "   {:?} {:?} deps {:?} sched {:?} exp {:?} bnd {:?} pczt {}B nfs {}",
                        t.id(),
                        t.kind(),
                        t.depends_on(),
                        t.scheduled_height(),
                        t.expiry_height(),
                        t.anchor_boundary(),
                        t.pczt().len(),
                        t.spend_nullifiers().len()
                    );
                }
                let t0 = Instant::now();
                let mut store = PoolMigrations::for_account(
                    *st.network(),
                    SystemClock,
                    st.wallet_mut().conn_mut(),
                    account,
                )
                .unwrap();
                store.replace_migration(&state).unwrap();
                let back = store.get_migration().unwrap();
                println!("   sqlite roundtrip eq={} in {:?}", back.as_ref() == Some(&state), t0.elapsed());
            }
            Err(e) => println!("commit failed: {e:?}"),
        }
    }
}
