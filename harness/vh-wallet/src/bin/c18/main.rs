//! C18 — a committed pool migration advances safely and survives persistence.
//!
//! An ONLINE CHECKER OF A TRACE SPECIFICATION over the engine's public API.
//! The harness is the author of the world: a simulated chain (mempool,
//! inclusion, reorgs, foreign spends), a wallet that scans it with a lag and
//! estimates the tip, a consumer that acts on the steps it is handed (or
//! crashes half-way), and a scripted store whose satisfiability / inclusion
//! answers come from that simulation (optionally with adversarial flips) while
//! its persistence goes to the REAL stores (memory + SQLite). After every
//! event the specification in `model.rs` is evaluated on a plain snapshot of
//! the state, and the state is saved to and re-loaded from both stores.

mod fixtures;
mod model;
mod sqlenv;
mod world;

use std::collections::BTreeMap;
use std::rc::Rc;

use vh_common::rand::Rng;
use vh_common::rand::seq::SliceRandom;
use vh_common::rand_chacha::ChaCha20Rng;
use vh_common::{Args, Reporter, guard, json, panic_class};
use zcash_pool_migration::engine::{
    CommitError, MigrationPlan, MigrationState, MigrationStatus, MigrationTxKind, MigrationTxState, PoolMigrationRead,
    PoolMigrationWrite, ProveOutcome, ProvedTransaction, commit_preparation, prove_preparation, prove_transfer,
    rebuild_expired_transfer,
};
use zcash_pool_migration::satisfiability::{
    AdvanceConfig, DuenessTargets, ReorgSettleDepth, ReplanThreshold, advance_migration,
};
use zcash_pool_migration::state::AdvanceStep;
use zcash_pool_migration::testing::{arb_migration_state, arb_preparation_plan};
use zcash_pool_migration_memory::{MockBackend, TARGET_HEIGHT, regtest_network, spending_key};

use fixtures::{Fixture, GuardProbe, MockProver, RealCtx, RebuildBackend, bh, mid};
use model::{Ans, Ev, Snap, Viol, snap};
use sqlenv::SqlEnv;
use world::{MemTx, ScriptedStore, World};

const SQL_DEPTH: u32 = 60;

struct Shared {
    r: Reporter,
    plan: MigrationPlan,
    guard_rng: ChaCha20Rng,
}

impl Shared {
    fn viol(&mut self, v: Viol, replay: &serde_json::Value) {
        self.r.violation(&v.class, v.detail, replay.clone());
    }
}

struct Trace<'a> {
    sh: &'a mut Shared,
    rng: ChaCha20Rng,
    state: MigrationState,
    store: ScriptedStore<'a>,
    real: Option<Rc<RealCtx>>,
    events: u32,
    label: &'static str,
    trace_id: u64,
    cfg: AdvanceConfig,
    log: Vec<String>,
    dead_end: bool,
    sql_broken: bool,
    last_skew: u32,
}

fn state_digest(s: &Snap) -> serde_json::Value {
    json!({
        "status": model::status_name(s.status),
        "txs": s.txs.iter().map(|t| json!({
            "id": t.id, "transfer": t.transfer, "deps": t.deps, "sched": t.sched, "expiry": t.expiry,
            "boundary": t.boundary, "state": model::RANK_NAMES[t.rank as usize], "mined_at": t.mined_at,
            "mark": t.mark, "report": t.report,
        })).collect::<Vec<_>>(),
    })
}

impl<'a> Trace<'a> {
    fn replay(&self, extra: serde_json::Value) -> serde_json::Value {
        let n = self.log.len();
        json!({
            "trace": self.trace_id, "fixture": self.label, "event_index": self.events,
            "tip": self.store.world.tip, "scanned": self.store.world.scanned,
            "recent_events": self.log[n.saturating_sub(14)..].to_vec(),
            "state": state_digest(&snap(&self.state)),
            "at": extra,
        })
    }

    fn report(&mut self, viols: Vec<Viol>, extra: serde_json::Value) {
        if viols.is_empty() {
            return;
        }
        let rp = self.replay(extra);
        for v in viols {
            self.sh.viol(v, &rp);
        }
    }

    /// Saves the state through the scripted store's real back ends (only if it changed since the
    /// last write: a consumer persists after a mutation) and loads it back from BOTH stores.
    fn persist_and_verify(&mut self, what: &str) {
        if self.store.last_written.as_ref() != Some(&self.state) {
            self.maybe_faulted_write();
            if let Err(e) = self.store.replace_migration(&self.state) {
                self.sql_error("replace_migration", e);
            }
        }
        let expect = (!model::terminal(self.state.status())).then(|| self.state.clone());
        let mut viols = vec![];
        // memory store
        let got = self.store.mem.get_migration().unwrap();
        self.sh.r.count("persist_roundtrips_memory", 1);
        if got != expect {
            let field = match (&got, &expect) {
                (Some(a), Some(b)) => model::first_difference(a, b),
                (None, Some(_)) => "missing".into(),
                (Some(_), None) => "terminal-still-pending".into(),
                _ => unreachable!(),
            };
            viols.push(Viol {
                class: format!("C18:persist:memory:roundtrip-mismatch:{field}"),
                detail: format!("after {what}: get_migration() differs from the state that was saved ({field})"),
            });
        }
        // SQLite store
        if !self.sql_broken && self.store.sql.is_some() {
            let sql = self.store.sql.as_ref().unwrap();
            self.sh.r.count("persist_roundtrips_sqlite", 1);
            match sql.get() {
                Err(e) => {
                    let e = e.clone();
                    self.sql_error("get_migration", e);
                }
                Ok(got) => {
                    if got != expect {
                        let field = match (&got, &expect) {
                            (Some(a), Some(b)) => model::first_difference(a, b),
                            (None, Some(_)) => "missing".into(),
                            (Some(_), None) => "terminal-still-pending".into(),
                            _ => unreachable!(),
                        };
                        viols.push(Viol {
                            class: format!("C18:persist:sqlite:roundtrip-mismatch:{field}"),
                            detail: format!("after {what}: get_migration() differs from the state that was saved ({field})"),
                        });
                    }
                }
            }
            if expect.is_none() && !self.sql_broken {
                // a terminal migration is history: still readable, unchanged
                let sql = self.store.sql.as_ref().unwrap();
                self.sh.r.count("persist_terminal_history_reads", 1);
                match sql.latest() {
                    Ok(Some(l)) if l == self.state => {}
                    Ok(other) => {
                        let field = other
                            .as_ref()
                            .map(|l| model::first_difference(l, &self.state))
                            .unwrap_or_else(|| "missing".into());
                        viols.push(Viol {
                            class: format!("C18:persist:sqlite:history-mismatch:{field}"),
                            detail: format!("after {what}: latest_migration() differs from the terminal state that was saved ({field})"),
                        });
                    }
                    Err(e) => self.sql_error("latest_migration", e),
                }
            }
            if !self.sql_broken {
                // the account's retained history (terminal migrations of earlier traces) reads back
                // exactly as it was saved, whatever is done to the migration in progress
                let sql = self.store.sql.as_ref().unwrap();
                let mut hist_err = None;
                for (id, saved) in &sql.history {
                    self.sh.r.count("retained_history_reads", 1);
                    match sql.by_id(*id) {
                        Ok(Some(got)) if &got == saved => {}
                        Ok(got) => {
                            let field = got.as_ref().map(|g| model::first_difference(g, saved)).unwrap_or_else(|| "missing".into());
                            viols.push(Viol {
                                class: format!("C18:persist:sqlite:retained-history-changed:{field}"),
                                detail: format!("after {what}: an earlier, terminal migration of the account ({:?} when saved) no longer reads back as saved ({field}); {} retained", saved.status(), sql.history.len()),
                            });
                            break;
                        }
                        Err(e) => {
                            hist_err = Some(e);
                            break;
                        }
                    }
                }
                if hist_err.is_none() && !sql.history.is_empty() {
                    match sql.list() {
                        Ok(l) => {
                            for (id, saved) in &sql.history {
                                if l.iter().find(|(i, _)| i == id).map(|(_, st)| *st) != Some(saved.status()) {
                                    viols.push(Viol {
                                        class: "C18:persist:sqlite:retained-history-changed:list-status".into(),
                                        detail: format!("after {what}: list_migrations() no longer shows an earlier terminal migration with its saved status {:?}", saved.status()),
                                    });
                                    break;
                                }
                            }
                        }
                        Err(e) => hist_err = Some(e),
                    }
                }
                if let Some(e) = hist_err {
                    self.sql_error("get_migration_by_id/list_migrations", e);
                }
            }
            if !self.sql_broken {
                let sql = self.store.sql.as_ref().unwrap();
                match sql.row_counts() {
                    Ok((pending, all)) => {
                        self.sh.r.set_max("max_history_rows", all);
                        if pending > 1 {
                            viols.push(Viol {
                                class: "C18:persist:sqlite:two-non-terminal-migrations".into(),
                                detail: format!("{pending} non-terminal migration rows for one account after {what}"),
                            });
                        }
                    }
                    Err(e) => self.sql_error("row_counts", e),
                }
            }
        }
        self.report(viols, json!({"persist_after": what}));
    }

    /// Crash point inside the store's write: an injected failure half-way through the row
    /// rewrite must leave the previously saved migration readable and unchanged.
    fn maybe_faulted_write(&mut self) {
        if self.sql_broken || self.store.sql.is_none() || !self.rng.gen_bool(0.04) {
            return;
        }
        let Some(old) = self.store.last_written.clone() else { return };
        if model::terminal(old.status()) || model::terminal(self.state.status()) || self.state.transactions().is_empty() {
            return;
        }
        let k = u32::from(self.state.transactions().choose(&mut self.rng).unwrap().id());
        let new = self.state.clone();
        let sql = self.store.sql.as_mut().unwrap();
        let res = sql.faulted_replace(&new, k).and_then(|fired| sql.get().map(|g| (fired, g)));
        match res {
            Err(e) => self.sql_error("faulted replace_migration", e),
            Ok((None, _)) => {
                self.sh.r.count("write_fault_did_not_fire", 1);
                self.store.last_written = None;
            }
            Ok((Some(_), got)) => {
                self.sh.r.count("write_faults_injected_mid_transaction", 1);
                if got.as_ref() != Some(&old) {
                    let f = got.as_ref().map(|g| model::first_difference(g, &old)).unwrap_or("missing".into());
                    let v = Viol {
                        class: format!("C18:persist:sqlite:failed-write-not-atomic:{f}"),
                        detail: format!("replace_migration failed half-way (injected) and the stored migration changed ({f})"),
                    };
                    self.report(vec![v], json!({"fault_on_transfer": k}));
                }
            }
        }
    }

    fn sql_error(&mut self, op: &str, e: String) {
        // a store error on a state the engine itself produced: the save/load cycle failed
        let cls: String = e.chars().filter(|c| !c.is_ascii_digit()).take(90).collect();
        let v = Viol {
            class: format!("C18:persist:sqlite:error:{op}:{cls}"),
            detail: format!("{op} failed: {e}"),
        };
        self.report(vec![v], json!({"op": op}));
        self.sql_broken = true;
        self.dead_end = true;
    }

    /// Applies one consumer / environment mutation and runs the lifecycle part of the specification.
    fn apply(&mut self, ev: Ev, f: impl FnOnce(&mut Trace<'a>)) {
        let before = snap(&self.state);
        let name = ev.name();
        let res = guard(|| f(self));
        let after = snap(&self.state);
        self.events += 1;
        self.log.push(format!("{ev:?}"));
        let mut viols = vec![];
        if let Err(p) = res {
            viols.push(Viol {
                class: format!("C18:panic:{name}:{}", panic_class(&p)),
                detail: format!("{name} panicked: {p}"),
            });
            self.dead_end = true;
        }
        let st = model::check_transition(&before, &after, &ev, &mut viols);
        model::check_invariants(&after, name, &mut viols);
        self.sh.r.count(&format!("event_{name}"), 1);
        if st.on_terminal {
            self.sh.r.count("events_on_terminal_migration", 1);
            if model::policy_terminal(before.status) {
                self.sh.r.count("events_on_policy_terminal_migration", 1);
            }
        }
        if let Ev::Truncate(_) = ev {
            self.sh.r.count("rollback_unmined_transactions", st.unmined as u64);
            self.sh.r.count("rollback_kept_mined_transactions", st.kept_mined as u64);
            self.sh.r.count("rollback_mined_exactly_at_height_kept", st.kept_at_exact_height as u64);
            if st.complete_reverted {
                self.sh.r.count("complete_reverted_by_rollback", 1);
            }
        }
        if after.status == MigrationStatus::Complete && before.status != MigrationStatus::Complete {
            self.sh.r.count("reached_complete", 1);
        }
        let ranks: Vec<u8> = after.txs.iter().map(|t| t.rank).collect();
        self.sh.r.case(&(name, model::status_name(before.status), model::status_name(after.status), ranks), true);
        self.report(viols, json!({"event": format!("{ev:?}"), "before": state_digest(&before)}));
        self.store.world.sync_ids(&after);
    }

    fn pick_estimate(&mut self) -> u32 {
        let w = &self.store.world;
        let (tip, scanned) = (w.tip, w.scanned);
        match self.rng.gen_range(0..100) {
            0..=39 => tip + 1,
            40..=54 => scanned + 1,
            55..=69 => (tip + 1).saturating_add_signed(self.rng.gen_range(-3..=3)),
            70..=89 => {
                let hs = self.interesting_targets(scanned + 1);
                hs.choose(&mut self.rng).copied().unwrap_or(tip + 1)
            }
            _ => tip + self.rng.gen_range(5..5000),
        }
    }

    /// Target heights (tip + 1) at which some guard of the specification flips.
    fn interesting_targets(&self, above: u32) -> Vec<u32> {
        let tol = fixtures::overdue_tolerance(self.state.anchor_bucket_interval().block_count().get());
        let mut v = vec![];
        for t in self.state.transactions() {
            if matches!(t.state(), MigrationTxState::Mined { .. }) {
                continue;
            }
            let s = u32::from(t.scheduled_height());
            let e = u32::from(t.expiry_height());
            v.extend([s.saturating_sub(1), s, s + 1, s + tol, s + tol + 1, s + tol + 2]);
            if e != 0 {
                v.extend([e.saturating_sub(1), e, e + 1, e + 2]);
            }
            if let Some(b) = t.anchor_boundary() {
                let b = u32::from(b);
                v.extend([b + 10, b + 11, b + 12]);
            }
        }
        v.retain(|h| *h >= above);
        v.sort();
        v.dedup();
        v.truncate(8);
        v
    }

    fn advance(&mut self) -> Option<AdvanceStep> {
        // now and then the caller's scanned target runs AHEAD of the height the store's answers rest
        // on (targets computed before a rollback, max-scanned vs fully-scanned across a scan gap)
        let skew = if self.rng.gen_range(0..100) < 12 { self.rng.gen_range(1..6) } else { 0 };
        if skew > 0 {
            self.sh.r.count("advance_calls_with_caller_ahead_of_store", 1);
        }
        self.last_skew = skew;
        let scanned_t = self.store.world.scanned + 1 + skew;
        let est = self.pick_estimate();
        let targets = DuenessTargets::new(bh(scanned_t), bh(est));
        let eff = u32::from(targets.effective());
        let before = snap(&self.state);
        self.store.world.queries.borrow_mut().clear();
        self.store.world.answer_heights.borrow_mut().clear();
        let writes0 = self.store.writes;
        let mut rng = self.rng.clone();
        let cfg = self.cfg;
        let (store, state) = (&mut self.store, &mut self.state);
        let res = guard(|| advance_migration(store, state, targets, &cfg, &mut rng));
        self.rng = rng;
        self.events += 1;
        self.sh.r.count("advance_calls", 1);
        let after = snap(&self.state);
        self.log.push(format!("advance(scanned {scanned_t}, served {eff})"));
        let mut viols = vec![];
        let adv = match res {
            Err(p) => {
                viols.push(Viol {
                    class: format!("C18:panic:advance_migration:{}", panic_class(&p)),
                    detail: format!("advance_migration panicked: {p}"),
                });
                self.report(viols, json!({"targets": [scanned_t, eff], "before": state_digest(&before)}));
                self.dead_end = true;
                return None;
            }
            Ok(Err(e)) => {
                self.sql_error("advance_migration", e);
                return None;
            }
            Ok(Ok(a)) => a,
        };
        let step = adv.step().clone();
        let n = self.log.len();
        self.log[n - 1] = format!("advance(scanned {scanned_t}, served {eff}) -> {step:?}");

        // answers given during the call
        let queries = self.store.world.queries.borrow().clone();
        let mut answers: BTreeMap<u32, Ans> = BTreeMap::new();
        let mut counts: BTreeMap<u32, u32> = BTreeMap::new();
        for (id, a, flipped) in &queries {
            answers.insert(*id, *a);
            *counts.entry(*id).or_insert(0) += 1;
            if *flipped {
                self.sh.r.count("store_answers_adversarial", 1);
            }
            self.sh.r.count(
                match a {
                    Ans::Satisfiable => "store_answers_satisfiable",
                    Ans::NotYet => "store_answers_not_yet",
                    Ans::UnsatMarking => "store_answers_unsatisfiable_marking",
                    Ans::UnsatExpired => "store_answers_unsatisfiable_expired",
                },
                1,
            );
        }
        // a NotYet answer only sets a CANDIDATE aside: the first question put to an in-flight row
        // (the sweep) or to a reported row (the adjudication) is not a candidate check
        let mut cand_answers = answers.clone();
        for (id, a) in &answers {
            if *a == Ans::NotYet {
                let b = before.tx(*id);
                let first_is_not_candidate = b.map(|t| t.rank == 3 || t.report.is_some()).unwrap_or(false);
                if first_is_not_candidate && counts[id] < 2 {
                    cand_answers.remove(id);
                }
            }
        }

        // a broadcast-failure report is testimony about a tip the wallet may not have reached: it
        // may only be discharged on an answer of the STORE that rests at or above the reported tip
        if !model::terminal(before.status) {
            let heights = self.store.world.answer_heights.borrow().clone();
            for b in &before.txs {
                let Some(reported) = b.report else { continue };
                let still = after.tx(b.id).and_then(|t| t.report);
                if still.is_none() {
                    self.sh.r.count("failure_reports_discharged", 1);
                    let first = heights.iter().find(|(id, _)| *id == b.id).map(|(_, h)| *h);
                    if skew > 0 {
                        self.sh.r.count("failure_reports_discharged_with_caller_ahead_of_store", 1);
                    }
                    if first.is_none() {
                        // cleared by another path (the row was observed mined, rebuilt, ...): no adjudication took place
                        self.sh.r.count("failure_reports_cleared_without_adjudication", 1);
                    } else if first.map_or(false, |h| h < reported) {
                        viols.push(Viol {
                            class: "C18:report:discharged-without-store-evidence-at-the-reported-tip".into(),
                            detail: format!("tx {}: failure report at tip {reported} discharged although the store's answer rests on {first:?} (caller's scanned target {scanned_t})", b.id),
                        });
                    }
                } else {
                    self.sh.r.count("failure_reports_kept", 1);
                }
            }
        }

        let tst = model::check_transition(&before, &after, &Ev::Advance, &mut viols);
        model::check_invariants(&after, "advance_migration", &mut viols);
        let sst = model::check_step(&after, &step, scanned_t, eff, &cand_answers, &mut viols);

        // the engine owns the persistence of what it determined
        if before != after || self.store.writes != writes0 {
            self.sh.r.count("advance_calls_that_changed_state", 1);
        }
        if self.store.last_written.as_ref() != Some(&self.state) {
            viols.push(Viol {
                class: "C18:persist:engine:determination-not-written-back".into(),
                detail: format!(
                    "advance_migration returned {} with a state the store was not given (first difference {})",
                    model::step_name(&step),
                    self.store
                        .last_written
                        .as_ref()
                        .map(|l| model::first_difference(l, &self.state))
                        .unwrap_or_default()
                ),
            });
        }

        // counters
        let r = &mut self.sh.r;
        r.count(&format!("step_{}", model::step_name(&step)), 1);
        if tst.on_terminal {
            r.count("events_on_terminal_migration", 1);
            if model::policy_terminal(before.status) {
                r.count("events_on_policy_terminal_migration", 1);
            }
        }
        if after.status == MigrationStatus::Complete && before.status != MigrationStatus::Complete {
            r.count("reached_complete", 1);
        }
        let promoted_unrecorded = before
            .txs
            .iter()
            .zip(after.txs.iter())
            .filter(|(b, a)| b.rank == 2 && a.rank == 4)
            .count() as u64;
        r.count("sweep_promoted_unrecorded_broadcast", promoted_unrecorded);
        let mined_by_sweep = before
            .txs
            .iter()
            .zip(after.txs.iter())
            .filter(|(b, a)| b.rank == 3 && a.rank == 4)
            .count() as u64;
        r.count("sweep_promoted_mined", mined_by_sweep);
        let marks_new = before
            .txs
            .iter()
            .zip(after.txs.iter())
            .filter(|(b, a)| b.mark.is_none() && a.mark.is_some())
            .count() as u64;
        r.count("marks_recorded", marks_new);
        let adjudicated = before
            .txs
            .iter()
            .zip(after.txs.iter())
            .filter(|(b, a)| b.report.is_some() && a.report.is_none())
            .count() as u64;
        r.count("failure_reports_adjudicated", adjudicated);
        if before.txs.iter().zip(after.txs.iter()).any(|(b, a)| b.sched != a.sched) {
            r.count("overdue_shifts", 1);
        }
        if matches!(step, AdvanceStep::Broadcast { .. }) {
            r.count("broadcast_offers_checked", 1);
            if sst.due_exact {
                r.count("broadcast_offered_exactly_when_due", 1);
            }
            if sst.expiry_exact {
                r.count("broadcast_offered_at_last_valid_height", 1);
            }
        }
        if matches!(step, AdvanceStep::Prove { .. } | AdvanceStep::Rebuild { .. } | AdvanceStep::Waiting) && sst.proved_rows > 0 {
            r.count("priority_checks_with_proved_rows", 1);
        }
        r.count("withheld_doomed_window", sst.doomed_withheld as u64);
        r.count("withheld_partially_mined_dependencies", sst.partial_deps_withheld as u64);
        r.count("withheld_open_failure_report", sst.reported_withheld as u64);
        r.count("withheld_not_yet_satisfiable", sst.notyet_withheld as u64);
        if sst.all_dead {
            r.count("stuck_checks_all_unmined_dead", 1);
            r.count(&format!("all_dead_step_{}", model::step_name(&step)), 1);
        }
        let dead = after.dead_set(scanned_t);
        let mut shape: Vec<(u8, bool, bool, bool, bool, bool)> = after
            .txs
            .iter()
            .map(|t| (t.rank, t.transfer, dead.contains(&t.id), t.sched <= eff, t.report.is_some(), after.deps_all_mined(t)))
            .collect();
        shape.sort();
        let nontrivial = !model::terminal(before.status) && after.txs.iter().any(|t| t.rank != 4);
        r.case(&(model::step_name(&step), model::status_name(after.status), shape, eff > scanned_t), nontrivial);
        if self.sh.r.counter(&format!("step_{}", model::step_name(&step))) == 1 {
            let smp = json!({"targets": {"scanned": scanned_t, "served": eff}, "step": format!("{step:?}"), "next": format!("{:?}", adv.next()), "state": state_digest(&after)});
            self.sh.r.sample(&format!("advance->{}", model::step_name(&step)), smp);
        }
        self.report(viols, json!({"targets": [scanned_t, eff], "step": format!("{step:?}"), "before": state_digest(&before)}));

        // "at most one broadcast at a time": until the state records the broadcast, asking again
        // (same targets, same store) must not release a DIFFERENT transaction
        if let AdvanceStep::Broadcast { id } = &step
            && self.rng.gen_bool(0.5)
            && !self.dead_end
        {
            let id1 = *id;
            let mut rng = self.rng.clone();
            let (store, state) = (&mut self.store, &mut self.state);
            let res = guard(|| advance_migration(store, state, targets, &cfg, &mut rng));
            self.sh.r.count("repeat_calls_while_broadcast_outstanding", 1);
            if let Ok(Ok(adv2)) = res {
                match adv2.step() {
                    AdvanceStep::Broadcast { id: id2 } if *id2 != id1 => {
                        let v = Viol {
                            class: "C18:broadcast:second-transaction-offered-while-first-outstanding".into(),
                            detail: format!("Broadcast({id1:?}) was returned and not yet recorded; the same call again returned Broadcast({id2:?})"),
                        };
                        self.report(vec![v], json!({"targets": [scanned_t, eff]}));
                    }
                    s2 if *s2 != step => self.sh.r.count("repeat_call_step_differs", 1),
                    _ => {}
                }
            }
        }
        self.persist_and_verify("advance_migration");
        Some(step)
    }

    // ---------------------------------------------------------------- the consumer

    fn do_prove(&mut self, id: u32) {
        let Some(tx) = self.state.transactions().iter().find(|t| u32::from(t.id()) == id).cloned() else {
            return;
        };
        if !matches!(tx.state(), MigrationTxState::Signed) {
            self.sh.r.count("prove_named_non_signed", 1);
            return;
        }
        let scanned = self.store.world.scanned;
        if let Some(real) = self.real.clone() {
            // the real prove functions with a prover that does no cryptography
            let fail = self.rng.gen_bool(0.03).then(|| (tx.spend_nullifiers()[0], bh(scanned)));
            let lock = self
                .rng
                .gen_bool(0.5)
                .then(|| zcash_pool_migration::engine::MigrationLockOwner::from_bytes([id as u8; 32]));
            let mut prover = MockProver {
                interval: self.state.anchor_bucket_interval(),
                fail,
                lock,
            };
            let _ = &real;
            let mut outcome = None;
            self.apply(if fail.is_some() { Ev::ProveFailed(id) } else { Ev::StoreProved(id) }, |t| {
                let mut rng = t.rng.clone();
                let res = match tx.kind() {
                    MigrationTxKind::Transfer { .. } => prove_transfer(
                        &regtest_network(true),
                        &mut prover,
                        &mut t.state,
                        mid(id),
                        bh(scanned),
                        &mut rng,
                    ),
                    MigrationTxKind::Preparation { .. } => prove_preparation(&mut prover, &mut t.state, mid(id), bh(scanned)),
                };
                t.rng = rng;
                match res {
                    Ok(ProveOutcome::Proved(pt)) => {
                        outcome = Some("proved");
                        if let Err(e) = t.store.store_proved_transaction(&mut t.state, pt) {
                            t.sql_error("store_proved_transaction", e);
                        }
                    }
                    Ok(ProveOutcome::NotYetProvable) => outcome = Some("not_yet_provable"),
                    Ok(ProveOutcome::MarkedUnsatisfiable { .. }) => outcome = Some("marked_unsatisfiable"),
                    Err(_) => outcome = Some("error"),
                }
            });
            self.sh.r.count(&format!("real_prove_{}", outcome.unwrap_or("panic")), 1);
        } else {
            let n = self.rng.gen_range(1..48);
            let bytes: Vec<u8> = (0..n).map(|_| self.rng.r#gen()).collect();
            self.apply(Ev::StoreProved(id), |t| {
                let pt = ProvedTransaction::from_parts(mid(id), bytes);
                if let Err(e) = t.store.store_proved_transaction(&mut t.state, pt) {
                    t.sql_error("store_proved_transaction", e);
                }
            });
        }
        self.persist_and_verify("store_proved_transaction");
    }

    fn do_broadcast(&mut self, id: u32) {
        let Some(tx) = self.state.transactions().iter().find(|t| u32::from(t.id()) == id).cloned() else {
            return;
        };
        let txid = *tx.txid().as_ref();
        let mem = MemTx {
            id,
            expiry: u32::from(tx.expiry_height()),
        };
        let tip = self.store.world.tip;
        let roll = self.rng.gen_range(0..100);
        match roll {
            0..=69 => {
                self.store.world.mempool.insert(txid, mem);
                self.store.world.bump();
                let use_update = self.rng.gen_bool(0.4);
                if use_update {
                    self.check_update_transaction(id, MigrationTxState::Broadcast { txid: tx.txid() });
                }
                self.apply(Ev::MarkBroadcast(id), |t| t.state.mark_broadcast(mid(id)));
                self.sh.r.count("broadcasts_recorded", 1);
            }
            70..=79 => {
                // submitted, then the consumer died before recording it
                self.store.world.mempool.insert(txid, mem);
                self.store.world.bump();
                self.sh.r.count("broadcasts_submitted_but_never_recorded", 1);
                self.log.push(format!("broadcast {id} submitted, not recorded"));
            }
            80..=91 => {
                self.apply(Ev::ReportFailure(id), |t| t.state.report_broadcast_failure(mid(id), bh(tip)));
                self.sh.r.count("broadcast_failures_reported", 1);
            }
            92..=96 => {
                // "rejected" (already known to the node), yet it is in the mempool and may mine
                self.store.world.mempool.insert(txid, mem);
                self.store.world.bump();
                self.apply(Ev::ReportFailure(id), |t| t.state.report_broadcast_failure(mid(id), bh(tip)));
                self.sh.r.count("broadcast_failures_reported", 1);
                self.sh.r.count("broadcast_rejected_but_in_mempool", 1);
            }
            _ => {}
        }
        self.persist_and_verify("broadcast outcome");
    }

    /// `update_transaction` must change exactly one row's lifecycle state in both stores.
    fn check_update_transaction(&mut self, id: u32, new: MigrationTxState) {
        if model::terminal(self.state.status()) || self.sql_broken {
            return;
        }
        let pre = self.state.clone();
        if let Err(e) = self.store.update_transaction(mid(id), new) {
            self.sql_error("update_transaction", e);
            return;
        }
        self.sh.r.count("update_transaction_checks", 1);
        let want = fixtures::map_tx(&pre, id, |p| p.state = new);
        let mut viols = vec![];
        let got = self.store.mem.get_migration().unwrap();
        if got.as_ref() != Some(&want) {
            let f = got.as_ref().map(|g| model::first_difference(g, &want)).unwrap_or("missing".into());
            viols.push(Viol {
                class: format!("C18:persist:memory:update_transaction-mismatch:{f}"),
                detail: format!("update_transaction({id}, {new:?}) did not yield the same state with that one row changed ({f})"),
            });
        }
        if let Some(sql) = self.store.sql.as_ref() {
            match sql.get() {
                Ok(got) => {
                    if got.as_ref() != Some(&want) {
                        let f = got.as_ref().map(|g| model::first_difference(g, &want)).unwrap_or("missing".into());
                        viols.push(Viol {
                            class: format!("C18:persist:sqlite:update_transaction-mismatch:{f}"),
                            detail: format!("update_transaction({id}, {new:?}) did not yield the same state with that one row changed ({f})"),
                        });
                    }
                }
                Err(e) => self.sql_error("get_migration", e),
            }
        }
        // the stores now hold `want`, not the last written state
        self.store.last_written = None;
        self.report(viols, json!({"update_transaction": id}));
    }

    fn do_rebuild(&mut self, id: u32) {
        let scanned_t = self.store.world.scanned + 1;
        if let Some(real) = self.real.clone() {
            let mut ok = false;
            self.apply(Ev::Rebuild(id, scanned_t), |t| {
                let backend = RebuildBackend::new(&real, scanned_t - 1);
                let mut rng = t.rng.clone();
                let res = rebuild_expired_transfer(
                    &regtest_network(true),
                    &backend,
                    &spending_key(real.seed),
                    &mut t.state,
                    mid(id),
                    &mut rng,
                );
                t.rng = rng;
                ok = res.is_ok();
                if let Err(e) = res {
                    t.log.push(format!("rebuild error {e:?}"));
                }
            });
            self.sh.r.count(if ok { "real_rebuilds" } else { "real_rebuild_errors" }, 1);
        } else {
            let mut rng = self.rng.clone();
            let next = fixtures::emulate_rebuild(&self.state, id, scanned_t, &mut rng);
            self.rng = rng;
            self.apply(Ev::Rebuild(id, scanned_t), |t| t.state = next);
            self.sh.r.count("emulated_rebuilds", 1);
        }
        self.persist_and_verify("rebuild");
    }

    fn act_on(&mut self, step: &AdvanceStep) {
        // a step computed for a scanned target ahead of the store is only observed, not acted on
        // (the consumer-side actions below assume the unskewed target)
        if self.last_skew > 0 {
            return;
        }
        match step {
            AdvanceStep::Prove { transactions } => {
                let n = transactions.len();
                let k = if self.rng.gen_bool(0.85) { n } else { self.rng.gen_range(0..=n) };
                for pt in &transactions[..k] {
                    if self.dead_end {
                        break;
                    }
                    self.do_prove(u32::from(pt.id()));
                }
            }
            AdvanceStep::Broadcast { id } => self.do_broadcast(u32::from(*id)),
            AdvanceStep::Rebuild { id } => {
                if self.rng.gen_bool(0.85) {
                    self.do_rebuild(u32::from(*id));
                }
            }
            AdvanceStep::Replan => {
                if self.rng.gen_bool(0.5) {
                    self.apply(Ev::Supersede, |t| t.state.mark_superseded());
                    self.persist_and_verify("mark_superseded");
                }
            }
            AdvanceStep::Reevaluate => {
                // sync to (at least) the tip the rejecting node reported
                let w = &mut self.store.world;
                if self.rng.gen_bool(0.8) {
                    w.scanned = w.tip;
                    w.bump();
                }
            }
            AdvanceStep::Waiting | AdvanceStep::Complete => {}
        }
    }

    // ---------------------------------------------------------------- the environment

    fn mine(&mut self, k: u32) {
        for _ in 0..k {
            let inc = self.store.world.mine_block(70);
            self.sh.r.count("sim_transactions_mined", inc as u64);
        }
        self.sh.r.count("sim_blocks", k as u64);
        self.sync_wallet();
    }

    fn sync_wallet(&mut self) {
        let w = &mut self.store.world;
        match self.rng.gen_range(0..10) {
            0..=6 => w.scanned = w.tip,
            7..=8 => w.scanned += self.rng.gen_range(0..=(w.tip - w.scanned)),
            _ => {}
        }
        w.bump();
    }

    fn rollback(&mut self, to: u32) {
        let w = &mut self.store.world;
        if to >= w.tip || to == 0 {
            return;
        }
        let scanned = w.scanned;
        w.reorg_to(to);
        self.sh.r.count("sim_reorgs", 1);
        self.log.push(format!("reorg to {to}"));
        if scanned <= to {
            return;
        }
        // the wallet truncates — possibly lower than asked — and reports the height it achieved;
        // the consumer passes THAT height to the migration
        let extra = *[0u32, 0, 0, 1, 2].choose(&mut self.rng).unwrap();
        let achieved = to.saturating_sub(extra).max(1);
        self.store.world.scanned = achieved;
        let depth = scanned - achieved;
        let visited_by_wallet_walk = !model::policy_terminal(self.state.status());
        let use_wallet = self.store.sql.is_some()
            && !self.sql_broken
            && depth <= SQL_DEPTH - 5
            && visited_by_wallet_walk
            && (self.state.status() == MigrationStatus::Complete || self.rng.gen_bool(if depth <= 6 { 0.6 } else { 0.25 }));
        let mut expected = self.state.clone();
        expected.truncate_to_height(bh(achieved));
        if use_wallet {
            // The WALLET rolls its stored migrations back itself when it truncates. The wallet's
            // chain lives at other heights than the simulation, so the chain-derived heights are
            // translated by a constant on the way in and out (truncation only compares heights).
            let res = self.wallet_driven_truncation(scanned, achieved, &expected);
            if let Err(e) = res {
                self.sql_error("wallet truncate_to_height", e);
            }
        }
        self.apply(Ev::Truncate(achieved), |t| t.state.truncate_to_height(bh(achieved)));
        self.sh.r.count("rollbacks_applied", 1);
        // transactions back in flight keep their expiry in the simulated mempool
        self.persist_and_verify("truncate_to_height");
    }

    fn wallet_driven_truncation(&mut self, scanned: u32, achieved: u32, expected: &MigrationState) -> Result<(), String> {
        let depth = scanned - achieved;
        let sql = self.store.sql.as_mut().unwrap();
        let w_tip = sql.wallet_tip();
        let delta = i64::from(w_tip) - i64::from(scanned);
        let Some(translated) = fixtures::shift_chain_heights(&self.state, delta) else {
            self.sh.r.count("wallet_truncation_skipped_untranslatable", 1);
            return Ok(());
        };
        sql.wipe_account()?;
        // Often an EARLIER, completed migration of the same account is on file as well (retained
        // history), mined at heights around the truncation target: the wallet's truncation walks
        // every stored migration, and whatever it does to one record it must do atomically.
        let mut earlier: Option<(zcash_client_sqlite::pool_migration::MigrationUuid, MigrationState)> = None;
        if !translated.transactions().is_empty() && self.rng.gen_bool(0.45) {
            let span = (depth + 3).min(w_tip.saturating_sub(2)).max(1);
            let txs: Vec<_> = translated
                .transactions()
                .iter()
                .map(|t| {
                    let h = w_tip - self.rng.gen_range(0..span);
                    fixtures::rebuild_tx(t, |p| {
                        p.state = MigrationTxState::Mined { txid: t.txid(), height: bh(h) };
                        p.unsatisfiable = None;
                        p.broadcast_failure_at = None;
                    })
                })
                .collect();
            let h_state = fixtures::with_txs(&translated, MigrationStatus::Complete, txs);
            sql.replace(&h_state)?;
            let l = sql.list()?;
            if let Some((id, _)) = l.first() {
                earlier = Some((*id, h_state));
            }
        }
        sql.replace(&translated)?;
        let truncated = sql.wallet_truncate(depth);
        let mut hist_viols: Vec<Viol> = vec![];
        if let Some((id, h_state)) = &earlier {
            self.sh.r.count("wallet_truncations_with_an_earlier_complete_migration", 1);
            let h_now = sql.by_id(*id)?;
            let cur_now = if model::terminal(translated.status()) { sql.latest()? } else { sql.get()? };
            let viols = &mut hist_viols;
            match &truncated {
                Err(e) => {
                    self.sh.r.count("wallet_truncations_refused_with_history", 1);
                    if h_now.as_ref() != Some(h_state) || cur_now.as_ref() != Some(&translated) || sql.wallet_tip() != w_tip {
                        let f = h_now.as_ref().map(|x| model::first_difference(x, h_state)).unwrap_or("missing".into());
                        viols.push(Viol {
                            class: format!("C18:persist:sqlite:failed-wallet-truncation-changed-stored-migrations:{f}"),
                            detail: format!("truncate_to_height({depth} below the tip) returned an error ({}) but the stored migrations changed: earlier record differs in {f}", e.chars().take(120).collect::<String>()),
                        });
                    }
                }
                Ok((_, got_h)) => {
                    let mut want_h = h_state.clone();
                    want_h.truncate_to_height(bh(*got_h));
                    if h_now.as_ref() != Some(&want_h) {
                        let f = h_now.as_ref().map(|x| model::first_difference(x, &want_h)).unwrap_or("missing".into());
                        viols.push(Viol {
                            class: format!("C18:persist:sqlite:wallet-truncation-of-earlier-migration-differs-from-truncate_to_height:{f}"),
                            detail: format!("wallet truncated to {got_h}; the EARLIER (completed) migration of the account reads back different from MigrationState::truncate_to_height applied to what was saved ({f}); it now has {} transactions, saved {}", h_now.as_ref().map_or(0, |x| x.transactions().len()), h_state.transactions().len()),
                        });
                    }
                }
            }
            if truncated.is_err() {
                sql.regrow();
                sql.wipe_account()?;
                self.store.last_written = None;
                self.report(hist_viols, json!({"wallet_truncate_depth": depth, "with_earlier_complete_migration": true}));
                return Ok(());
            }
        }
        let (_, got_h) = truncated?;
        let loaded = if model::terminal(expected.status()) {
            sql.latest()?
        } else {
            sql.get()?
        };
        let other_ok = sql.get_for(sql.other_account)?;
        sql.regrow();
        sql.wipe_account()?;
        self.store.last_written = None;
        self.sh.r.count("wallet_driven_truncations", 1);
        let mut viols = hist_viols;
        if i64::from(got_h) - delta != i64::from(achieved) {
            self.sh.r.count("wallet_truncated_lower_than_requested", 1);
        }
        let want = {
            let mut e = self.state.clone();
            e.truncate_to_height(bh((i64::from(got_h) - delta) as u32));
            e
        };
        let back = loaded.as_ref().and_then(|l| fixtures::shift_chain_heights(l, -delta));
        if back.as_ref() != Some(&want) {
            let f = back.as_ref().map(|b| model::first_difference(b, &want)).unwrap_or("missing".into());
            viols.push(Viol {
                class: format!("C18:persist:sqlite:wallet-truncation-differs-from-truncate_to_height:{f}"),
                detail: format!(
                    "wallet truncated {depth} blocks (to sim height {achieved}); the stored migration read back differs from MigrationState::truncate_to_height in {f}"
                ),
            });
        }
        if other_ok.is_none() {
            viols.push(Viol {
                class: "C18:persist:sqlite:other-account-migration-lost".into(),
                detail: "the second account's pending migration disappeared during a wallet truncation".into(),
            });
        }
        self.report(viols, json!({"wallet_truncate_depth": depth}));
        Ok(())
    }

    fn env_event(&mut self) {
        let mut roll = self.rng.gen_range(0..100);
        let w_tip = self.store.world.tip;
        // abandoning the migration is rare
        if (73..=75).contains(&roll) && self.rng.gen_bool(0.8) {
            roll = 0;
        }
        // ... but on an already terminal migration the policy mutators are what must stay inert
        if model::terminal(self.state.status()) && self.rng.gen_bool(0.35) {
            roll = if self.rng.gen_bool(0.5) { 73 } else { 75 };
        }
        match roll {
            0..=37 => {
                let k = match self.rng.gen_range(0..25) {
                    0..=17 => self.rng.gen_range(1..=3),
                    18..=23 => self.rng.gen_range(4..=40),
                    _ => 0,
                };
                if k == 0 {
                    let far = w_tip + self.rng.gen_range(100..60_000);
                    self.mine(2);
                    self.store.world.jump_to(far);
                    self.sync_wallet();
                    self.sh.r.count("sim_long_absences", 1);
                } else {
                    self.mine(k);
                }
            }
            38..=52 => {
                // go exactly to a height where a guard flips
                let hs = self.interesting_targets(w_tip + 2);
                if let Some(t) = hs.choose(&mut self.rng).copied() {
                    let dist = t - 1 - w_tip;
                    if dist <= 12 {
                        self.mine(dist);
                    } else {
                        self.mine(2);
                        self.store.world.jump_to(t - 1);
                        self.sync_wallet();
                    }
                    self.sh.r.count("sim_jumps_to_guard_heights", 1);
                } else {
                    self.mine(1);
                }
            }
            53..=60 => self.sync_wallet(),
            61..=69 => {
                // reorg: by depth, or exactly at / just below a height the state refers to
                let mut cands: Vec<u32> = vec![];
                for t in self.state.transactions() {
                    if let MigrationTxState::Mined { height, .. } = t.state() {
                        let h = u32::from(height);
                        cands.extend([h, h.saturating_sub(1)]);
                    }
                    if let Some(h) = t.unsatisfiable_at() {
                        cands.extend([u32::from(h), u32::from(h).saturating_sub(1)]);
                    }
                    if let Some(h) = t.broadcast_failure_at() {
                        cands.extend([u32::from(h), u32::from(h).saturating_sub(1)]);
                    }
                }
                cands.retain(|h| *h < w_tip && w_tip - *h <= 45 && *h > 0);
                let to = if !cands.is_empty() && self.rng.gen_bool(0.6) {
                    *cands.choose(&mut self.rng).unwrap()
                } else {
                    w_tip.saturating_sub(*[1u32, 1, 2, 3, 5, 8, 13, 30].choose(&mut self.rng).unwrap())
                };
                self.rollback(to);
                if self.rng.gen_bool(0.7) {
                    let k = self.rng.gen_range(1..=4);
                    self.mine(k);
                }
            }
            70..=72 => {
                // a foreign spend of some pending transaction's inputs lands in the next block
                let cands: Vec<u32> = self
                    .state
                    .transactions()
                    .iter()
                    .filter(|t| !matches!(t.state(), MigrationTxState::Mined { .. }) && !self.store.world.chain.contains_key(t.txid().as_ref()))
                    .map(|t| u32::from(t.id()))
                    .collect();
                if let Some(id) = cands.choose(&mut self.rng) {
                    self.store.world.foreign.insert(*id, w_tip + 1);
                    self.sh.r.count("sim_foreign_spends", 1);
                }
                self.mine(1);
            }
            73..=74 => {
                // half of the time through the store-level cancel (which works on the stored record)
                let store_level = !self.sql_broken && self.store.sql.is_some() && !model::terminal(self.state.status()) && self.rng.gen_bool(0.5);
                if store_level {
                    // make sure the record the cancel works on is the current one
                    self.persist_and_verify("before store-level cancel");
                }
                self.apply(Ev::Cancel, |t| t.state.mark_cancelled());
                if store_level && !self.sql_broken {
                    self.sh.r.count("store_level_cancels", 1);
                    let _ = self.store.mem.replace_migration(&self.state);
                    match self.store.sql.as_mut().unwrap().cancel() {
                        Ok(()) => self.store.last_written = Some(self.state.clone()),
                        Err(e) => self.sql_error("cancel_migration", e),
                    }
                    self.persist_and_verify("cancel_migration (store level)");
                } else {
                    self.persist_and_verify("mark_cancelled");
                }
            }
            75 => {
                self.apply(Ev::Supersede, |t| t.state.mark_superseded());
                self.persist_and_verify("mark_superseded");
            }
            76..=79 => {
                // a failure report for an arbitrary row (a no-op unless it is Proved)
                let n = self.state.transactions().len() as u32;
                if n > 0 {
                    let id = self.rng.gen_range(0..n);
                    let tip = bh(w_tip + self.rng.gen_range(0..3));
                    self.apply(Ev::ReportFailure(id), |t| t.state.report_broadcast_failure(mid(id), tip));
                    self.persist_and_verify("report_broadcast_failure");
                }
            }
            80..=85 => {
                // a consumer that also polls for inclusion records it itself (before the engine's
                // own sweep gets to see the new block)
                let inc = self.store.world.mine_block(90);
                self.sh.r.count("sim_transactions_mined", inc as u64);
                self.sh.r.count("sim_blocks", 1);
                self.store.world.scanned = self.store.world.tip;
                let scanned = self.store.world.scanned;
                let cands: Vec<(u32, u32)> = self
                    .state
                    .transactions()
                    .iter()
                    .filter_map(|t| match t.state() {
                        MigrationTxState::Broadcast { txid } => self
                            .store
                            .world
                            .chain
                            .get(txid.as_ref())
                            .copied()
                            .filter(|h| *h <= scanned)
                            .map(|h| (u32::from(t.id()), h)),
                        _ => None,
                    })
                    .collect();
                if let Some((id, h)) = cands.choose(&mut self.rng).copied() {
                    if self.rng.gen_bool(0.9) {
                        let txid = self.state.transactions().iter().find(|t| u32::from(t.id()) == id).unwrap().txid();
                        self.check_update_transaction(id, MigrationTxState::Mined { txid, height: bh(h) });
                    }
                    self.apply(Ev::MarkMined(id), |t| t.state.mark_mined(mid(id), bh(h)));
                    self.persist_and_verify("mark_mined");
                } else {
                    self.mine(1);
                }
            }
            86..=91 => {
                let cands: Vec<u32> = self
                    .state
                    .transactions()
                    .iter()
                    .filter(|t| matches!(t.state(), MigrationTxState::AwaitingSignature))
                    .map(|t| u32::from(t.id()))
                    .collect();
                if let Some(id) = cands.choose(&mut self.rng).copied() {
                    let bytes: Vec<u8> = (0..self.rng.gen_range(1..40)).map(|_| self.rng.r#gen()).collect();
                    self.apply(Ev::ApplySignature(id), |t| {
                        let _ = t.state.apply_signature(mid(id), bytes);
                    });
                    self.persist_and_verify("apply_signature");
                } else {
                    self.mine(1);
                }
            }
            92..=95 => {
                // crash and restart: the consumer continues from what the store holds
                if !model::terminal(self.state.status()) {
                    match self.store.get_migration() {
                        Ok(Some(l)) => {
                            self.sh.r.count("crash_restarts_from_store", 1);
                            if self.store.primary_sql {
                                self.sh.r.count("crash_restarts_from_sqlite", 1);
                            }
                            self.state = l;
                        }
                        Ok(None) => {}
                        Err(e) => self.sql_error("get_migration", e),
                    }
                }
            }
            _ => {}
        }
    }

    /// The commit guard, probed against both stores' `get_migration`.
    fn probe_commit_guard(&mut self) {
        let live = !model::terminal(self.state.status());
        let status = model::status_name(self.state.status());
        let mut viols = vec![];
        let mut run = |name: &str, res: Result<MigrationState, CommitError<String>>, wrote: bool, viols: &mut Vec<Viol>| {
            let refused = matches!(res, Err(CommitError::MigrationInProgress));
            if live && !refused {
                viols.push(Viol {
                    class: format!("C18:guard:{name}:commit-admitted-over-live-migration:{status}"),
                    detail: format!("commit_preparation got past the guard (result {:?}, wrote {wrote}) while the account's stored migration is {status}", res.as_ref().map(|_| "ok")),
                });
            }
            if !live && refused {
                viols.push(Viol {
                    class: format!("C18:guard:{name}:commit-refused-over-terminal-migration:{status}"),
                    detail: format!("commit_preparation refused although the stored migration is terminal ({status})"),
                });
            }
        };
        let sk = spending_key(1);
        {
            let mut probe = GuardProbe {
                store: &self.store.mem,
                wrote: false,
            };
            let res = commit_preparation(
                &regtest_network(true),
                bh(TARGET_HEIGHT),
                &mut probe,
                &sk,
                &self.sh.plan,
                &mut self.sh.guard_rng,
                ReplanThreshold::DEFAULT,
            );
            let wrote = probe.wrote;
            run("memory", res, wrote, &mut viols);
        }
        if let Some(sql) = self.store.sql.as_ref()
            && !self.sql_broken
        {
            struct SqlRead<'b>(&'b SqlEnv);
            impl PoolMigrationRead for SqlRead<'_> {
                type Error = String;
                fn get_migration(&self) -> Result<Option<MigrationState>, String> {
                    self.0.get()
                }
                fn check_step_satisfiability(
                    &self,
                    _tx: &zcash_pool_migration::engine::MigrationTransaction,
                    _s: ReorgSettleDepth,
                ) -> Result<zcash_pool_migration::satisfiability::StepSatisfiability, String> {
                    Err("unused".into())
                }
                fn mined_height(&self, _t: zcash_protocol::TxId) -> Result<Option<zcash_protocol::consensus::BlockHeight>, String> {
                    Ok(None)
                }
            }
            let rd = SqlRead(sql);
            let mut probe = GuardProbe { store: &rd, wrote: false };
            let res = commit_preparation(
                &regtest_network(true),
                bh(TARGET_HEIGHT),
                &mut probe,
                &sk,
                &self.sh.plan,
                &mut self.sh.guard_rng,
                ReplanThreshold::DEFAULT,
            );
            let wrote = probe.wrote;
            run("sqlite", res, wrote, &mut viols);
        }
        self.sh.r.count(if live { "guard_probes_over_live_migration" } else { "guard_probes_over_terminal_migration" }, 1);
        self.sh.r.count(&format!("guard_probe_status_{status}"), 1);
        self.report(viols, json!({"guard_probe": status}));
    }

    fn run(&mut self, max_events: u32) {
        // the simulated chain agrees with the state the trace starts from
        for t in self.state.transactions() {
            let txid = *t.txid().as_ref();
            match t.state() {
                MigrationTxState::Mined { height, .. } => {
                    self.store.world.chain.insert(txid, u32::from(height));
                }
                MigrationTxState::Broadcast { .. } => {
                    self.store.world.mempool.insert(
                        txid,
                        MemTx {
                            id: u32::from(t.id()),
                            expiry: u32::from(t.expiry_height()),
                        },
                    );
                }
                _ => {}
            }
        }
        let s0 = snap(&self.state);
        self.store.world.sync_ids(&s0);
        let mut v0 = vec![];
        model::check_invariants(&s0, "initial", &mut v0);
        if !v0.is_empty() {
            self.sh.r.inconclusive("generator produced a state violating the invariants");
            return;
        }
        self.persist_and_verify("initial commit");
        self.probe_commit_guard();
        let mut last_status = self.state.status();
        // once terminal, a few more rounds are enough to see that nothing leaves the status
        let mut terminal_rounds = self.rng.gen_range(3..10);
        while self.events < max_events && !self.dead_end && self.sh.r.time_left() {
            if model::terminal(self.state.status()) {
                if terminal_rounds == 0 {
                    break;
                }
                terminal_rounds -= 1;
            }
            let Some(step) = self.advance() else { break };
            if self.dead_end {
                break;
            }
            if self.rng.gen_bool(0.9) {
                self.act_on(&step);
            }
            if self.dead_end {
                break;
            }
            self.env_event();
            if self.state.status() != last_status || self.rng.gen_bool(0.1) {
                self.probe_commit_guard();
                last_status = self.state.status();
            }
        }
        // the database itself refuses a second non-terminal migration for the account
        if let Some(sql) = self.store.sql.as_ref()
            && !self.sql_broken
            && !model::terminal(self.state.status())
            && self.store.last_written.as_ref() == Some(&self.state)
        {
            match sql.raw_second_pending_refused() {
                Ok(true) => self.sh.r.count("second_pending_row_refused_by_database", 1),
                Ok(false) => {
                    let v = Viol {
                        class: "C18:persist:sqlite:second-non-terminal-row-admitted".into(),
                        detail: "a second non-terminal migration row for the same account could be inserted".into(),
                    };
                    self.report(vec![v], json!({}));
                }
                Err(_) => self.sh.r.count("second_pending_row_probe_skipped", 1),
            }
        }
        self.sh.r.count("traces", 1);
        self.sh.r.count(&format!("traces_{}", self.label), 1);
        self.sh.r.count("trace_events", self.events as u64);
        if self.store.primary_sql {
            self.sh.r.count("traces_reading_from_sqlite", 1);
        }
        if model::terminal(self.state.status()) {
            self.sh.r.count(&format!("traces_ending_{}", model::status_name(self.state.status())), 1);
        }
    }
}

/// Round trip of states no scenario produces (`arb_migration_state`), through both stores.
fn arb_roundtrips(sh: &mut Shared, sql: &mut SqlEnv, seed: u64, n: u32) {
    let mut runner = vh_common::proptest_runner(seed, 1801);
    let strat = arb_migration_state();
    for i in 0..n {
        if !sh.r.time_left() {
            break;
        }
        let Some(state) = vh_common::draw(&mut runner, &strat) else {
            sh.r.inconclusive("proptest rejected");
            continue;
        };
        let expect = (!model::terminal(state.status())).then(|| state.clone());
        let ranks: Vec<u8> = state.transactions().iter().map(|t| model::rank_of(&t.state())).collect();
        sh.r.case(&("arb", model::status_name(state.status()), ranks), true);
        sh.r.count("arbitrary_state_roundtrips", 1);
        let replay = json!({"arb_state_index": i, "status": model::status_name(state.status()), "state": format!("{:?}", snap(&state))});
        let mut mem = MockBackend::new(vec![], 0);
        mem.replace_migration(&state).unwrap();
        let got = mem.get_migration().unwrap();
        if got != expect {
            let f = match (&got, &expect) {
                (Some(a), Some(b)) => model::first_difference(a, b),
                _ => "presence".into(),
            };
            sh.r.violation(&format!("C18:persist:memory:roundtrip-mismatch:{f}"), "arbitrary state", replay.clone());
        }
        let res = (|| -> Result<(), String> {
            sql.replace(&state)?;
            let got = sql.get()?;
            if got != expect {
                let f = match (&got, &expect) {
                    (Some(a), Some(b)) => model::first_difference(a, b),
                    _ => "presence".into(),
                };
                sh.r.violation(&format!("C18:persist:sqlite:roundtrip-mismatch:{f}"), "arbitrary state", replay.clone());
            }
            if expect.is_none() {
                let l = sql.latest()?;
                if l.as_ref() != Some(&state) {
                    let f = l.as_ref().map(|l| model::first_difference(l, &state)).unwrap_or("missing".into());
                    sh.r.violation(&format!("C18:persist:sqlite:history-mismatch:{f}"), "arbitrary terminal state", replay.clone());
                }
            }
            let (pending, _) = sql.row_counts()?;
            if pending > 1 {
                sh.r.violation("C18:persist:sqlite:two-non-terminal-migrations", "arbitrary states", replay.clone());
            }
            Ok(())
        })();
        if let Err(e) = res {
            let cls: String = e.chars().filter(|c| !c.is_ascii_digit()).take(90).collect();
            sh.r.violation(&format!("C18:persist:sqlite:error:arbitrary-state:{cls}"), e, replay);
            let _ = sql.wipe_account();
        }
        if i % 16 == 15 {
            let _ = sql.wipe_account();
        }
    }
    let _ = sql.wipe_account();
}

/// Dedicated probes run once (shard 0): (1) a JUDGED scenario the trace generator deliberately
/// avoids (saving an unchanged Complete state twice, then a wallet rollback); (2) a behaviour
/// OUTSIDE the documented drive contract, reported as an unjudged note.
fn side_observations(sh: &mut Shared, sql: &mut SqlEnv, rng: &mut ChaCha20Rng) {
    let prep = zcash_pool_migration::preparation::PreparationPlan::from_parts(vec![], vec![]);
    let mut f = fixtures::synthetic(rng, prep);
    while f.state.transactions().len() < 2 {
        let prep = zcash_pool_migration::preparation::PreparationPlan::from_parts(vec![], vec![]);
        f = fixtures::synthetic(rng, prep);
    }
    // (1) a consumer that persists an unchanged Complete state a second time, then a reorg
    let tip = sql.wallet_tip();
    let txs: Vec<_> = f
        .state
        .transactions()
        .iter()
        .enumerate()
        .map(|(i, t)| {
            let txid = t.txid();
            fixtures::rebuild_tx(t, |p| {
                p.state = MigrationTxState::Mined {
                    txid,
                    height: bh(tip - 1 - (i as u32 % 2)),
                };
                p.unsatisfiable = None;
                p.broadcast_failure_at = None;
            })
        })
        .collect();
    let complete = fixtures::with_txs(&f.state, MigrationStatus::Complete, txs);
    let _ = sql.wipe_account();
    // JUDGED (dedicated probe only; the trace generator never saves an unchanged terminal state
    // twice, so this class cannot mask others): a saved migration must survive being saved again
    // and the wallet's rollback afterwards.
    let want_after = {
        let mut e = complete.clone();
        e.truncate_to_height(bh(tip - 4));
        e
    };
    let r = (|| -> Result<(u64, u64, Result<(u32, u32), String>, Option<MigrationState>, u64), String> {
        sql.replace(&fixtures::with_status(&complete, MigrationStatus::InProgress))?;
        sql.replace(&complete)?;
        let rows1 = sql.row_counts()?.1;
        sql.replace(&complete)?;
        let rows2 = sql.row_counts()?.1;
        let t = sql.wallet_truncate(4);
        let after = sql.get()?;
        let pending = sql.row_counts()?.0;
        Ok((rows1, rows2, t, after, pending))
    })();
    sql.regrow();
    let _ = sql.wipe_account();
    let replay = json!({
        "probe": "idempotent-save-of-complete",
        "calls": [
            "PoolMigrations::replace_migration(state with status InProgress, every transaction Mined at tip-1 / tip-2)",
            "replace_migration(same state, status Complete)",
            "replace_migration(same Complete state again)",
            "WalletDb::truncate_to_height(tip - 4)"
        ],
        "state": state_digest(&snap(&complete)),
    });
    sh.r.count("probe_idempotent_save_of_complete", 1);
    match r {
        Ok((rows1, rows2, t, after, pending)) => {
            let msg = format!(
                "rows after first Complete persist {rows1}, after an identical second persist {rows2}; wallet truncate_to_height below the mined heights -> {}",
                match &t {
                    Ok(_) => "ok".to_string(),
                    Err(e) => format!("ERROR {}", e.chars().take(200).collect::<String>()),
                }
            );
            match t {
                Err(_) => {
                    let class = if rows2 > rows1 {
                        "C18:sqlite-store:idempotent-save-of-complete-duplicates-row:truncation-fails"
                    } else {
                        "C18:sqlite-store:save-of-complete-then-rollback:truncation-fails"
                    };
                    sh.r.violation(class, msg, replay);
                }
                Ok(_) => {
                    if pending > 1 || after.as_ref() != Some(&want_after) {
                        let f = after
                            .as_ref()
                            .map(|a| model::first_difference(a, &want_after))
                            .unwrap_or_else(|| "missing".into());
                        let class = if rows2 > rows1 {
                            "C18:sqlite-store:idempotent-save-of-complete-duplicates-row:rollback-diverges"
                        } else {
                            "C18:sqlite-store:save-of-complete-then-rollback:rollback-diverges"
                        };
                        sh.r.violation(
                            class,
                            format!("{msg}; {pending} pending rows; migration read back differs from truncate_to_height in {f}"),
                            replay,
                        );
                    }
                }
            }
        }
        Err(e) => sh.r.inconclusive(&format!("idempotent-save probe could not run: {}", e.chars().filter(|c| !c.is_ascii_digit()).take(80).collect::<String>())),
    }
    // (2) stale mutator calls outside the drive contract
    let mut s = complete.clone();
    let id = s.transactions()[0].id();
    s.mark_broadcast(id);
    if !matches!(s.transactions()[0].state(), MigrationTxState::Mined { .. }) {
        sh.r.count("observation_stale_mark_broadcast_demotes_mined_row", 1);
        sh.r.note(format!(
            "observation (outside the drive contract, not judged): mark_broadcast on a Mined row moves it back to {:?} (status stays {:?})",
            model::RANK_NAMES[model::rank_of(&s.transactions()[0].state()) as usize],
            s.status()
        ));
    }
}

/// Mode `--c17-rebuild 1` (run by the C17 check): the expiry of a REBUILT transfer is the canonical
/// rolling expiry of its NEW scheduled height. Real commits are re-opened just below the end of an
/// expiry period, so that the freshly drawn delay carries the new schedule across the period
/// boundary; every in-process rebuild must leave `expiry_height == expiry_height(scheduled_height)`,
/// a schedule that does not go back, and an expiry that is not in the past.
fn c17_rebuild_mode(args: &Args) {
    use zcash_protocol::zip318::{EXPIRY_MODULUS, expiry_height};
    let mut r = Reporter::new("C17", args);
    let seed = args.shard_seed();
    let mut rng = vh_common::rng(seed, 1717);
    let mut k = 0u64;
    while r.time_left() && k < args.get_u64("fixtures", 3) {
        k += 1;
        let (notes, interval) = fixtures::REAL_SHAPES[(args.shard as usize + k as usize) % fixtures::REAL_SHAPES.len()];
        let (fx, _plan) = match fixtures::real_commit(seed.wrapping_mul(17).wrapping_add(k), notes, interval) {
            Ok(x) => x,
            Err(e) => {
                r.inconclusive("c17-rebuild: real commit fixture failed");
                r.note(e);
                continue;
            }
        };
        let real = fx.real.clone().expect("real fixture");
        r.count("rebuild_fixtures", 1);
        let transfers: Vec<u32> = fx.state.transactions().iter().filter(|t| matches!(t.kind(), MigrationTxKind::Transfer { .. })).map(|t| u32::from(t.id())).collect();
        if transfers.is_empty() {
            r.count("rebuild_fixtures_without_directly_funded_transfer", 1);
            continue;
        }
        let max_expiry = fx.state.transactions().iter().map(|t| u32::from(t.expiry_height())).max().unwrap_or(0);
        for j in 0..args.get_u64("rebuilds", 40) {
            if !r.time_left() {
                break;
            }
            let id = *transfers.choose(&mut rng).unwrap();
            // re-open d blocks before the end of a period that lies past every stored expiry
            let d = 1 + (j % 5) as u32;
            let period = (max_expiry / EXPIRY_MODULUS) + 2 + (j % 3) as u32;
            let tip = period * EXPIRY_MODULUS - d - 1;
            let mut state = fx.state.clone();
            let backend = RebuildBackend::new(&real, tip);
            let mut trng = vh_common::rng(seed ^ j, 1718 + k);
            let res = guard(|| rebuild_expired_transfer(&regtest_network(true), &backend, &spending_key(real.seed), &mut state, mid(id), &mut trng));
            r.case(&("c17-rebuild", interval, d, j % 3), true);
            match res {
                Err(p) => r.violation(&format!("C17:rebuild:panic:{}", panic_class(&p)), p, json!({"tip": tip, "transfer": id})),
                Ok(Err(e)) => {
                    let cls: String = format!("{e:?}").chars().take_while(|c| c.is_alphanumeric()).collect();
                    r.count(&format!("rebuild_refused_{cls}"), 1);
                }
                Ok(Ok(())) => {
                    r.count("rebuilds_done", 1);
                    let t = state.transactions().iter().find(|t| u32::from(t.id()) == id).expect("rebuilt tx").clone();
                    let (sched, exp) = (t.scheduled_height(), t.expiry_height());
                    if u32::from(sched) / EXPIRY_MODULUS != (tip + 1) / EXPIRY_MODULUS {
                        r.count("rebuilds_scheduled_across_an_expiry_period_boundary", 1);
                    }
                    let replay = json!({"fixture_notes": notes, "interval": interval, "tip": tip, "transfer": id, "scheduled": u32::from(sched), "expiry": u32::from(exp)});
                    if exp != expiry_height(sched) {
                        r.violation(
                            "C17:rebuild:expiry-not-canonical-for-new-schedule",
                            format!("re-opened at tip {tip}: transfer {id} rescheduled to {sched:?} but expires at {exp:?}; the canonical rolling expiry of that height is {:?}", expiry_height(sched)),
                            replay.clone(),
                        );
                    }
                    if u32::from(sched) < tip + 1 {
                        r.violation("C17:rebuild:scheduled-in-the-past", format!("tip {tip}, rescheduled to {sched:?}"), replay.clone());
                    }
                    if u32::from(exp) < u32::from(sched) {
                        r.violation("C17:rebuild:expires-before-its-schedule", format!("scheduled {sched:?}, expiry {exp:?}"), replay);
                    }
                }
            }
        }
    }
    r.finish();
}

fn main() {
    vh_common::install_panic_hook();
    let args = Args::parse();
    if args.extra.contains_key("c17-rebuild") {
        c17_rebuild_mode(&args);
        return;
    }
    let r = Reporter::new("C18", &args);
    let seed = args.shard_seed();
    let mut rng = vh_common::rng(seed, 18);

    // real commits (expensive: build + pre-sign every PCZT), reused by many traces
    let n_real = args.get_u64("real-commits", args.pick(2, 5)) as usize;
    let mut reals: Vec<Fixture> = vec![];
    let mut plan: Option<MigrationPlan> = None;
    for k in 0..n_real {
        let (notes, interval) = fixtures::REAL_SHAPES[(args.shard as usize + k) % fixtures::REAL_SHAPES.len()];
        match fixtures::real_commit(seed.wrapping_mul(31).wrapping_add(k as u64 + 1), notes, interval) {
            Ok((f, p)) => {
                reals.push(f);
                plan.get_or_insert(p);
            }
            Err(e) => panic!("real commit fixture failed: {e}"),
        }
    }
    let plan = plan.expect("at least one real commit");
    let mut sh = Shared {
        r,
        plan,
        guard_rng: vh_common::rng(seed, 1802),
    };
    sh.r.count("real_commits", reals.len() as u64);
    for f in &reals {
        sh.r.count("real_commit_transactions", f.state.transactions().len() as u64);
    }

    let mut sql = SqlEnv::new(SQL_DEPTH as usize);
    // a second account with its own pending migration: nothing done to the first may touch it
    let other_state = fixtures::with_status(&reals[0].state, MigrationStatus::Committed);
    let other = sql.other_account;
    sql.replace_for(other, &other_state).expect("second account's migration");

    if args.shard == 0 {
        side_observations(&mut sh, &mut sql, &mut rng);
    }

    let n_arb = args.get_u64("arb", args.pick(150, 3000)) as u32;
    arb_roundtrips(&mut sh, &mut sql, seed, n_arb);

    let n_traces = args.get_u64("traces", args.pick(400, 1_000_000));
    let mut runner = vh_common::proptest_runner(seed, 1803);
    let prep_strat = arb_preparation_plan();
    let mut i = 0u64;
    while i < n_traces && sh.r.time_left() {
        i += 1;
        let trace_seed = seed.wrapping_mul(1_000_003).wrapping_add(i);
        let fixture = if rng.gen_range(0..100) < 22 {
            let f = reals.choose(&mut rng).unwrap();
            Fixture {
                state: f.state.clone(),
                base: f.base,
                real: f.real.clone(),
                label: "real",
            }
        } else {
            let prep = vh_common::draw(&mut runner, &prep_strat).expect("prep plan");
            fixtures::synthetic(&mut rng, prep)
        };
        let flip = *[0u64, 0, 0, 0, 0, 3, 3, 3, 10, 10, 30].choose(&mut rng).unwrap();
        let world = World::new(trace_seed, fixture.base, flip);
        let with_sql = rng.gen_range(0..100) < 70;
        let primary_sql = rng.gen_bool(0.5);
        let max_events = rng.gen_range(30..100);
        // Between traces the account's rows are removed, except that a migration which ended
        // TERMINAL is often left behind as retained history (up to 5 records): the next trace then
        // runs its migration next to earlier ones, as a long-lived wallet does.
        let keep = match (sql.get(), sql.latest(), sql.list()) {
            (Ok(None), Ok(Some(last)), Ok(l)) if !l.is_empty() && sql.history.len() < 5 && l.len() == sql.history.len() + 1 && rng.gen_bool(0.75) => {
                let id = l[0].0;
                if !sql.history.iter().any(|(i, _)| *i == id) {
                    sql.history.push((id, last));
                }
                true
            }
            (Ok(None), _, Ok(l)) if !sql.history.is_empty() && l.len() == sql.history.len() && rng.gen_bool(0.75) => true,
            _ => false,
        };
        if !keep {
            let _ = sql.wipe_account();
        }
        sh.r.set_max("max_retained_history_at_trace_start", sql.history.len() as u64);
        if !sql.history.is_empty() {
            sh.r.count("traces_started_with_retained_history", 1);
        }
        {
            let store = ScriptedStore::new(world, if with_sql { Some(&mut sql) } else { None }, primary_sql);
            let mut t = Trace {
                sh: &mut sh,
                rng: vh_common::rng(trace_seed, 1804),
                state: fixture.state,
                store,
                real: fixture.real,
                events: 0,
                label: fixture.label,
                trace_id: i,
                cfg: AdvanceConfig::new(ReorgSettleDepth::new(10)),
                log: vec![],
                dead_end: false,
                sql_broken: false,
                last_skew: 0,
            };
            t.run(max_events);
        }
        // the other account's migration is untouched
        match sql.get_for(other) {
            Ok(Some(s)) if s == other_state => sh.r.count("other_account_migration_intact", 1),
            other_res => {
                sh.r.violation(
                    "C18:persist:sqlite:other-account-migration-changed",
                    format!("second account's pending migration changed: {:?}", other_res.map(|o| o.map(|s| snap(&s)))),
                    json!({"trace": i}),
                );
                let _ = sql.replace_for(other, &other_state);
            }
        }
    }
    sh.r.finish();
}
