//! The simulated environment: a chain with a mempool, reorgs and foreign
//! spends; a wallet that scans it with a lag and estimates the tip; and the
//! scripted store the engine is driven against. Persistence of the scripted
//! store goes to the REAL stores (the in-memory `MockBackend` and, when an
//! SQLite environment is attached, `PoolMigrations` over the wallet database);
//! only `check_step_satisfiability` / `mined_height` are answered from the
//! simulation (honestly, or with adversarial flips).

use std::cell::RefCell;
use std::collections::BTreeMap;

use zcash_pool_migration::engine::{
    MigrationState, MigrationTransaction, MigrationTransferId, MigrationTxState, PoolMigrationRead,
    PoolMigrationWrite, ProvedTransaction,
};
use zcash_pool_migration::satisfiability::{ReorgSettleDepth, StepSatisfiability, UnsatisfiableCause};
use zcash_pool_migration_memory::MockBackend;
use zcash_protocol::TxId;
use zcash_protocol::consensus::BlockHeight;

use crate::model::{Ans, Snap};
use crate::sqlenv::SqlEnv;

fn mix(a: u64, b: u64) -> u64 {
    // splitmix64 over the pair
    let mut z = a
        .wrapping_mul(0x9E3779B97F4A7C15)
        .wrapping_add(b)
        .wrapping_add(0x632BE59BD9B4E019);
    z = (z ^ (z >> 30)).wrapping_mul(0xBF58476D1CE4E5B9);
    z = (z ^ (z >> 27)).wrapping_mul(0x94D049BB133111EB);
    z ^ (z >> 31)
}

#[derive(Clone, Debug)]
pub struct MemTx {
    pub id: u32,
    pub expiry: u32,
}

pub struct World {
    /// network tip
    pub tip: u32,
    /// the wallet's fully-scanned height (<= tip)
    pub scanned: u32,
    /// best chain: txid -> height
    pub chain: BTreeMap<[u8; 32], u32>,
    pub mempool: BTreeMap<[u8; 32], MemTx>,
    /// foreign (non-migration) spends of a migration transaction's inputs: tx id -> height
    pub foreign: BTreeMap<u32, u32>,
    /// current txid and dependencies of every migration transaction (refreshed by the driver)
    pub txid_of: BTreeMap<u32, [u8; 32]>,
    pub deps_of: BTreeMap<u32, Vec<u32>>,
    pub expiry_of: BTreeMap<u32, u32>,
    /// answers are a pure function of (seed, epoch, tx): two calls without an
    /// intervening simulation event see the same store
    pub epoch: u64,
    pub seed: u64,
    /// percent of satisfiability answers replaced by an arbitrary one
    pub flip_pct: u64,
    pub queries: RefCell<Vec<(u32, Ans, bool)>>,
    /// (transaction, height the answer rests on), in query order
    pub answer_heights: RefCell<Vec<(u32, u32)>>,
    pub mined_queries: RefCell<u64>,
}

impl World {
    pub fn new(seed: u64, tip: u32, flip_pct: u64) -> Self {
        World {
            tip,
            scanned: tip,
            chain: BTreeMap::new(),
            mempool: BTreeMap::new(),
            foreign: BTreeMap::new(),
            txid_of: BTreeMap::new(),
            deps_of: BTreeMap::new(),
            expiry_of: BTreeMap::new(),
            epoch: 0,
            seed,
            flip_pct,
            queries: RefCell::new(vec![]),
            answer_heights: RefCell::new(vec![]),
            mined_queries: RefCell::new(0),
        }
    }

    pub fn sync_ids(&mut self, s: &Snap) {
        self.txid_of = s.txs.iter().map(|t| (t.id, t.txid)).collect();
        self.deps_of = s.txs.iter().map(|t| (t.id, t.deps.clone())).collect();
        self.expiry_of = s.txs.iter().map(|t| (t.id, t.expiry)).collect();
    }

    pub fn bump(&mut self) {
        self.epoch += 1;
    }

    fn mined_on_chain(&self, id: u32) -> Option<u32> {
        self.txid_of.get(&id).and_then(|t| self.chain.get(t)).copied()
    }

    /// Appends one block at `tip + 1`; each eligible mempool transaction is
    /// included with probability `p_pct`. Returns the number included.
    pub fn mine_block(&mut self, p_pct: u64) -> u32 {
        let h = self.tip + 1;
        let mut included = 0;
        let cands: Vec<([u8; 32], MemTx)> = self.mempool.iter().map(|(k, v)| (*k, v.clone())).collect();
        for (txid, m) in cands {
            if m.expiry != 0 && m.expiry < h {
                self.mempool.remove(&txid);
                continue;
            }
            // a stale artifact (rebuilt since) or a conflicting foreign spend can never mine
            if self.txid_of.get(&m.id) != Some(&txid) || self.foreign.contains_key(&m.id) {
                continue;
            }
            let deps_ok = self
                .deps_of
                .get(&m.id)
                .map(|ds| ds.iter().all(|d| self.mined_on_chain(*d).is_some()))
                .unwrap_or(true);
            if !deps_ok {
                continue;
            }
            if mix(self.seed ^ 0xb10c, mix(h as u64, m.id as u64)) % 100 < p_pct {
                self.chain.insert(txid, h);
                self.mempool.remove(&txid);
                included += 1;
            }
        }
        self.tip = h;
        self.bump();
        included
    }

    /// Jumps the tip without simulating inclusion (a long absence).
    pub fn jump_to(&mut self, h: u32) {
        if h > self.tip {
            self.tip = h;
            self.bump();
        }
    }

    /// Chain reorganisation: everything above `h` is discarded.
    pub fn reorg_to(&mut self, h: u32) {
        let gone: Vec<[u8; 32]> = self.chain.iter().filter(|(_, m)| **m > h).map(|(k, _)| *k).collect();
        for txid in gone {
            self.chain.remove(&txid);
            if let Some((id, _)) = self.txid_of.iter().find(|(_, t)| **t == txid) {
                let expiry = self.expiry_of.get(id).copied().unwrap_or(0);
                self.mempool.insert(txid, MemTx { id: *id, expiry });
            }
        }
        self.foreign.retain(|_, fh| *fh <= h);
        self.tip = h;
        self.bump();
    }

    fn honest(&self, tx: &MigrationTransaction) -> StepSatisfiability {
        let id = u32::from(tx.id());
        let as_of_height = BlockHeight::from_u32(self.scanned);
        if let Some(fh) = self.foreign.get(&id)
            && *fh <= self.scanned
        {
            return StepSatisfiability::Unsatisfiable {
                cause: UnsatisfiableCause::InputsSpent {
                    nullifiers: tx.spend_nullifiers().clone(),
                },
                as_of_height,
            };
        }
        let expiry = u32::from(tx.expiry_height());
        if !matches!(tx.state(), MigrationTxState::Mined { .. }) && expiry != 0 && expiry < self.scanned + 1 {
            return StepSatisfiability::Unsatisfiable {
                cause: UnsatisfiableCause::Expired,
                as_of_height,
            };
        }
        let deps_scanned = tx
            .depends_on()
            .iter()
            .all(|d| self.mined_on_chain(u32::from(*d)).map(|h| h <= self.scanned).unwrap_or(false));
        if !deps_scanned {
            return StepSatisfiability::NotYetSatisfiable { as_of_height };
        }
        StepSatisfiability::Satisfiable { as_of_height }
    }

    pub fn answer(&self, tx: &MigrationTransaction) -> StepSatisfiability {
        let id = u32::from(tx.id());
        let r = mix(self.seed ^ 0x5a7, mix(self.epoch, id as u64));
        let (ans, flipped) = if r % 100 < self.flip_pct {
            let as_of_height = BlockHeight::from_u32(self.scanned.saturating_sub(((r >> 20) % 4) as u32));
            let a = match (r >> 8) % 7 {
                0 | 1 => StepSatisfiability::Satisfiable { as_of_height },
                2 => StepSatisfiability::NotYetSatisfiable { as_of_height },
                3 => StepSatisfiability::Unsatisfiable {
                    cause: UnsatisfiableCause::InputsSpent {
                        nullifiers: tx.spend_nullifiers().clone(),
                    },
                    as_of_height,
                },
                4 => StepSatisfiability::Unsatisfiable {
                    cause: UnsatisfiableCause::InputsInvalidated { anchor: [7u8; 32] },
                    as_of_height,
                },
                5 => StepSatisfiability::Unsatisfiable {
                    cause: UnsatisfiableCause::AnchorInvalidated,
                    as_of_height,
                },
                _ => StepSatisfiability::Unsatisfiable {
                    cause: UnsatisfiableCause::Expired,
                    as_of_height,
                },
            };
            (a, true)
        } else {
            (self.honest(tx), false)
        };
        let cls = match &ans {
            StepSatisfiability::Satisfiable { .. } => Ans::Satisfiable,
            StepSatisfiability::NotYetSatisfiable { .. } => Ans::NotYet,
            StepSatisfiability::Unsatisfiable { cause, .. } => {
                if cause.kind().is_some() {
                    Ans::UnsatMarking
                } else {
                    Ans::UnsatExpired
                }
            }
        };
        let as_of = match &ans {
            StepSatisfiability::Satisfiable { as_of_height } | StepSatisfiability::NotYetSatisfiable { as_of_height } | StepSatisfiability::Unsatisfiable { as_of_height, .. } => u32::from(*as_of_height),
        };
        self.answer_heights.borrow_mut().push((id, as_of));
        self.queries.borrow_mut().push((id, cls, flipped));
        ans
    }

    pub fn mined_height(&self, txid: &[u8; 32]) -> Option<u32> {
        *self.mined_queries.borrow_mut() += 1;
        self.chain.get(txid).copied().filter(|h| *h <= self.scanned)
    }
}

/// The store `advance_migration` is driven against.
pub struct ScriptedStore<'a> {
    pub world: World,
    pub mem: MockBackend,
    pub sql: Option<&'a mut SqlEnv>,
    /// reads (`get_migration`) are served by SQLite when true, else by the memory store
    pub primary_sql: bool,
    pub writes: u64,
    /// injected failure of the next `replace_migration`
    pub fail_next_write: bool,
    /// the state most recently handed to `replace_migration` / `store_proved_transaction`
    pub last_written: Option<MigrationState>,
}

impl<'a> ScriptedStore<'a> {
    pub fn new(world: World, sql: Option<&'a mut SqlEnv>, primary_sql: bool) -> Self {
        ScriptedStore {
            world,
            mem: MockBackend::new(vec![], 0),
            primary_sql: primary_sql && sql.is_some(),
            sql,
            writes: 0,
            fail_next_write: false,
            last_written: None,
        }
    }
}

impl PoolMigrationRead for ScriptedStore<'_> {
    type Error = String;

    fn get_migration(&self) -> Result<Option<MigrationState>, String> {
        if self.primary_sql {
            self.sql.as_ref().unwrap().get()
        } else {
            Ok(self.mem.get_migration().unwrap())
        }
    }

    fn check_step_satisfiability(
        &self,
        tx: &MigrationTransaction,
        _settle: ReorgSettleDepth,
    ) -> Result<StepSatisfiability, String> {
        Ok(self.world.answer(tx))
    }

    fn mined_height(&self, txid: TxId) -> Result<Option<BlockHeight>, String> {
        Ok(self.world.mined_height(txid.as_ref()).map(BlockHeight::from_u32))
    }
}

impl PoolMigrationWrite for ScriptedStore<'_> {
    fn replace_migration(&mut self, state: &MigrationState) -> Result<(), String> {
        if self.fail_next_write {
            self.fail_next_write = false;
            return Err("injected write failure".into());
        }
        self.writes += 1;
        self.mem.replace_migration(state).unwrap();
        if let Some(sql) = self.sql.as_mut() {
            sql.replace(state)?;
        }
        self.last_written = Some(state.clone());
        Ok(())
    }

    fn update_transaction(&mut self, id: MigrationTransferId, state: MigrationTxState) -> Result<(), String> {
        self.mem.update_transaction(id, state).unwrap();
        if let Some(sql) = self.sql.as_mut() {
            sql.update_transaction(id, state)?;
        }
        Ok(())
    }

    fn store_proved_transaction(
        &mut self,
        state: &mut MigrationState,
        proven: ProvedTransaction,
    ) -> Result<(), String> {
        // The two real stores each implement this as "apply, then persist"; drive the primary
        // store's own implementation and mirror the result into the other one.
        self.writes += 1;
        if self.primary_sql {
            self.sql.as_mut().unwrap().store_proved(state, proven)?;
            self.mem.replace_migration(state).unwrap();
        } else {
            self.mem.store_proved_transaction(state, proven).unwrap();
            if let Some(sql) = self.sql.as_mut() {
                sql.replace(state)?;
            }
        }
        self.last_written = Some(state.clone());
        Ok(())
    }
}
