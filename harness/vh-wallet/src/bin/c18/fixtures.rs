//! Where migration states come from: real commits through `CommitMock`
//! (pre-signed PCZTs, the planner's own dependency DAGs and schedules), a
//! synthetic generator of internally consistent mid-flight states (richer
//! DAGs, short expiries, compressed schedules), and helpers the driver needs
//! to play the consumer (mock prover, rebuild, height translation).

use std::num::NonZeroU32;

use orchard::keys::FullViewingKey;
use orchard::note::Note;
use rand_chacha::ChaCha8Rng;
use rand_core::SeedableRng;
use vh_common::rand::Rng;
use vh_common::rand::seq::SliceRandom;
use vh_common::rand_chacha::ChaCha20Rng;
use zcash_pool_migration::build::AccountDerivation;
use zcash_pool_migration::denomination::DenominationPlan;
use zcash_pool_migration::engine::{
    MigrationBackend, MigrationCrypto, MigrationLockOwner, MigrationPlan, MigrationProver, MigrationState,
    MigrationStatus, MigrationTransaction, MigrationTransferId, MigrationTxKind, MigrationTxState,
    PoolMigrationRead, PoolMigrationWrite, ProveFailure, ProvedTransaction, commit_preparation_with_funding,
    plan_migration,
};
use zcash_pool_migration::preparation::PreparationPlan;
use zcash_pool_migration::satisfiability::{ReorgSettleDepth, ReplanThreshold, StepSatisfiability, UnsatisfiableKind};
use zcash_pool_migration::scheduling::{AnchorBucketInterval, SchedulingParams};
use zcash_pool_migration_memory::{CommitMock, TARGET_HEIGHT, account_derivation, regtest_network, spending_key};
use zcash_protocol::TxId;
use zcash_protocol::consensus::BlockHeight;
use zcash_protocol::value::{COIN, Zatoshis};

pub fn bh(h: u32) -> BlockHeight {
    BlockHeight::from_u32(h)
}
pub fn mid(i: u32) -> MigrationTransferId {
    MigrationTransferId::new(i)
}

pub fn interval_of(blocks: u32) -> AnchorBucketInterval {
    if blocks == 144 {
        AnchorBucketInterval::ZIP_318
    } else {
        AnchorBucketInterval::custom(NonZeroU32::new(blocks).unwrap())
    }
}

/// Everything needed to rebuild / re-prove transactions of a real commit.
pub struct RealCtx {
    pub seed: u64,
    pub fvk: FullViewingKey,
    pub funding: Vec<(MigrationTransferId, Note)>,
    pub sched: SchedulingParams,
}

pub struct Fixture {
    pub state: MigrationState,
    /// chain tip (and scanned height) the trace starts at
    pub base: u32,
    pub real: Option<std::rc::Rc<RealCtx>>,
    pub label: &'static str,
}

/// A real commit: plan + build + pre-sign through `CommitMock`.
pub fn real_commit(seed: u64, notes: &[u64], interval: u32) -> Result<(Fixture, MigrationPlan), String> {
    let sched = SchedulingParams::new_with_default_distributions(interval_of(interval));
    let mut backend = CommitMock::new(seed, notes).with_scheduling_params(sched);
    let mut rng = ChaCha8Rng::seed_from_u64(seed);
    let plan = plan_migration(&regtest_network(true), &backend, &mut rng).map_err(|e| format!("plan: {e:?}"))?;
    let (state, funding) = commit_preparation_with_funding(
        &regtest_network(true),
        bh(TARGET_HEIGHT),
        &mut backend,
        &spending_key(seed),
        &plan,
        &mut rng,
        ReplanThreshold::DEFAULT,
    )
    .map_err(|e| format!("commit: {e:?}"))?;
    let base = backend.chain_tip_height().unwrap();
    Ok((
        Fixture {
            state,
            base: u32::from(base),
            real: Some(std::rc::Rc::new(RealCtx {
                seed,
                fvk: backend.fvk.clone(),
                funding,
                sched,
            })),
            label: "real",
        },
        plan,
    ))
}

pub const REAL_SHAPES: [(&[u64], u32); 5] = [
    (&[78 * COIN], 144),
    (&[12 * COIN, 7 * COIN, 3 * COIN], 16),
    (&[100 * COIN, 100 * COIN, 100 * COIN, 100 * COIN, 100 * COIN], 8),
    (&[3 * COIN], 32),
    (&[400 * COIN], 144),
];

fn rand32(rng: &mut ChaCha20Rng) -> [u8; 32] {
    let mut b = [0u8; 32];
    rng.fill(&mut b);
    b
}

pub fn overdue_tolerance(interval: u32) -> u32 {
    let mean = (66u64 * interval as u64 / 144).max(1) as u32;
    (mean / 4).max(1)
}

pub fn rebuild_tx(t: &MigrationTransaction, f: impl FnOnce(&mut TxParts)) -> MigrationTransaction {
    let mut p = TxParts {
        kind: t.kind(),
        pczt: t.pczt().clone(),
        depends_on: t.depends_on().clone(),
        scheduled_height: t.scheduled_height(),
        expiry_height: t.expiry_height(),
        anchor_boundary: t.anchor_boundary(),
        txid: t.txid(),
        state: t.state(),
        lock_owner: t.lock_owner(),
        unsatisfiable: t.unsatisfiable(),
        spend_nullifiers: t.spend_nullifiers().clone(),
        broadcast_failure_at: t.broadcast_failure_at(),
    };
    f(&mut p);
    MigrationTransaction::from_parts(
        t.id(),
        p.kind,
        p.pczt,
        p.depends_on,
        p.scheduled_height,
        p.expiry_height,
        p.anchor_boundary,
        p.txid,
        p.state,
        p.lock_owner,
        p.unsatisfiable,
        p.spend_nullifiers,
        p.broadcast_failure_at,
    )
}

pub struct TxParts {
    pub kind: MigrationTxKind,
    pub pczt: Vec<u8>,
    pub depends_on: Vec<MigrationTransferId>,
    pub scheduled_height: BlockHeight,
    pub expiry_height: BlockHeight,
    pub anchor_boundary: Option<BlockHeight>,
    pub txid: TxId,
    pub state: MigrationTxState,
    pub lock_owner: Option<MigrationLockOwner>,
    pub unsatisfiable: Option<(BlockHeight, UnsatisfiableKind)>,
    pub spend_nullifiers: Vec<[u8; 32]>,
    pub broadcast_failure_at: Option<BlockHeight>,
}

pub fn with_txs(s: &MigrationState, status: MigrationStatus, txs: Vec<MigrationTransaction>) -> MigrationState {
    MigrationState::from_parts(
        status,
        s.denominations().clone(),
        s.preparation().clone(),
        txs,
        s.anchor_bucket_interval(),
        s.replan_threshold(),
    )
}

pub fn map_tx(s: &MigrationState, id: u32, f: impl FnOnce(&mut TxParts)) -> MigrationState {
    let mut f = Some(f);
    let txs = s
        .transactions()
        .iter()
        .map(|t| {
            if u32::from(t.id()) == id {
                rebuild_tx(t, f.take().unwrap())
            } else {
                t.clone()
            }
        })
        .collect();
    with_txs(s, s.status(), txs)
}

pub fn with_status(s: &MigrationState, status: MigrationStatus) -> MigrationState {
    with_txs(s, status, s.transactions().clone())
}

/// Shifts the chain-derived heights (mined heights, mark stamps, report tips) by `delta`:
/// exactly the heights `truncate_to_height` compares against. `None` if one leaves u32.
pub fn shift_chain_heights(s: &MigrationState, delta: i64) -> Option<MigrationState> {
    let sh = |h: BlockHeight| -> Option<BlockHeight> {
        let v = i64::from(u32::from(h)) + delta;
        (0..=i64::from(u32::MAX)).contains(&v).then(|| bh(v as u32))
    };
    let mut txs = vec![];
    for t in s.transactions() {
        let state = match t.state() {
            MigrationTxState::Mined { txid, height } => MigrationTxState::Mined {
                txid,
                height: sh(height)?,
            },
            o => o,
        };
        let mark = match t.unsatisfiable() {
            Some((h, k)) => Some((sh(h)?, k)),
            None => None,
        };
        let rep = match t.broadcast_failure_at() {
            Some(h) => Some(sh(h)?),
            None => None,
        };
        txs.push(rebuild_tx(t, |p| {
            p.state = state;
            p.unsatisfiable = mark;
            p.broadcast_failure_at = rep;
        }));
    }
    Some(with_txs(s, s.status(), txs))
}

pub struct SynthParams {
    pub interval: u32,
}

/// An internally consistent synthetic migration at an arbitrary point of its life.
pub fn synthetic(rng: &mut ChaCha20Rng, prep_plan: PreparationPlan) -> Fixture {
    let interval = *[4u32, 8, 16, 32, 144].choose(rng).unwrap();
    let mean = (66 * interval / 144).max(2);
    let base: u32 = match rng.gen_range(0..4) {
        0 => rng.gen_range(200..5_000),
        1 => rng.gen_range(100_000..120_000),
        _ => rng.gen_range(1_000_000..3_000_000),
    };
    let n_layers = rng.gen_range(0..=3usize);
    let mut kinds: Vec<(MigrationTxKind, Vec<u32>)> = vec![];
    let mut layer_ids: Vec<Vec<u32>> = vec![];
    for layer in 0..n_layers {
        let n = rng.gen_range(1..=2usize);
        let mut ids = vec![];
        for index in 0..n {
            let id = kinds.len() as u32;
            let deps = if layer == 0 {
                vec![]
            } else {
                let prev = &layer_ids[layer - 1];
                let k = rng.gen_range(1..=prev.len().min(2));
                let mut d: Vec<u32> = prev.choose_multiple(rng, k).copied().collect();
                d.sort();
                d
            };
            kinds.push((MigrationTxKind::Preparation { layer, index }, deps));
            ids.push(id);
        }
        layer_ids.push(ids);
    }
    let preps: Vec<u32> = (0..kinds.len() as u32).collect();
    let n_transfers = rng.gen_range(1..=7usize);
    for crossing in 0..n_transfers {
        let deps = if preps.is_empty() {
            vec![]
        } else {
            match rng.gen_range(0..20) {
                0..=10 => vec![*preps.choose(rng).unwrap()],
                11..=13 => vec![],
                _ => {
                    let k = preps.len().min(rng.gen_range(2..=3));
                    let mut d: Vec<u32> = preps.choose_multiple(rng, k).copied().collect();
                    d.sort();
                    d
                }
            }
        };
        kinds.push((MigrationTxKind::Transfer { crossing }, deps));
    }
    let n = kinds.len();

    // schedule
    let expiry_mode = rng.gen_range(0..10);
    let mut sched = vec![0u32; n];
    let mut cursor = base + rng.gen_range(0..=3);
    for (i, (k, deps)) in kinds.iter().enumerate() {
        match k {
            MigrationTxKind::Preparation { .. } => {
                let floor = deps.iter().map(|d| sched[*d as usize] + 1).max().unwrap_or(cursor);
                sched[i] = floor.max(cursor) + rng.gen_range(0..=(mean / 2).max(2));
            }
            MigrationTxKind::Transfer { .. } => {
                cursor += rng.gen_range(0..=2 * mean);
                let floor = deps.iter().map(|d| sched[*d as usize] + 1).max().unwrap_or(0);
                sched[i] = cursor.max(floor);
            }
        }
    }
    // a state "in the middle": some schedules already lie in the past
    let back = if rng.gen_bool(0.5) { rng.gen_range(0..=3 * mean) } else { 0 };
    let max_sched = *sched.iter().max().unwrap();
    let shared_expiry = max_sched.saturating_sub(back) + rng.gen_range(3..60);

    let external_signer = rng.gen_bool(0.12);
    let arbitrary = rng.gen_bool(0.15);
    let progress: f64 = rng.gen_range(0.0..1.0);
    let mut txs: Vec<MigrationTransaction> = vec![];
    let mut ranks: Vec<u8> = vec![];
    for (i, (kind, deps)) in kinds.iter().enumerate() {
        let s = sched[i].saturating_sub(back).max(1);
        let expiry = match expiry_mode {
            0 => 0,
            1 | 2 => shared_expiry.max(s + 1),
            3 => s + rng.gen_range(30_000..70_000),
            4 => s + rng.gen_range(0..=2),
            _ => s + rng.gen_range(1..40),
        };
        let boundary = match kind {
            MigrationTxKind::Transfer { .. } => {
                let below = s.saturating_sub(rng.gen_range(0..=3 * interval));
                Some(bh(below - below % interval))
            }
            _ => None,
        };
        let txid = TxId::from_bytes(rand32(rng));
        let deps_mined = deps.iter().all(|d| ranks[*d as usize] == 4);
        let rank: u8 = if arbitrary {
            rng.gen_range(0..=4)
        } else if deps_mined && rng.gen_bool(progress) {
            *[2u8, 2, 3, 4, 4, 4].choose(rng).unwrap()
        } else if external_signer && rng.gen_bool(0.6) {
            0
        } else {
            1
        };
        ranks.push(rank);
        let state = match rank {
            0 => MigrationTxState::AwaitingSignature,
            1 => MigrationTxState::Signed,
            2 => MigrationTxState::Proved,
            3 => MigrationTxState::Broadcast { txid },
            _ => MigrationTxState::Mined {
                txid,
                height: bh(base.saturating_sub(rng.gen_range(0..25)).max(1)),
            },
        };
        let lock_owner = (rank >= 2 && rng.gen_bool(0.5)).then(|| MigrationLockOwner::from_bytes(rand32(rng)));
        let pczt_len = rng.gen_range(1..40);
        let pczt: Vec<u8> = (0..pczt_len).map(|_| rng.r#gen()).collect();
        let nfs: Vec<[u8; 32]> = (0..rng.gen_range(1..=2)).map(|_| rand32(rng)).collect();
        txs.push(MigrationTransaction::from_parts(
            mid(i as u32),
            *kind,
            pczt,
            deps.iter().map(|d| mid(*d)).collect(),
            bh(s),
            bh(expiry),
            boundary,
            txid,
            state,
            lock_owner,
            None,
            nfs,
            None,
        ));
    }
    // the shape a reorg leaves behind: a proved transaction one of whose several dependencies
    // is back in flight
    if !arbitrary && rng.gen_bool(0.15) {
        let cands: Vec<usize> = (0..n)
            .filter(|i| ranks[*i] == 2 && kinds[*i].1.len() >= 2 && kinds[*i].1.iter().all(|d| ranks[*d as usize] == 4))
            .collect();
        if let Some(i) = cands.choose(rng) {
            let d = *kinds[*i].1.choose(rng).unwrap() as usize;
            // only if nothing else already built on that dependency being mined
            let others = (0..n).any(|j| j != *i && ranks[j] >= 2 && kinds[j].1.contains(&(d as u32)));
            if !others {
                ranks[d] = 3;
                let txid = txs[d].txid();
                txs[d] = rebuild_tx(&txs[d], |p| p.state = MigrationTxState::Broadcast { txid });
            }
        }
    }
    // marks and reports (respecting: a report only on a Proved row, no mark on a mined row)
    if rng.gen_bool(0.12) {
        let unmined: Vec<usize> = (0..n).filter(|i| ranks[*i] != 4).collect();
        if let Some(i) = unmined.choose(rng) {
            let kind = *[
                UnsatisfiableKind::InputsSpent,
                UnsatisfiableKind::InputsInvalidated,
                UnsatisfiableKind::AnchorInvalidated,
                UnsatisfiableKind::Inherited,
            ]
            .choose(rng)
            .unwrap();
            let at = bh(base.saturating_sub(rng.gen_range(0..12)));
            txs[*i] = rebuild_tx(&txs[*i], |p| p.unsatisfiable = Some((at, kind)));
        }
    }
    if rng.gen_bool(0.10) {
        let proved: Vec<usize> = (0..n).filter(|i| ranks[*i] == 2).collect();
        if let Some(i) = proved.choose(rng) {
            let at = bh(base + rng.gen_range(0..6));
            txs[*i] = rebuild_tx(&txs[*i], |p| p.broadcast_failure_at = Some(at));
        }
    }
    let mut status = if ranks.iter().all(|r| *r == 4) {
        MigrationStatus::Complete
    } else if ranks.iter().any(|r| *r >= 3) {
        MigrationStatus::InProgress
    } else {
        MigrationStatus::Committed
    };
    if status != MigrationStatus::Complete && rng.gen_bool(0.07) {
        status = *[
            MigrationStatus::Failed,
            MigrationStatus::Cancelled,
            MigrationStatus::Superseded,
        ]
        .choose(rng)
        .unwrap();
    }
    // denominations: one crossing value per transfer
    let denoms = [1u64, 2, 5];
    let crossing: Vec<Zatoshis> = (0..n_transfers)
        .map(|_| {
            let v = denoms.choose(rng).unwrap() * 10u64.pow(rng.gen_range(4..9));
            Zatoshis::from_u64(v).unwrap()
        })
        .collect();
    let total: u64 = crossing.iter().map(|z| z.into_u64()).sum();
    let denominations = DenominationPlan::from_stored_parts(
        crossing,
        Zatoshis::const_from_u64(10_000),
        rng.gen_bool(0.5).then(|| Zatoshis::const_from_u64(rng.gen_range(1..100_000))),
        Zatoshis::const_from_u64(rng.gen_range(0..100_000)),
        Zatoshis::from_u64(total + 200_000).unwrap(),
        Zatoshis::from_u64(total).unwrap(),
    )
    .unwrap();
    let threshold = ReplanThreshold::new(*[0u8, 20, 20, 20, 50, 100].choose(rng).unwrap()).unwrap();
    let state = MigrationState::from_parts(
        status,
        denominations,
        prep_plan,
        txs,
        interval_of(interval),
        threshold,
    );
    Fixture {
        state,
        base,
        real: None,
        label: if arbitrary { "synthetic-arbitrary" } else { "synthetic" },
    }
}

/// The consumer's rebuild of an expired transfer when no real PCZTs exist (synthetic states):
/// the same row update `rebuild_expired_transfer` performs — a new transaction (new txid, bytes),
/// a schedule chained onto the pending one, fresh expiry and boundary, back to `Signed`.
pub fn emulate_rebuild(s: &MigrationState, id: u32, scanned_target: u32, rng: &mut ChaCha20Rng) -> MigrationState {
    let interval = s.anchor_bucket_interval().block_count().get();
    let mean = (66 * interval / 144).max(2);
    let chain_base = s
        .transactions()
        .iter()
        .filter(|t| {
            matches!(t.kind(), MigrationTxKind::Transfer { .. })
                && !matches!(t.state(), MigrationTxState::Mined { .. })
                && t.unsatisfiable_at().is_none()
        })
        .map(|t| u32::from(t.scheduled_height()))
        .max()
        .unwrap_or(scanned_target)
        .max(scanned_target);
    let sched = chain_base + rng.gen_range(1..=2 * mean);
    let expiry = sched + rng.gen_range(2..40);
    let below = sched.saturating_sub(interval + rng.gen_range(0..=2 * interval));
    let external = rng.gen_bool(0.1);
    let txid = TxId::from_bytes(rand32(rng));
    let pczt: Vec<u8> = (0..rng.gen_range(1..40)).map(|_| rng.r#gen()).collect();
    map_tx(s, id, |p| {
        p.pczt = pczt;
        p.scheduled_height = bh(sched);
        p.expiry_height = bh(expiry);
        p.anchor_boundary = Some(bh(below - below % interval));
        p.txid = txid;
        p.state = if external {
            MigrationTxState::AwaitingSignature
        } else {
            MigrationTxState::Signed
        };
    })
}

/// A prover that performs no cryptography: the "proof" is the stored PCZT itself.
pub struct MockProver {
    pub interval: AnchorBucketInterval,
    pub fail: Option<([u8; 32], BlockHeight)>,
    pub lock: Option<MigrationLockOwner>,
}

impl MigrationProver for MockProver {
    type Error = String;
    fn prove_transfer(&mut self, pczt: pczt::Pczt, _b: BlockHeight) -> Result<pczt::Pczt, ProveFailure<String>> {
        match self.fail {
            Some((nullifier, as_of)) => Err(ProveFailure::InputNotAvailable { nullifier, as_of }),
            None => Ok(pczt),
        }
    }
    fn prove_preparation(&mut self, pczt: pczt::Pczt, _a: BlockHeight) -> Result<pczt::Pczt, ProveFailure<String>> {
        match self.fail {
            Some((nullifier, as_of)) => Err(ProveFailure::InputNotAvailable { nullifier, as_of }),
            None => Ok(pczt),
        }
    }
    fn anchor_bucket_interval(&self) -> AnchorBucketInterval {
        self.interval
    }
    fn lock_spent_notes(&mut self, _p: &pczt::Pczt, _h: BlockHeight) -> Result<Option<MigrationLockOwner>, String> {
        Ok(self.lock)
    }
}

/// The wallet a real rebuild reads: the funding notes are spendable, the tip is the scanned tip.
pub struct RebuildBackend<'a> {
    pub ctx: &'a RealCtx,
    pub tip: u32,
    pub derivation: Option<AccountDerivation>,
}

impl<'a> RebuildBackend<'a> {
    pub fn new(ctx: &'a RealCtx, tip: u32) -> Self {
        RebuildBackend {
            ctx,
            tip,
            derivation: Some(account_derivation(ctx.seed)),
        }
    }
}

impl MigrationBackend for RebuildBackend<'_> {
    type Error = String;
    fn spendable_orchard_note_values(&self) -> Result<Vec<Zatoshis>, String> {
        Ok(self
            .ctx
            .funding
            .iter()
            .map(|(_, n)| Zatoshis::from_u64(n.value().inner()).unwrap())
            .collect())
    }
    fn chain_tip_height(&self) -> Result<BlockHeight, String> {
        Ok(bh(self.tip))
    }
    fn scheduling_params(&self) -> SchedulingParams {
        self.ctx.sched
    }
}

impl MigrationCrypto for RebuildBackend<'_> {
    type Error = String;
    fn orchard_fvk(&self) -> Option<&FullViewingKey> {
        Some(&self.ctx.fvk)
    }
    fn account_derivation(&self) -> Result<Option<AccountDerivation>, String> {
        Ok(self.derivation.clone())
    }
    fn resolve_wallet_note(&self, index: usize) -> Result<Note, String> {
        Ok(self.ctx.funding[index].1)
    }
}

/// A backend for probing the COMMIT GUARD of `commit_preparation` against a real store: reads go
/// to the store under test; there is no Orchard key, so a commit that gets PAST the guard stops
/// with `NoOrchardViewingKey` before any signing work.
pub struct GuardProbe<'a, S> {
    pub store: &'a S,
    pub wrote: bool,
}

impl<S: PoolMigrationRead> MigrationBackend for GuardProbe<'_, S>
where
    S::Error: std::fmt::Debug,
{
    type Error = String;
    fn spendable_orchard_note_values(&self) -> Result<Vec<Zatoshis>, String> {
        Ok(vec![])
    }
    fn chain_tip_height(&self) -> Result<BlockHeight, String> {
        Ok(bh(2_000_000))
    }
    fn scheduling_params(&self) -> SchedulingParams {
        SchedulingParams::ZIP_318
    }
}

impl<S: PoolMigrationRead> MigrationCrypto for GuardProbe<'_, S>
where
    S::Error: std::fmt::Debug,
{
    type Error = String;
    fn orchard_fvk(&self) -> Option<&FullViewingKey> {
        None
    }
    fn account_derivation(&self) -> Result<Option<AccountDerivation>, String> {
        Ok(None)
    }
    fn resolve_wallet_note(&self, _index: usize) -> Result<Note, String> {
        Err("no notes".into())
    }
}

impl<S: PoolMigrationRead> PoolMigrationRead for GuardProbe<'_, S>
where
    S::Error: std::fmt::Debug,
{
    type Error = String;
    fn get_migration(&self) -> Result<Option<MigrationState>, String> {
        self.store.get_migration().map_err(|e| format!("{e:?}"))
    }
    fn check_step_satisfiability(&self, _tx: &MigrationTransaction, _s: ReorgSettleDepth) -> Result<StepSatisfiability, String> {
        Err("not used".into())
    }
    fn mined_height(&self, _txid: TxId) -> Result<Option<BlockHeight>, String> {
        Ok(None)
    }
}

impl<S: PoolMigrationRead> PoolMigrationWrite for GuardProbe<'_, S>
where
    S::Error: std::fmt::Debug,
{
    fn replace_migration(&mut self, _state: &MigrationState) -> Result<(), String> {
        self.wrote = true;
        Ok(())
    }
    fn update_transaction(&mut self, _id: MigrationTransferId, _state: MigrationTxState) -> Result<(), String> {
        Ok(())
    }
    fn store_proved_transaction(&mut self, _state: &mut MigrationState, _p: ProvedTransaction) -> Result<(), String> {
        Ok(())
    }
}
