//! C08 — transaction proposals spend only spendable funds, each once, and balance exactly.
//!
//! One history = a fabricated chain (`ChainSim`: 2 accounts, Sapling / Orchard / Ironwood notes) plus
//! transparent coins, driven through a random interleaving of receive / on-chain spend / partial
//! scans / rewinds / lock operations / tip advances and proposal creation through the public API.
//! A reference model (ground truth of the sim + the harness's own log of lock and pending-transaction
//! operations) judges every input of every step of every returned proposal.

mod check;
mod model;
mod req;
mod world;

use std::collections::BTreeSet;

use rand::seq::SliceRandom;
use rand::Rng;
use vh_common::{guard, json, panic_class, Args, Reporter};
use vh_wallet::sim::{Pool, POOLS};
use zcash_client_backend::data_api::locking::unlock_proposal_inputs;
use zcash_client_backend::data_api::OutputLockStore;
use zcash_client_backend::wallet::OutputRef;
use zcash_primitives::transaction::TxId;
use zcash_protocol::consensus::BlockHeight;
use zcash_protocol::PoolType;

use check::{apply_lock_request, check_proposal, constructor_guards, create, viol, Provers};
use model::{lock_active, pending_unexpired, spool_of, InKey, Inel, LockM, View};
use req::{choose_amounts, err_class, funds, invoke, owner, random_req, Kind, NoteProposal, Out, Req, ShieldProposal, N_OWNERS};
use world::{Cfg, World};

pub const ALL_POOLS: [Pool; 3] = POOLS;

enum Held {
    Notes(Req, NoteProposal, Vec<Vec<InKey>>),
    Shield(Req, ShieldProposal, Vec<Vec<InKey>>),
}

struct Driver {
    provers: Provers,
    held: Option<Held>,
    real_budget: u32,
    /// how many creations needing Orchard-family proofs this shard may still run for real
    halo2_budget: u32,
    create_spent_ms: u64,
}

fn out_ref(k: &InKey) -> OutputRef {
    match k {
        InKey::Note(n) => OutputRef::new(TxId::from_bytes(n.txid), PoolType::Shielded(spool_of(n.pool)), n.out_idx),
        InKey::Coin(t, i) => OutputRef::new(TxId::from_bytes(*t), PoolType::TRANSPARENT, *i),
    }
}

/// Every output the wallet holds a row for, per the model: notes of scanned blocks and coins.
fn lockable(wd: &World, v: &View) -> Vec<(InKey, usize)> {
    // ordered by chain position / value, not by txid: transactions the wallet builds get random
    // txids, and the course of a history must not depend on them
    let mut ns: Vec<_> = v.notes.values().filter(|n| !n.spent_mined).collect();
    ns.sort_by_key(|n| (n.key.pool, n.position));
    let mut x: Vec<(InKey, usize)> = ns.into_iter().map(|n| (InKey::Note(n.key), n.account)).collect();
    let mut cs: Vec<_> = v.coins.values().filter(|c| !c.from_wallet_tx && !c.spent_mined).collect();
    cs.sort_by_key(|c| (c.account, c.value, c.mined, c.key.1));
    x.extend(cs.into_iter().map(|c| (InKey::Coin(c.key.0, c.key.1), c.account)));
    let _ = wd;
    x
}

/// Direct lock operations: lock_outputs / unlock_output / clear_locked_outputs / unlock_proposal_inputs.
fn lock_op(wd: &mut World, r: &mut Reporter, d: &mut Driver) {
    let Some(target) = wd.target() else { return };
    let v = wd.m.view(&wd.sim, &wd.w, target);
    let cands = lockable(wd, &v);
    match wd.rng.gen_range(0..10) {
        0..=5 => {
            if cands.is_empty() {
                return;
            }
            let k = wd.rng.gen_range(1..=3.min(cands.len()));
            let mut c = cands.clone();
            c.shuffle(&mut wd.rng);
            // prefer non-dust outputs of one account
            c.sort_by_key(|(_, a)| *a);
            if wd.rng.gen_bool(0.5) {
                c.reverse();
            }
            let start = wd.rng.gen_range(0..=c.len() - k);
            let chosen: Vec<InKey> = c[start..start + k].iter().map(|x| x.0).collect();
            let o = wd.rng.gen_range(0..N_OWNERS);
            let delta: i64 = *[-3i64, -1, 0, 0, 1, 2, 4, 10, 60].choose(&mut wd.rng).unwrap();
            let expiry = (target as i64 + delta).max(1) as u32;
            let refs: Vec<OutputRef> = chosen.iter().map(out_ref).collect();
            // documented rule: fails iff some output holds a lock of another owner that is unexpired at the tip
            let predicted_ok = chosen.iter().all(|k| match wd.m.locks.get(k) {
                Some(l) => l.owner == o || l.expiry < target,
                None => true,
            });
            let res = wd.w.db.lock_outputs(&refs, owner(o), BlockHeight::from_u32(expiry));
            wd.log(json!({"op":"lock_outputs","owner":o,"expiry":expiry,"outputs":chosen.iter().map(|k| k.short()).collect::<Vec<_>>(),"ok":res.is_ok()}));
            r.count(if res.is_ok() { "lock_outputs_ok" } else { "lock_outputs_refused" }, 1);
            if res.is_ok() != predicted_ok {
                r.count("diag_lock_outputs_outcome_differs_from_documented_rule", 1);
                r.note(format!("lock_outputs outcome {:?} but documented rule predicts ok={predicted_ok}", res.as_ref().map_err(|e| format!("{e:?}"))));
            }
            if res.is_ok() {
                for k in chosen {
                    wd.m.locks.insert(k, LockM { owner: o, expiry, by_proposal: false });
                }
            }
        }
        6..=7 => {
            // unlock one locked output, with the right or a wrong owner
            let mut locked: Vec<(InKey, LockM)> = wd.m.locks.iter().map(|(k, l)| (*k, *l)).collect();
            locked.sort_by_key(|(k, l)| {
                let pos = match k {
                    InKey::Note(n) => v.notes.get(n).map(|x| (x.key.pool.idx() as u64, x.position)),
                    InKey::Coin(t, i) => v.coins.get(&(*t, *i)).map(|c| (9, c.value)),
                };
                (l.expiry, l.owner, pos)
            });
            let Some((k, l)) = locked.choose(&mut wd.rng).copied() else { return };
            let o = if wd.rng.gen_bool(0.6) { l.owner } else { wd.rng.gen_range(0..N_OWNERS) };
            let res = wd.w.db.unlock_output(&out_ref(&k), owner(o));
            wd.log(json!({"op":"unlock_output","owner":o,"output":k.short(),"res":format!("{res:?}")}));
            r.count("unlock_output_calls", 1);
            let expect = o == l.owner;
            if let Ok(b) = res {
                if b != expect {
                    r.count("diag_unlock_output_outcome_differs_from_documented_rule", 1);
                }
                if expect {
                    wd.m.locks.remove(&k);
                }
            }
        }
        8 => {
            let a = wd.rng.gen_range(0..2);
            let res = wd.w.db.clear_locked_outputs(wd.w.accounts[a]);
            wd.log(json!({"op":"clear_locked_outputs","account":a,"res":format!("{res:?}")}));
            r.count("clear_locked_outputs_calls", 1);
            if res.is_ok() {
                let owned: BTreeSet<InKey> = wd
                    .m
                    .locks
                    .keys()
                    .filter(|k| match k {
                        InKey::Note(n) => wd.sim.all_blocks.values().any(|b| b.txs.iter().any(|t| t.received.iter().any(|x| x.key == *n && x.account == a))),
                        InKey::Coin(t, i) => wd.m.coins.get(&(*t, *i)).map_or(false, |c| c.account == a),
                    })
                    .copied()
                    .collect();
                for k in owned {
                    wd.m.locks.remove(&k);
                }
            }
        }
        _ => {
            // abandon a held proposal: release its locks under its owner
            let Some(h) = d.held.take() else { return };
            let (q, inputs) = match &h {
                Held::Notes(q, _, i) => (q.clone(), i.clone()),
                Held::Shield(q, _, i) => (q.clone(), i.clone()),
            };
            let Some((o, _)) = q.lock_req else { return };
            let res = match &h {
                Held::Notes(_, p, _) => unlock_proposal_inputs(&mut wd.w.db, p, owner(o)).map_err(|e| format!("{e:?}")),
                Held::Shield(_, p, _) => unlock_proposal_inputs(&mut wd.w.db, p, owner(o)).map_err(|e| format!("{e:?}")),
            };
            wd.log(json!({"op":"unlock_proposal_inputs","owner":o,"ok":res.is_ok()}));
            r.count("unlock_proposal_inputs_calls", 1);
            if res.is_ok() {
                for k in inputs.iter().flatten() {
                    if wd.m.locks.get(k).map_or(false, |l| l.owner == o) {
                        wd.m.locks.remove(k);
                    }
                }
            }
        }
    }
    // the wallet's own report of locked outputs vs the lock log (diagnostic: the statement speaks
    // about proposals, not about this accessor)
    if let Some(target) = wd.target() {
        for a in 0..2 {
            if let Ok(got) = wd.w.db.get_locked_outputs(wd.w.accounts[a]) {
                let got: BTreeSet<String> = got.iter().map(|o| format!("{:?}", o)).collect();
                let v = wd.m.view(&wd.sim, &wd.w, target);
                let mut want: BTreeSet<String> = BTreeSet::new();
                for (k, l) in &wd.m.locks {
                    if l.expiry < target {
                        continue;
                    }
                    let acct = match k {
                        InKey::Note(n) => v.notes.get(n).map(|x| x.account),
                        InKey::Coin(t, i) => v.coins.get(&(*t, *i)).map(|c| c.account),
                    };
                    if acct == Some(a) {
                        want.insert(format!("{:?}", out_ref(k)));
                    }
                }
                r.count("get_locked_outputs_comparisons", 1);
                // notes of unscanned / orphaned blocks may legitimately still carry a lock row
                if !want.is_subset(&got) {
                    r.count("diag_locked_per_log_but_not_reported_locked", 1);
                }
            }
        }
    }
}

fn kinds_present(v: &View, q: &Req) -> BTreeSet<Inel> {
    let admitted = q.admitted();
    let mut s = BTreeSet::new();
    for n in v.notes.values() {
        if n.value <= 5000 {
            continue;
        }
        if let Some(k) = v.note_inel(n, q.account, &q.pol, &admitted, q.req_owner()) {
            s.insert(k);
        }
    }
    for c in v.coins.values() {
        if c.value <= 5000 {
            continue;
        }
        if let Some(k) = v.coin_inel(c, q.account, &q.pol, &admitted, q.req_owner()) {
            s.insert(k);
        }
    }
    s
}

/// One proposal: generate, invoke, judge, update the model, maybe turn it into a pending transaction.
fn proposal_op(wd: &mut World, r: &mut Reporter, d: &mut Driver) {
    let Some(target) = wd.target() else { return };
    let mut q = random_req(wd);
    let t_v = std::time::Instant::now();
    let v = wd.m.view(&wd.sim, &wd.w, target);
    r.count("us_view", t_v.elapsed().as_micros() as u64);
    let f = funds(&v, &q);
    choose_amounts(wd, &mut q, &f);
    let present = kinds_present(&v, &q);
    if q.uses_notes()
        && v.notes.values().any(|n| {
            n.account == q.account
                && n.shield_src.is_some()
                && !n.spent_mined
                && !n.spent_pending
                && !v.note_confirmed(n, &q.pol)
                && v.target.saturating_sub(n.height) >= q.pol.trusted
        })
    {
        // an output of a wallet shielding transaction that is deep enough by itself but whose
        // shielded coins are not yet `untrusted` deep
        r.count("proposals_with_shielding_output_shallow_only_by_its_coins", 1);
    }
    let t_inv = std::time::Instant::now();
    let out = invoke(wd, &q);
    r.count("ms_invoke", t_inv.elapsed().as_millis() as u64);
    let kind = q.kind.name();
    let request_value = match q.kind {
        Kind::Standard | Kind::Transfer => q.total(),
        Kind::Shielding => q.threshold,
        Kind::SendMax => 0,
    };
    let nontrivial = f.ineligible.iter().any(|(_, val)| *val > 5000 && *val >= request_value);
    for k in &present {
        r.count(&format!("proposals_with_ineligible_present:{}", k.name()), 1);
    }
    if !v.fully_scanned {
        r.count("proposals_with_unscanned_blocks_below_tip", 1);
    }
    let exceeds = match q.kind {
        Kind::Standard | Kind::Transfer => q.total() > f.upper,
        Kind::Shielding => q.threshold > f.upper,
        Kind::SendMax => false,
    };
    let outcome: String;
    match out {
        Out::Panic(p) => {
            outcome = "panic".into();
            viol(wd, r, Some(&q), &format!("C08:{kind}:panic:{}", panic_class(&p)), p);
        }
        Out::Err(e) => {
            let c = err_class(&e);
            outcome = format!("err:{c}");
            r.count(&format!("refused:{kind}:{c}"), 1);
            r.count("proposals_refused", 1);
            if exceeds {
                r.count("request_above_upper_bound_refused", 1);
            }
            wd.log(json!({"op":"propose","req":q.to_json(),"target":target,"err":e.chars().take(140).collect::<String>()}));
        }
        Out::Notes(p) => {
            outcome = "ok".into();
            r.count(&format!("proposals_returned:{kind}"), 1);
            r.count("proposals_returned", 1);
            let upper = f.upper;
            let ck = check_proposal(wd, r, &q, &v, upper, &p);
            constructor_guards(wd, r, &q, &p);
            wd.log(json!({"op":"propose","req":q.to_json(),"target":target,"steps":ck.inputs.iter().map(|s| s.iter().map(|k| k.short()).collect::<Vec<_>>()).collect::<Vec<_>>()}));
            if q.lock_req.is_some() {
                r.count("proposals_returned_with_lock_request", 1);
            }
            apply_lock_request(wd, &q, target, &ck.inputs);
            if u32::from(p.confirmations_policy().trusted()) != q.pol.trusted {
                // propose_transfer switched to a bucketed (ZIP 318 canonical crossing) anchor
                r.count("proposals_on_bucketed_anchor", 1);
            }
            sendmax_tightness(wd, r, &q, &v, &p, &ck.inputs);
            after_ok(wd, r, d, q.clone(), Held::Notes(q.clone(), p, ck.inputs), ck.violated);
        }
        Out::Shield(p) => {
            outcome = "ok".into();
            r.count(&format!("proposals_returned:{kind}"), 1);
            r.count("proposals_returned", 1);
            let upper = f.upper;
            let ck = check_proposal(wd, r, &q, &v, upper, &p);
            wd.log(json!({"op":"propose","req":q.to_json(),"target":target,"steps":ck.inputs.iter().map(|s| s.iter().map(|k| k.short()).collect::<Vec<_>>()).collect::<Vec<_>>()}));
            if q.lock_req.is_some() {
                r.count("proposals_returned_with_lock_request", 1);
            }
            apply_lock_request(wd, &q, target, &ck.inputs);
            shielding_tightness(r, &q, &v, &ck.inputs);
            after_ok(wd, r, d, q.clone(), Held::Shield(q.clone(), p, ck.inputs), ck.violated);
        }
    }
    if nontrivial {
        r.count("nontrivial_proposals", 1);
    }
    let sig = (
        q.kind,
        (q.pol.trusted, q.pol.untrusted, q.pol.zero_conf_shielding),
        q.lp_variant,
        q.lock_req.is_some(),
        present.iter().copied().collect::<Vec<_>>(),
        !v.fully_scanned,
        (q.transparent, q.multi_change, q.everything, q.amount_class),
        outcome.clone(),
    );
    r.case(&sig, nontrivial);
    let class = format!("{kind} {} lockpol={} ineligible={:?}", if outcome == "ok" { "ok" } else { "refused" }, q.lp_variant, present.iter().map(|k| k.name()).collect::<Vec<_>>());
    r.sample(&class, json!({"id": {"shard": r.args().shard, "hist": wd.id}, "request": q.to_json(), "target": target, "outcome": outcome,
        "model_eligible_value": f.eligible, "model_upper_bound": f.upper, "ineligible": f.ineligible.iter().take(8).map(|(k, v)| json!([k.name(), v])).collect::<Vec<_>>() }));
}

/// Diagnostic (never a verdict): with MaxSpendable the wallet should pick exactly what the model
/// calls eligible (minus dust / notes above the anchor). A systematic gap means the model is looser
/// than the code and a boundary mutant could hide in the gap.
fn sendmax_tightness(wd: &World, r: &mut Reporter, q: &Req, v: &View, p: &NoteProposal, inputs: &[Vec<InKey>]) {
    if q.kind != Kind::SendMax || q.everything {
        return;
    }
    let anchor = p.steps().first().anchor_height().map(u32::from).unwrap_or(0);
    let admitted = q.admitted();
    let sel: BTreeSet<InKey> = inputs.iter().flatten().copied().collect();
    let mut missing = 0;
    for n in v.notes.values() {
        if !q.pools.contains(&n.key.pool) || n.value <= 5000 || n.height > anchor || n.spent_orphan {
            continue;
        }
        if v.note_inel(n, q.account, &q.pol, &admitted, q.req_owner()).is_none() && !sel.contains(&InKey::Note(n.key)) {
            missing += 1;
            if std::env::var("VH_DEBUG").is_ok() {
                eprintln!("TIGHTNESS send_max: model-eligible note not selected: {:?} target {} anchor {anchor} pol {:?}", n, v.target, q.pol);
            }
        }
    }
    let _ = wd;
    r.count("diag_sendmax_compared", 1);
    if missing == 0 {
        r.count("diag_sendmax_selection_equals_model", 1);
    } else {
        r.count("diag_sendmax_model_eligible_not_selected", missing);
    }
}

fn shielding_tightness(r: &mut Reporter, q: &Req, v: &View, inputs: &[Vec<InKey>]) {
    let admitted = q.admitted();
    let sel: BTreeSet<InKey> = inputs.iter().flatten().copied().collect();
    let mut missing = 0;
    for c in v.coins.values() {
        if !q.from_addrs.contains(&c.addr) || c.value <= 5000 || c.mined.map_or(true, |h| h >= v.target) || c.from_wallet_tx {
            continue;
        }
        if v.coin_inel(c, q.account, &q.pol, &admitted, q.req_owner()).is_none() && !sel.contains(&InKey::Coin(c.key.0, c.key.1)) {
            missing += 1;
            if std::env::var("VH_DEBUG").is_ok() {
                eprintln!("TIGHTNESS shielding: model-eligible coin not selected: {:?} target {} pol {:?}", c, v.target, q.pol);
            }
        }
    }
    r.count("diag_shielding_compared", 1);
    if missing == 0 {
        r.count("diag_shielding_selection_equals_model", 1);
    } else {
        r.count("diag_shielding_model_eligible_not_selected", missing);
    }
}

/// After a proposal was returned: create its transactions now, hold it for later, or drop it.
fn after_ok(wd: &mut World, r: &mut Reporter, d: &mut Driver, q: Req, h: Held, violated: bool) {
    if violated {
        return;
    }
    // (count-based budgets only: a history's course must not depend on the clock)
    let can_create = wd.creates_done < wd.cfg.max_creates;
    let roll = wd.rng.gen_range(0..100);
    if can_create && roll < 30 {
        do_create(wd, r, d, h);
    } else if roll < 40 && q.lock_req.is_some() {
        d.held = Some(h);
    }
}

fn do_create(wd: &mut World, r: &mut Reporter, d: &mut Driver, h: Held) {
    let Some(target) = wd.target() else { return };
    let expiry = match wd.rng.gen_range(0..10) {
        0..=5 => Some(target + wd.rng.gen_range(1..6)),
        6 => Some(0),
        _ => None,
    };
    let n_inputs = match &h {
        Held::Notes(_, _, i) | Held::Shield(_, _, i) => i.iter().map(|s| s.len()).sum::<usize>(),
    };
    // bystanders: lock a few other outputs of the same account right before the store, so that
    // "unlock what this transaction spends" and "unlock everything" differ observably
    let bystander_roll = wd.rng.gen_bool(0.6);
    if bystander_roll {
        let (acct, own): (usize, BTreeSet<InKey>) = match &h {
            Held::Notes(q, _, i) | Held::Shield(q, _, i) => (q.account, i.iter().flatten().copied().collect()),
        };
        let v = wd.m.view(&wd.sim, &wd.w, target);
        let mut c: Vec<InKey> = lockable(wd, &v)
            .into_iter()
            .filter(|(k, a)| *a == acct && !own.contains(k) && lock_active(&wd.m.locks.get(k).copied(), target).is_none())
            .filter(|(k, _)| match k {
                InKey::Note(n) => v.notes.get(n).map_or(false, |x| x.value > 5000 && !x.spent_pending),
                InKey::Coin(t, i) => v.coins.get(&(*t, *i)).map_or(false, |x| x.value > 5000 && !x.spent_pending),
            })
            .map(|x| x.0)
            .collect();
        c.shuffle(&mut wd.rng);
        c.truncate(3);
        if !c.is_empty() {
            let o = wd.rng.gen_range(0..N_OWNERS);
            let expiry = target + wd.rng.gen_range(2..40);
            let refs: Vec<OutputRef> = c.iter().map(out_ref).collect();
            let res = wd.w.db.lock_outputs(&refs, owner(o), BlockHeight::from_u32(expiry));
            wd.log(json!({"op":"lock_outputs","why":"bystanders-before-store","owner":o,"expiry":expiry,"outputs":c.iter().map(|k| k.short()).collect::<Vec<_>>(),"ok":res.is_ok()}));
            if res.is_ok() {
                r.count("bystander_locks_before_store", c.len() as u64);
                for k in c {
                    wd.m.locks.insert(k, LockM { owner: o, expiry, by_proposal: false });
                }
            }
        }
    }
    let real_roll = wd.rng.gen_bool(0.7);
    let use_real = d.real_budget > 0 && n_inputs <= 2 && real_roll;
    let t0 = std::time::Instant::now();
    // Orchard-family proofs cost seconds each: only a few per shard go through the real builder,
    // the rest through the fabricated-transaction fallback (or are not created at all)
    let heavy = match &h {
        Held::Notes(_, p, _) => check::needs_orchard_proofs(p),
        Held::Shield(_, p, _) => check::needs_orchard_proofs(p),
    };
    if heavy && d.halo2_budget == 0 {
        if let Held::Notes(q, p, i) = &h {
            if check::fabricate(wd, r, q, p, i, expiry) {
                return;
            }
        }
        r.count("creations_skipped_need_halo2_proofs", 1);
        return;
    }
    let ok = match &h {
        Held::Notes(q, p, i) => create(wd, r, q, p, i, expiry, &mut d.provers, use_real),
        Held::Shield(q, p, i) => create(wd, r, q, p, i, expiry, &mut d.provers, use_real),
    };
    if heavy {
        d.halo2_budget -= 1;
        r.count("pending_created_with_real_halo2_proofs", ok as u64);
    }
    d.create_spent_ms += t0.elapsed().as_millis() as u64;
    if ok && use_real {
        d.real_budget -= 1;
    }
}

fn note_expiries(wd: &mut World, r: &mut Reporter) {
    let Some(target) = wd.target() else { return };
    for p in wd.m.pend.iter_mut() {
        if !p.counted_expired && p.mined_uid.is_none() && !pending_unexpired(p, target) {
            p.counted_expired = true;
            r.count("pending_transactions_expired_unmined", 1);
        }
    }
    let expired_locks = wd.m.locks.values().filter(|l| lock_active(&Some(**l), target).is_none()).count();
    r.set_max("max_expired_locks_seen_at_once", expired_locks as u64);
}

fn run_history(i: u64, cfg: Cfg, rng: rand_chacha::ChaCha20Rng, r: &mut Reporter, d: &mut Driver) {
    let t_init = std::time::Instant::now();
    let mut wd = World::new(i, cfg, rng);
    d.held = None;
    // initial chain: funding for both accounts early, then random traffic
    for b in 0..wd.cfg.initial_len {
        if b < 6 {
            let a = (b % 2) as usize;
            let plan = wd.funding_plan(a, 3);
            let height = wd.sim.tip_height() + 1;
            let bt = wd.sim.build_tx(&plan, height);
            wd.mine_block(vec![bt], true);
        } else {
            wd.mine_block(vec![], true);
        }
    }
    wd.log(json!({"op":"mine","n":wd.cfg.initial_len,"tip":wd.sim.tip_height()}));
    wd.sync();
    wd.load_taddrs();
    for _ in 0..wd.rng.gen_range(5..10) {
        wd.put_coin();
    }
    r.count("ms_history_setup", t_init.elapsed().as_millis() as u64);
    let steps = wd.cfg.steps;
    for _ in 0..steps {
        if wd.aborted.is_some() || !r.time_left() {
            break;
        }
        let t_step = std::time::Instant::now();
        let mut choice = wd.rng.gen_range(0..100);
        if let Some((a, left, src)) = wd.followup {
            // send-max right after a wallet shielding transaction was mined, then one block deeper, ...
            proposal_op(&mut wd, r, d);
            r.count(if left % 2 == 0 { "sendmax_followups_of_a_mined_shielding_transaction" } else { "transfer_followups_of_a_mined_shielding_transaction" }, 1);
            wd.followup = if left > 1 { Some((a, left - 1, src)) } else { None };
            let n = wd.rng.gen_range(1..3);
            wd.mine(n);
            wd.sync();
            note_expiries(&mut wd, r);
            r.count("ms_proposal_ops", t_step.elapsed().as_millis() as u64);
            continue;
        }
        if wd.mine_pending_soon && choice > 66 {
            // a freshly stored shielding transaction gets mined while the shielded coins are still shallow
            wd.mine_pending_soon = false;
            choice = 90;
        }
        match choice {
            0..=54 => proposal_op(&mut wd, r, d),
            55..=66 => lock_op(&mut wd, r, d),
            67..=76 => {
                // the chain advances; usually the wallet follows completely
                let n = wd.rng.gen_range(1..4);
                wd.mine(n);
                match wd.rng.gen_range(0..10) {
                    0..=6 => {
                        wd.sync();
                        if wd.rng.gen_bool(0.35) {
                            // fresh coins keep arriving
                            wd.put_coin();
                        }
                    }
                    7 => {
                        let t = wd.sim.tip_height();
                        wd.tip(t);
                    }
                    8 => {
                        // partial scan: the wallet learns the tip and scans only part of what is new
                        let t = wd.sim.tip_height();
                        wd.tip(t);
                        if let Some((a, b)) = wd.unscanned_ranges().first().copied() {
                            let lim = wd.rng.gen_range(1..=(b - a + 1));
                            wd.scan(a, lim);
                        }
                    }
                    _ => {}
                }
            }
            77..=81 => {
                if let Some((a, b)) = wd.unscanned_ranges().first().copied() {
                    let lim = wd.rng.gen_range(1..=(b - a + 1));
                    wd.scan(a, lim);
                } else {
                    wd.sync();
                }
            }
            82..=84 => {
                // advance exactly to an expiry boundary: afterwards target == expiry of some lock or
                // of some stored pending transaction (still locked / still unexpired by one block)
                if let Some(target) = wd.target() {
                    let mut cands: Vec<u32> = wd.m.locks.values().map(|l| l.expiry).filter(|e| *e > target && *e <= target + 10).collect();
                    cands.extend(wd.m.pend.iter().filter(|p| p.mined_uid.is_none()).map(|p| p.expiry).filter(|e| *e > target && *e <= target + 10));
                    if let Some(e) = cands.choose(&mut wd.rng).copied() {
                        let fully = wd.unscanned_ranges().is_empty() && wd.sim.tip_height() + 1 == target;
                        if fully {
                            let n = e - target;
                            for _ in 0..n {
                                let traffic = wd.rng.gen_bool(0.3);
                                wd.mine_block(vec![], traffic);
                            }
                            wd.log(json!({"op":"advance_to_expiry_boundary","n":n,"tip":wd.sim.tip_height()}));
                            wd.sync();
                            r.count("advances_to_expiry_boundary", 1);
                        }
                    }
                }
            }
            85..=87 => {
                // tip advance that expires locks / pending transactions
                let n = wd.rng.gen_range(2..9);
                for _ in 0..n {
                    let traffic = wd.rng.gen_bool(0.3);
                    wd.mine_block(vec![], traffic);
                }
                wd.log(json!({"op":"mine","n":n,"tip":wd.sim.tip_height()}));
                wd.sync();
            }
            88..=92 => {
                wd.shield_just_mined = None;
                if wd.mine_pending() > 0 {
                    if wd.rng.gen_bool(0.9) {
                        wd.sync();
                        if let Some((a, src)) = wd.shield_just_mined.take() {
                            wd.followup = Some((a, 6, src));
                        }
                    }
                }
            }
            93..=95 => {
                wd.put_coin();
                if wd.rng.gen_bool(0.5) {
                    wd.put_coin();
                }
                // the user marks some transactions as trusted (or withdraws the mark)
                if wd.cfg.trust_marks {
                    for _ in 0..wd.rng.gen_range(1..4) {
                        if wd.set_trust() {
                            r.count("trust_marks_set_or_cleared", 1);
                        }
                    }
                }
            }
            96..=97 => {
                if let Some(h) = d.held.take() {
                    if wd.creates_done < wd.cfg.max_creates + 1 {
                        r.count("deferred_creations_attempted", 1);
                        do_create(&mut wd, r, d, h);
                    }
                }
            }
            _ => {
                if wd.rewinds_done < wd.cfg.max_rewinds && wd.rewind() {
                    let cont = wd.rng.gen_range(1..10);
                    wd.mine(cont);
                    if wd.rng.gen_bool(0.8) {
                        wd.sync();
                    }
                }
            }
        }
        note_expiries(&mut wd, r);
        r.count(if choice <= 54 { "ms_proposal_ops" } else if choice <= 66 { "ms_lock_ops" } else { "ms_chain_ops" }, t_step.elapsed().as_millis() as u64);
    }
    r.count("histories", 1);
    r.count("rewinds", wd.rewinds_done as u64);
    r.count("rewinds_exposing_F1", wd.rewinds_f1 as u64);
    r.count("rewinds_refused", wd.rewinds_refused as u64);
    r.count("pending_transactions_mined", wd.pending_mined);
    r.count("orphans_remined", wd.remined);
    if wd.f1.any_tainted() {
        r.count("histories_tainted_by_F1", 1);
    }
    if let Some(a) = &wd.aborted {
        r.count("histories_aborted", 1);
        if a.contains("known finding F1") {
            r.count("histories_aborted_by_F1_scan_failure", 1);
        } else {
            r.inconclusive("history aborted: scan / tip update failed");
            r.note(format!("history aborted: {}", a.chars().take(200).collect::<String>()));
        }
    }
}

fn main() {
    vh_common::install_panic_hook();
    let args = Args::parse();
    let mut r = Reporter::new("C08", &args);
    let thorough = args.tier == vh_common::Tier::Thorough;
    let n = args.pick(400u64, 20_000u64);
    let only = args.extra.get("only-hist").map(|v| v.parse::<u64>().unwrap());
    let mut d = Driver {
        provers: Provers { real: None },
        held: None,
        // the bundled Sapling prover costs seconds per spend under load: quick tier uses it in every 4th shard
        real_budget: args.get_u64("real-prover-txs", if thorough { 6 } else if args.shard % 4 == 0 { 1 } else { 0 }) as u32,
        halo2_budget: args.get_u64("halo2-txs", if thorough { 5 } else { 0 }) as u32,
        create_spent_ms: 0,
    };
    for i in 0..n {
        if !r.time_left() {
            break;
        }
        if only.is_some() && only != Some(i) {
            continue;
        }
        let mut rng = vh_common::rng(args.shard_seed(), 800 + i);
        let cfg = Cfg::random(&mut rng, thorough);
        let res = guard(|| run_history(i, cfg.clone(), rng, &mut r, &mut d));
        if let Err(p) = res {
            // a panic outside the guarded wallet calls is a harness problem, never a verdict
            r.inconclusive("harness panic inside a history");
            r.note(format!("history {i} panicked: {}", p.chars().take(300).collect::<String>()));
            if std::env::var("VH_DEBUG").is_ok() {
                eprintln!("history {i} panicked: {p}");
            }
        }
    }
    r.count("create_ms_spent", d.create_spent_ms);
    r.finish();
}
