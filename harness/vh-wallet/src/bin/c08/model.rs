//! Reference model of C08: per note / coin state derived from the sim's ground truth plus the
//! harness's own log of lock and pending-transaction operations. Nothing here asks the wallet.

use std::collections::{BTreeMap, BTreeSet};

use vh_wallet::sim::{BuiltTx, ChainSim, NoteKey, Pool, TxIdBytes};
use vh_wallet::wallet::WalletUnderTest;
use zcash_transparent::address::TransparentAddress;
use zip32::Scope;

/// Identity of a spendable thing: a shielded note or a transparent coin.
#[derive(Clone, Copy, Debug, PartialEq, Eq, Hash, PartialOrd, Ord)]
pub enum InKey {
    Note(NoteKey),
    Coin(TxIdBytes, u32),
}

impl InKey {
    pub fn short(&self) -> String {
        match self {
            InKey::Note(k) => format!("{}:{}:{}", k.pool.name(), hex::encode(&k.txid[..4]), k.out_idx),
            InKey::Coin(t, n) => format!("coin:{}:{}", hex::encode(&t[..4]), n),
        }
    }
}

#[derive(Clone, Copy, Debug, PartialEq, Eq)]
pub struct LockM {
    /// index into `OWNERS`
    pub owner: usize,
    pub expiry: u32,
    /// taken through a proposal's `LockRequest` (as opposed to a direct `lock_outputs`)
    pub by_proposal: bool,
}

#[derive(Clone, Debug)]
pub struct CoinM {
    pub account: usize,
    pub addr: TransparentAddress,
    pub value: u64,
    /// coins announced through `put_received_transparent_utxo`: the height the wallet currently
    /// holds them mined at (None after a truncation below it)
    pub put_height: Option<u32>,
    /// output of a wallet-created transaction (mined height = height of that tx in a scanned block)
    pub from_wallet_tx: bool,
}

#[derive(Clone, Debug)]
pub struct PendingM {
    pub txid: TxIdBytes,
    pub account: usize,
    pub inputs: Vec<InKey>,
    /// 0 = never expires
    pub expiry: u32,
    /// compact form + ground truth, for mining by the sim (None: nothing shielded in it)
    pub built: Option<BuiltTx>,
    /// uid of the sim block of the CURRENT chain that contains it
    pub mined_uid: Option<u64>,
    pub ever_mined: bool,
    pub counted_expired: bool,
}

#[derive(Clone, Copy, Debug, PartialEq, Eq, Hash, PartialOrd, Ord)]
pub enum Inel {
    OtherAccount,
    SpentMined,
    SpentPending,
    Shallow,
    LockedOwn,
    LockedForeign,
}

impl Inel {
    pub fn name(self) -> &'static str {
        match self {
            Inel::OtherAccount => "other_account",
            Inel::SpentMined => "spent_mined",
            Inel::SpentPending => "spent_pending",
            Inel::Shallow => "too_shallow",
            Inel::LockedOwn => "locked_own",
            Inel::LockedForeign => "locked_foreign",
        }
    }
}

#[derive(Clone, Debug)]
pub struct NoteV {
    pub key: NoteKey,
    pub account: usize,
    pub scope: Scope,
    pub value: u64,
    pub height: u32,
    pub position: u64,
    pub cm: [u8; 32],
    pub spent_mined: bool,
    pub spent_pending: bool,
    pub lock: Option<LockM>,
    /// created by a transaction this wallet built (trusted irrespective of scope)
    pub wallet_tx: bool,
    /// created by a wallet shielding transaction: max mined height of its transparent inputs
    /// (None inside Some = an input is not mined as far as the wallet knows)
    pub shield_src: Option<Option<u32>>,
    /// spent by a transaction of a rewound block that the wallet still treats as unexpired
    /// (diagnostics only: the wallet may legitimately refuse such a note)
    pub spent_orphan: bool,
    /// the user marked the note's transaction as trusted (`set_tx_trust`)
    pub tx_trusted: bool,
    /// shielding output: every transparent input's transaction is marked trusted
    pub shield_all_trusted: bool,
}

#[derive(Clone, Debug)]
pub struct CoinV {
    pub key: (TxIdBytes, u32),
    pub account: usize,
    pub addr: TransparentAddress,
    pub value: u64,
    pub mined: Option<u32>,
    pub spent_mined: bool,
    pub spent_pending: bool,
    pub lock: Option<LockM>,
    pub from_wallet_tx: bool,
    /// the user marked the coin's transaction as trusted
    pub tx_trusted: bool,
}

/// The model's picture of the wallet at one instant (target = wallet chain tip + 1).
pub struct View {
    pub target: u32,
    pub notes: BTreeMap<NoteKey, NoteV>,
    pub coins: BTreeMap<(TxIdBytes, u32), CoinV>,
    /// is every block from the birthday to the wallet's tip scanned?
    pub fully_scanned: bool,
}

#[derive(Clone, Copy, Debug, PartialEq, Eq, Hash)]
pub struct ConfPol {
    pub trusted: u32,
    pub untrusted: u32,
    pub zero_conf_shielding: bool,
}

#[derive(Default)]
pub struct Model {
    pub locks: BTreeMap<InKey, LockM>,
    pub coins: BTreeMap<(TxIdBytes, u32), CoinM>,
    pub pend: Vec<PendingM>,
    /// txids of transactions created by the wallet
    pub wallet_txids: BTreeSet<TxIdBytes>,
    /// wallet shielding transactions: txid -> transparent inputs
    pub shield_inputs: BTreeMap<TxIdBytes, Vec<(TxIdBytes, u32)>>,
}

pub fn pending_unexpired(p: &PendingM, target: u32) -> bool {
    p.expiry == 0 || p.expiry >= target
}

impl Model {
    pub fn view(&self, sim: &ChainSim, w: &WalletUnderTest, target: u32) -> View {
        // Trust marks are user-supplied metadata; the model takes "which transactions are marked" from
        // what the wallet retains and re-derives what follows from it.
        let trusted: BTreeSet<TxIdBytes> = {
            let conn = w.db.conn();
            let mut out = BTreeSet::new();
            if let Ok(mut st) = conn.prepare("SELECT txid FROM transactions WHERE trust_status = 1") {
                if let Ok(rows) = st.query_map([], |r| r.get::<_, Vec<u8>>(0)) {
                    for t in rows.flatten() {
                        if let Ok(a) = <[u8; 32]>::try_from(t.as_slice()) {
                            out.insert(a);
                        }
                    }
                }
            }
            out
        };
        let mut notes: BTreeMap<NoteKey, NoteV> = BTreeMap::new();
        let mut tx_height: BTreeMap<TxIdBytes, u32> = BTreeMap::new();
        for (h, uid) in &w.scanned {
            let b = &sim.all_blocks[uid];
            for tx in &b.txs {
                tx_height.insert(tx.txid, *h);
                for n in &tx.received {
                    notes.insert(
                        n.key,
                        NoteV {
                            key: n.key,
                            account: n.account,
                            scope: n.scope,
                            value: n.value,
                            height: *h,
                            position: n.position,
                            cm: n.cm,
                            spent_mined: false,
                            spent_pending: false,
                            lock: self.locks.get(&InKey::Note(n.key)).copied(),
                            wallet_tx: self.wallet_txids.contains(&tx.txid),
                            shield_src: None,
                            spent_orphan: false,
                            tx_trusted: trusted.contains(&tx.txid),
                            shield_all_trusted: false,
                        },
                    );
                }
            }
        }
        for uid in w.scanned.values() {
            for tx in &sim.all_blocks[uid].txs {
                for k in &tx.spends {
                    if let Some(n) = notes.get_mut(k) {
                        n.spent_mined = true;
                    }
                }
            }
        }
        for uid in &w.ever_scanned {
            for tx in &sim.all_blocks[uid].txs {
                if tx_height.contains_key(&tx.txid) {
                    continue;
                }
                if w.observed.get(&tx.txid).map_or(false, |h| h + 40 >= target) {
                    for k in &tx.spends {
                        if let Some(n) = notes.get_mut(k) {
                            n.spent_orphan = true;
                        }
                    }
                }
            }
        }
        let mut coins: BTreeMap<(TxIdBytes, u32), CoinV> = BTreeMap::new();
        for (k, c) in &self.coins {
            let mined = if c.from_wallet_tx { tx_height.get(&k.0).copied() } else { c.put_height };
            coins.insert(
                *k,
                CoinV {
                    key: *k,
                    account: c.account,
                    addr: c.addr,
                    value: c.value,
                    mined,
                    spent_mined: false,
                    spent_pending: false,
                    lock: self.locks.get(&InKey::Coin(k.0, k.1)).copied(),
                    from_wallet_tx: c.from_wallet_tx,
                    tx_trusted: trusted.contains(&k.0),
                },
            );
        }
        for p in &self.pend {
            let mined_scanned = tx_height.contains_key(&p.txid);
            let unexp = pending_unexpired(p, target);
            for k in &p.inputs {
                match k {
                    InKey::Note(nk) => {
                        if let Some(n) = notes.get_mut(nk) {
                            if mined_scanned {
                                n.spent_mined = true;
                            } else if unexp {
                                n.spent_pending = true;
                            }
                        }
                    }
                    InKey::Coin(t, i) => {
                        if let Some(c) = coins.get_mut(&(*t, *i)) {
                            if mined_scanned {
                                c.spent_mined = true;
                            } else if unexp {
                                c.spent_pending = true;
                            }
                        }
                    }
                }
            }
        }
        // outputs of wallet shielding transactions inherit the depth of the shielded coins
        for n in notes.values_mut() {
            if let Some(ins) = self.shield_inputs.get(&n.key.txid) {
                // coins the wallet does not hold as mined say nothing about depth: weakest reading
                // (the note then counts as an ordinary trusted output)
                let mx: Option<u32> = ins.iter().filter_map(|k| coins.get(k).and_then(|c| c.mined)).max();
                n.shield_src = mx.map(Some);
                n.shield_all_trusted = !ins.is_empty() && ins.iter().all(|k| trusted.contains(&k.0));
            }
        }
        let tip = target - 1;
        let fully_scanned = (sim.base_height() + 1..=tip).all(|h| w.scanned.contains_key(&h));
        View { target, notes, coins, fully_scanned }
    }
}

pub fn lock_active(l: &Option<LockM>, target: u32) -> Option<LockM> {
    l.filter(|l| l.expiry >= target)
}

impl View {
    /// Why the note may NOT be selected for `account` (None = the model admits it). This is the
    /// weakest reading of the statement: anything the wallet additionally refuses (dust, notes above
    /// the anchor, unscanned shards, unexpired orphans) is its own business.
    pub fn note_inel(
        &self,
        n: &NoteV,
        account: usize,
        pol: &ConfPol,
        admitted: &BTreeSet<usize>,
        req_owner: Option<usize>,
    ) -> Option<Inel> {
        if n.account != account {
            return Some(Inel::OtherAccount);
        }
        if n.spent_mined {
            return Some(Inel::SpentMined);
        }
        if n.spent_pending {
            return Some(Inel::SpentPending);
        }
        if !self.note_confirmed(n, pol) {
            return Some(Inel::Shallow);
        }
        if let Some(l) = lock_active(&n.lock, self.target) {
            if !admitted.contains(&l.owner) {
                return Some(if Some(l.owner) == req_owner { Inel::LockedOwn } else { Inel::LockedForeign });
            }
        }
        None
    }

    /// Confirmations rule re-implemented from the `ConfirmationsPolicy` documentation: an output
    /// mined at height h has `target - h` confirmations; trusted outputs (received on the
    /// account's internal address, or created by a transaction of this wallet) need `trusted`,
    /// everything else `untrusted`; outputs of a wallet shielding transaction count as untrusted
    /// outputs received when the shielded coins were.
    pub fn note_confirmed(&self, n: &NoteV, pol: &ConfPol) -> bool {
        let confs = self.target.saturating_sub(n.height);
        if n.height >= self.target {
            return false;
        }
        // a shielded input needs an anchor at `target - trusted` or below in any case
        if confs < pol.trusted {
            return false;
        }
        // an explicitly trusted transaction's outputs need only the trusted depth
        if n.tx_trusted {
            return true;
        }
        if let Some(src) = n.shield_src {
            // ... and a shielding output inherits the depth of its transparent sources, at the
            // trusted depth only if EVERY source transaction is marked trusted
            let need = if n.shield_all_trusted { pol.trusted } else { pol.untrusted };
            return match src {
                Some(h) => self.target.saturating_sub(h) >= need,
                None => false,
            };
        }
        let is_trusted = n.scope == Scope::Internal || n.wallet_tx;
        is_trusted || confs >= pol.untrusted
    }

    pub fn coin_inel(
        &self,
        c: &CoinV,
        account: usize,
        pol: &ConfPol,
        admitted: &BTreeSet<usize>,
        req_owner: Option<usize>,
    ) -> Option<Inel> {
        if c.account != account {
            return Some(Inel::OtherAccount);
        }
        if c.spent_mined {
            return Some(Inel::SpentMined);
        }
        if c.spent_pending {
            return Some(Inel::SpentPending);
        }
        if !self.coin_confirmed(c, pol) {
            return Some(Inel::Shallow);
        }
        if let Some(l) = lock_active(&c.lock, self.target) {
            if !admitted.contains(&l.owner) {
                return Some(if Some(l.owner) == req_owner { Inel::LockedOwn } else { Inel::LockedForeign });
            }
        }
        None
    }

    /// Coins: zero confirmations when the policy allows zero-conf shielding; otherwise coins on
    /// external addresses are untrusted, outputs of the wallet's own transactions trusted.
    pub fn coin_confirmed(&self, c: &CoinV, pol: &ConfPol) -> bool {
        if pol.zero_conf_shielding {
            return true;
        }
        match c.mined {
            None => false,
            Some(h) => {
                if h >= self.target {
                    return false;
                }
                let confs = self.target - h;
                if c.from_wallet_tx || c.tx_trusted {
                    confs >= pol.trusted
                } else {
                    confs >= pol.untrusted
                }
            }
        }
    }
}

pub fn pool_of(p: zcash_protocol::ShieldedPool) -> Pool {
    match p {
        zcash_protocol::ShieldedPool::Sapling => Pool::Sapling,
        zcash_protocol::ShieldedPool::Orchard => Pool::Orchard,
        zcash_protocol::ShieldedPool::Ironwood => Pool::Ironwood,
    }
}

pub fn spool_of(p: Pool) -> zcash_protocol::ShieldedPool {
    match p {
        Pool::Sapling => zcash_protocol::ShieldedPool::Sapling,
        Pool::Orchard => zcash_protocol::ShieldedPool::Orchard,
        Pool::Ironwood => zcash_protocol::ShieldedPool::Ironwood,
    }
}
