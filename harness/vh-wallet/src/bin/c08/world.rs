//! The world of one C08 history: sim + wallet + model, and the chain-side operations
//! (mine / scan / tip / rewind / coins / mining of wallet-created transactions).

use std::collections::{BTreeSet, HashMap};

use incrementalmerkletree::Position;
use rand::seq::SliceRandom;
use rand::Rng;
use rand_chacha::ChaCha20Rng;
use shardtree::error::ShardTreeError;
use vh_common::{json, Value};
use vh_wallet::hist::F1Tracker;
use vh_wallet::sim::{
    root_from_path_orchard, root_from_path_sapling, to32, BuiltTx, ChainSim, NoteKey, OutPlan, Pool, ProtoNote,
    TxIdBytes, TxPlan, POOLS,
};
use vh_wallet::wallet::{WalletConfig, WalletUnderTest};
use zcash_client_backend::data_api::{chain::ChainState, WalletCommitmentTrees, WalletRead, WalletWrite};
use zcash_client_backend::{decrypt_transaction, TransferType};
use zcash_client_backend::proto::compact_formats::CompactTx;
use zcash_client_backend::wallet::WalletTransparentOutput;
use zcash_client_sqlite::wallet::commitment_tree::Error as TreeStoreError;
use zcash_primitives::block::BlockHash;
use zcash_primitives::transaction::Transaction;
use zcash_protocol::{consensus::BlockHeight, local_consensus::LocalNetwork, value::Zatoshis};
use zcash_transparent::address::TransparentAddress;
use zcash_transparent::bundle::{OutPoint, TxOut};
use zip32::Scope;

use crate::model::{CoinM, InKey, Model};

type TErr = ShardTreeError<TreeStoreError>;

#[derive(Clone, Debug)]
pub struct Cfg {
    pub nu6_3: bool,
    pub retention: Option<u32>,
    pub initial_len: u32,
    pub steps: u32,
    pub spend_bias: f64,
    pub base_offset: u32,
    pub max_rewinds: u32,
    pub avoid_f1: bool,
    /// how many proposals per history may be turned into transactions
    pub max_creates: u32,
    /// the user marks transactions as trusted in this history (`set_tx_trust`)
    pub trust_marks: bool,
}

impl Cfg {
    pub fn random(rng: &mut ChaCha20Rng, thorough: bool) -> Self {
        let nu6_3 = rng.gen_bool(0.75);
        Cfg {
            nu6_3,
            retention: if nu6_3 && rng.gen_bool(0.6) { Some(rng.gen_range(5..30)) } else { None },
            initial_len: rng.gen_range(22..60),
            steps: if thorough { rng.gen_range(100..220) } else { rng.gen_range(90..160) },
            spend_bias: *[0.1, 0.25, 0.4].choose(rng).unwrap(),
            base_offset: rng.gen_range(0..50),
            max_rewinds: rng.gen_range(0..=2),
            avoid_f1: rng.gen_bool(0.85),
            max_creates: rng.gen_range(4..12),
            trust_marks: rng.gen_bool(0.5),
        }
    }

    pub fn pools(&self) -> Vec<Pool> {
        if self.nu6_3 {
            POOLS.to_vec()
        } else {
            vec![Pool::Sapling, Pool::Orchard]
        }
    }

    pub fn network(&self) -> LocalNetwork {
        let act = Some(BlockHeight::from_u32(100_000));
        LocalNetwork {
            overwinter: Some(BlockHeight::from_u32(1)),
            sapling: act,
            blossom: act,
            heartwood: act,
            canopy: act,
            nu5: act,
            nu6: act,
            nu6_1: act,
            nu6_2: act,
            nu6_3: if self.nu6_3 { act } else { None },
        }
    }

    pub fn to_json(&self) -> Value {
        json!({"nu6_3": self.nu6_3, "retention": self.retention, "initial_len": self.initial_len, "steps": self.steps,
               "spend_bias": self.spend_bias, "max_rewinds": self.max_rewinds, "avoid_f1": self.avoid_f1, "max_creates": self.max_creates, "trust_marks": self.trust_marks})
    }
}

pub struct World {
    pub id: u64,
    pub cfg: Cfg,
    pub sim: ChainSim,
    pub w: WalletUnderTest,
    pub f1: F1Tracker,
    pub rng: ChaCha20Rng,
    pub m: Model,
    /// external transparent receivers per account known to the wallet
    pub taddrs: Vec<Vec<TransparentAddress>>,
    pub ops: Vec<Value>,
    pub orphan_pool: Vec<BuiltTx>,
    pub aborted: Option<String>,
    pub rewinds_done: u32,
    pub rewinds_f1: u32,
    pub rewinds_refused: u32,
    pub creates_done: u32,
    pub pending_mined: u64,
    pub remined: u64,
    pub coin_seq: u32,
    /// a transaction spending coins was just stored: mine it at the next chain operation
    pub mine_pending_soon: bool,
    /// a wallet shielding transaction was just mined and scanned: the next proposals are send-max
    /// requests of that account under an asymmetric policy, one or two blocks apart (account, remaining, mined height of the newest shielded coin)
    pub followup: Option<(usize, u32, u32)>,
    /// account of a wallet shielding transaction mined by the last `mine_pending`
    pub shield_just_mined: Option<(usize, u32)>,
}

pub enum WitRes {
    Path(Vec<[u8; 32]>),
    None,
    Err(String),
}

impl World {
    pub fn new(id: u64, cfg: Cfg, mut rng: ChaCha20Rng) -> Self {
        let net = cfg.network();
        let base_h = 100_000 + cfg.base_offset;
        let mut hash = [0u8; 32];
        rand::RngCore::fill_bytes(&mut rng, &mut hash);
        let base = ChainState::empty(BlockHeight::from_u32(base_h), BlockHash(hash));
        let sim_rng = vh_common::rng(rng.r#gen(), 1);
        let sim = ChainSim::new(net, 2, base, sim_rng);
        let w = WalletUnderTest::new(&sim, WalletConfig { file_backed: false, retention: cfg.retention });
        World {
            id,
            cfg,
            sim,
            w,
            f1: F1Tracker::default(),
            rng,
            m: Model::default(),
            taddrs: vec![vec![], vec![]],
            ops: vec![],
            orphan_pool: vec![],
            aborted: None,
            rewinds_done: 0,
            rewinds_f1: 0,
            rewinds_refused: 0,
            creates_done: 0,
            pending_mined: 0,
            remined: 0,
            coin_seq: 0,
            mine_pending_soon: false,
            followup: None,
            shield_just_mined: None,
        }
    }

    pub fn log(&mut self, v: Value) {
        self.ops.push(v);
    }

    pub fn replay(&self) -> Value {
        let n = self.ops.len();
        json!({"hist": self.id, "cfg": self.cfg.to_json(), "n_ops": n, "last_ops": self.ops[n.saturating_sub(60)..].to_vec()})
    }

    pub fn target(&self) -> Option<u32> {
        self.w.chain_height().map(|h| h + 1)
    }

    // ------------------------------------------------------------------ chain side

    fn built_valid(&self, b: &BuiltTx, used: &[NoteKey]) -> bool {
        b.spends.iter().zip(&b.spend_nfs).all(|(k, nf)| {
            self.sim.live.get(k).map(|n| &n.nf) == Some(nf) && !self.sim.spent.contains_key(k) && !used.contains(k)
        }) && b.notes.iter().all(|n| !self.sim.live.contains_key(&NoteKey { txid: b.txid, pool: n.pool, out_idx: n.out_idx }))
    }

    /// A funding transaction: `n` decent notes for `account` over the pools in use.
    pub fn funding_plan(&mut self, account: usize, n: usize) -> TxPlan {
        let pools = self.cfg.pools();
        let mut plan = TxPlan::default();
        for _ in 0..n {
            let pool = *pools.choose(&mut self.rng).unwrap();
            let value = match self.rng.gen_range(0..8) {
                0 => 60_000,
                1 => 150_000,
                2 => 1_000_000,
                3 => 100_000_000,
                4 => 5_001,
                5 => 5_000,
                _ => self.rng.gen_range(10_000..3_000_000),
            };
            let scope = if self.rng.gen_bool(0.3) { Scope::Internal } else { Scope::External };
            plan.outs.push(OutPlan::Wallet { account, pool, scope, diversified: None, value });
        }
        plan
    }

    /// Mines one block: optional given transactions + maybe a re-mined orphan + random traffic.
    pub fn mine_block(&mut self, mut built: Vec<BuiltTx>, traffic: bool) {
        let height = self.sim.tip_height() + 1;
        let mut used: Vec<NoteKey> = built.iter().flat_map(|b| b.spends.clone()).collect();
        if traffic && !self.orphan_pool.is_empty() && self.rng.gen_bool(0.3) {
            let i = self.rng.gen_range(0..self.orphan_pool.len());
            let b = self.orphan_pool.swap_remove(i);
            if self.built_valid(&b, &used) {
                used.extend(b.spends.iter().copied());
                built.push(b);
                self.remined += 1;
            }
        }
        if traffic {
            let n_tx = match self.rng.gen_range(0..10) {
                0..=2 => 0,
                3..=6 => 1,
                7..=8 => 2,
                _ => 3,
            };
            let pools = self.cfg.pools();
            for _ in 0..n_tx {
                let p = if self.rng.gen_bool(0.25) {
                    let a = self.rng.gen_range(0..2);
                    let k = self.rng.gen_range(1..3);
                    self.funding_plan(a, k)
                } else {
                    self.sim.random_tx_plan(&pools, self.cfg.spend_bias, &used)
                };
                used.extend(p.spends.iter().copied());
                let b = self.sim.build_tx(&p, height);
                built.push(b);
            }
        }
        self.sim.mine_built(built);
    }

    pub fn mine(&mut self, n: u32) {
        for _ in 0..n {
            self.mine_block(vec![], true);
        }
        self.log(json!({"op":"mine","n":n,"tip":self.sim.tip_height()}));
    }

    /// Mines up to two stored pending transactions that are still valid on the current chain.
    pub fn mine_pending(&mut self) -> u32 {
        let height = self.sim.tip_height() + 1;
        let mut chosen: Vec<usize> = vec![];
        let mut used: Vec<NoteKey> = vec![];
        let mut idx: Vec<usize> = (0..self.m.pend.len()).collect();
        idx.shuffle(&mut self.rng);
        for i in idx {
            let p = &self.m.pend[i];
            let Some(b) = &p.built else { continue };
            if p.mined_uid.is_some() || !(p.expiry == 0 || height <= p.expiry) {
                continue;
            }
            if !self.built_valid(b, &used) {
                continue;
            }
            used.extend(b.spends.iter().copied());
            chosen.push(i);
            if chosen.len() >= 2 {
                break;
            }
        }
        if chosen.is_empty() {
            return 0;
        }
        let built: Vec<BuiltTx> = chosen.iter().map(|i| self.m.pend[*i].built.clone().unwrap()).collect();
        let traffic = self.rng.gen_bool(0.5);
        self.mine_block(built, traffic);
        let uid = self.sim.blocks[&height].uid;
        for i in &chosen {
            self.m.pend[*i].mined_uid = Some(uid);
            self.m.pend[*i].ever_mined = true;
            if self.m.shield_inputs.contains_key(&self.m.pend[*i].txid) {
                let src = self.m.shield_inputs[&self.m.pend[*i].txid].iter().filter_map(|k| self.m.coins.get(k).and_then(|c| c.put_height)).max();
                self.shield_just_mined = Some((self.m.pend[*i].account, src.unwrap_or(height)));
            }
        }
        self.pending_mined += chosen.len() as u64;
        self.log(json!({"op":"mine_pending","n":chosen.len(),"height":height}));
        chosen.len() as u32
    }

    pub fn tip(&mut self, h: u32) {
        let r = self.w.update_chain_tip(h);
        self.log(json!({"op":"tip","h":h,"ok":r.is_ok()}));
        if let Err(e) = r {
            self.aborted = Some(format!("update_chain_tip({h}) failed: {e}"));
        }
    }

    pub fn unscanned_ranges(&self) -> Vec<(u32, u32)> {
        let mut v = vec![];
        let mut cur: Option<(u32, u32)> = None;
        for h in self.sim.base_height() + 1..=self.sim.tip_height() {
            let scanned = self.w.scanned.get(&h) == Some(&self.sim.blocks[&h].uid);
            if !scanned {
                cur = Some(match cur {
                    Some((a, _)) => (a, h),
                    None => (h, h),
                });
            } else if let Some(c) = cur.take() {
                v.push(c);
            }
        }
        if let Some(c) = cur {
            v.push(c);
        }
        v
    }

    pub fn scan(&mut self, from: u32, limit: u32) -> bool {
        let r = self.w.scan(&self.sim, from, limit as usize);
        match r {
            Ok(_) => {
                let sizes = self.sim.sizes_at(from - 1);
                for p in POOLS {
                    self.f1.on_frontier(p, sizes[p.idx()]);
                }
                self.log(json!({"op":"scan","from":from,"limit":limit,"ok":true}));
                true
            }
            Err(e) => {
                let e: String = e.chars().take(200).collect();
                self.log(json!({"op":"scan","from":from,"limit":limit,"ok":false,"err":e}));
                if self.f1.any_tainted() {
                    self.aborted = Some("scan failed after an F1-exposing truncation (known finding F1)".into());
                } else {
                    self.aborted = Some(format!("scan({from},{limit}) failed: {e}"));
                }
                false
            }
        }
    }

    /// Tell the wallet the tip and scan everything that is left, in ascending chunks.
    pub fn sync(&mut self) {
        let t = self.sim.tip_height();
        self.tip(t);
        let mut guard = 0;
        while self.aborted.is_none() && guard < 500 {
            guard += 1;
            let un = self.unscanned_ranges();
            let Some((a, b)) = un.first().copied() else { break };
            let chunk: u32 = self.rng.gen_range(3..40);
            let limit = (b - a + 1).min(chunk);
            if !self.scan(a, limit) {
                break;
            }
        }
    }

    fn rewind_would_taint(&self, to: u32) -> bool {
        let sizes = self.sim.sizes_at(to);
        POOLS.iter().any(|p| {
            let mut t = self.f1.clone();
            t.on_truncate(*p, sizes[p.idx()])
        })
    }

    /// Reorg: the wallet truncates first; only if it accepts does the chain fork there.
    pub fn rewind(&mut self) -> bool {
        let tip = self.sim.tip_height();
        let maxd = (tip - self.sim.base_height() - 1).min(30);
        if maxd < 1 {
            return false;
        }
        let mut d: u32 = self.rng.gen_range(1..=maxd.min(8));
        if self.cfg.avoid_f1 {
            for _ in 0..40 {
                if !self.rewind_would_taint(tip - d) {
                    break;
                }
                d = self.rng.gen_range(1..=maxd.min(12));
            }
        }
        let to = tip - d;
        match self.w.truncate_to_height(to) {
            Ok(actual) => {
                let wallet_txids: BTreeSet<TxIdBytes> = self.m.wallet_txids.clone();
                let orphaned: Vec<BuiltTx> = self
                    .sim
                    .blocks
                    .range(to + 1..)
                    .flat_map(|(_, b)| b.txs.iter().map(|t| t.built.clone()))
                    .filter(|b| !wallet_txids.contains(&b.txid))
                    .collect();
                let uids = self.sim.rewind(to);
                for p in self.m.pend.iter_mut() {
                    if p.mined_uid.map_or(false, |u| uids.contains(&u)) {
                        p.mined_uid = None;
                    }
                }
                for c in self.m.coins.values_mut() {
                    if c.put_height.map_or(false, |h| h > actual) {
                        c.put_height = None;
                    }
                }
                let sizes = self.sim.sizes_at(actual);
                let mut f1 = false;
                for p in POOLS {
                    f1 |= self.f1.on_truncate(p, sizes[p.idx()]);
                }
                self.rewinds_done += 1;
                if f1 {
                    self.rewinds_f1 += 1;
                }
                self.orphan_pool.extend(orphaned);
                self.log(json!({"op":"rewind","to":to,"actual":actual,"f1":f1}));
                true
            }
            Err(_) => {
                self.rewinds_refused += 1;
                self.log(json!({"op":"rewind","to":to,"actual":null}));
                false
            }
        }
    }

    // ------------------------------------------------------------------ coins

    pub fn load_taddrs(&mut self) {
        for (i, a) in self.w.accounts.clone().iter().enumerate() {
            let mut v: Vec<TransparentAddress> = self
                .w
                .db
                .get_transparent_receivers(*a, false, false)
                .map(|m| m.into_keys().collect())
                .unwrap_or_default();
            v.sort_by_key(|a| format!("{a:?}"));
            v.truncate(3);
            self.taddrs[i] = v;
        }
    }

    /// Announces a fresh coin (or re-announces an un-mined one) to the wallet.
    /// Marks (or un-marks) a transaction the wallet knows as trusted: the funding transaction of a
    /// coin it holds, or a transaction of a scanned block that paid it.
    pub fn set_trust(&mut self) -> bool {
        use zcash_client_backend::data_api::WalletWrite;
        let mut cands: Vec<TxIdBytes> = self.m.coins.keys().map(|k| k.0).collect();
        for uid in self.w.scanned.values() {
            for tx in &self.sim.all_blocks[uid].txs {
                if !tx.received.is_empty() {
                    cands.push(tx.txid);
                }
            }
        }
        cands.sort();
        cands.dedup();
        let Some(txid) = cands.choose(&mut self.rng).copied() else { return false };
        let on = self.rng.gen_bool(0.75);
        let ok = self.w.db.set_tx_trust(zcash_protocol::TxId::from_bytes(txid), on).is_ok();
        self.log(json!({"op": "set_tx_trust", "txid": hex::encode(txid), "trusted": on, "ok": ok}));
        ok
    }

    pub fn put_coin(&mut self) -> bool {
        let Some(tip) = self.w.chain_height() else { return false };
        let account = self.rng.gen_range(0..2);
        if self.taddrs[account].is_empty() {
            return false;
        }
        // re-announce a coin that a truncation un-mined
        let unmined: Vec<(TxIdBytes, u32)> = self
            .m
            .coins
            .iter()
            .filter(|(_, c)| !c.from_wallet_tx && c.put_height.is_none())
            .map(|(k, _)| *k)
            .collect();
        let lo = self.sim.base_height() + 1;
        let height = if self.rng.gen_bool(0.75) { tip.saturating_sub(self.rng.gen_range(0..4)).max(lo) } else { self.rng.gen_range(lo..=tip) };
        let (key, addr, value, acct) = if !unmined.is_empty() && self.rng.gen_bool(0.5) {
            let k = *unmined.choose(&mut self.rng).unwrap();
            let c = &self.m.coins[&k];
            (k, c.addr, c.value, c.account)
        } else {
            self.coin_seq += 1;
            let mut txid = [0u8; 32];
            rand::RngCore::fill_bytes(&mut self.rng, &mut txid);
            txid[0] = 0xC0;
            let addr = *self.taddrs[account].choose(&mut self.rng).unwrap();
            let value = match self.rng.gen_range(0..8) {
                0 => 5_000,
                1 => 5_001,
                2 => 1_000,
                3 => 100_000_000,
                _ => self.rng.gen_range(10_000..2_000_000),
            };
            ((txid, self.rng.gen_range(0..3)), addr, value, account)
        };
        let txout = TxOut::new(Zatoshis::from_u64(value).unwrap(), addr.script().into());
        let op = OutPoint::new(key.0, key.1);
        let Some(out) = WalletTransparentOutput::from_parts(op, txout, Some(BlockHeight::from_u32(height)), None, None, None) else {
            return false;
        };
        let r = self.w.db.put_received_transparent_utxo(&out);
        self.log(json!({"op":"put_coin","account":acct,"value":value,"height":height,"ok":r.is_ok()}));
        if r.is_ok() {
            self.m.coins.insert(key, CoinM { account: acct, addr, value, put_height: Some(height), from_wallet_tx: false });
            true
        } else {
            false
        }
    }

    // ------------------------------------------------------------------ wallet-created transactions

    /// Compact form + ground truth of a transaction the wallet created, so that the sim can mine it.
    /// `spends`: the shielded notes it spends (per the proposal step it was built from).
    pub fn built_from_tx(&self, tx: &Transaction, spends: &[NoteKey]) -> Option<BuiltTx> {
        let txid: TxIdBytes = *tx.txid().as_ref();
        let mut ctx = CompactTx { index: 0, txid: txid.to_vec(), ..Default::default() };
        if let Some(b) = tx.sapling_bundle() {
            for s in b.shielded_spends() {
                ctx.spends.push(s.into());
            }
            for o in b.shielded_outputs() {
                ctx.outputs.push(o.into());
            }
        }
        if let Some(b) = tx.orchard_bundle() {
            for a in b.actions() {
                ctx.actions.push(a.into());
            }
        }
        if let Some(b) = tx.ironwood_bundle() {
            for a in b.actions() {
                ctx.ironwood_actions.push(a.into());
            }
        }
        if ctx.spends.is_empty() && ctx.outputs.is_empty() && ctx.actions.is_empty() && ctx.ironwood_actions.is_empty() {
            return None;
        }
        // the nullifiers the transaction reveals must include those of the notes it is said to spend
        let mut revealed: BTreeSet<[u8; 32]> = ctx.spends.iter().map(|s| to32(&s.nf)).collect();
        revealed.extend(ctx.actions.iter().map(|a| to32(&a.nullifier)));
        revealed.extend(ctx.ironwood_actions.iter().map(|a| to32(&a.nullifier)));
        let mut spend_nfs = vec![];
        for k in spends {
            let n = self.sim.live.get(k)?;
            if !revealed.contains(&n.nf) {
                return None;
            }
            spend_nfs.push(n.nf);
        }
        // outputs addressed to wallet accounts (ground truth through the accounts' viewing keys)
        let ufvks: HashMap<usize, _> = self.sim.accounts.iter().enumerate().map(|(i, a)| (i, a.ufvk.clone())).collect();
        let h = BlockHeight::from_u32(self.sim.tip_height() + 1);
        let d = decrypt_transaction(&self.sim.net, Some(h), None, tx, &ufvks);
        let mut notes = vec![];
        let scope_of = |t: TransferType| match t {
            TransferType::Incoming => Some(Scope::External),
            TransferType::AccountInternal => Some(Scope::Internal),
            _ => None,
        };
        for o in d.sapling_outputs() {
            let Some(scope) = scope_of(o.transfer_type()) else { continue };
            let idx = o.index();
            notes.push(ProtoNote {
                pool: Pool::Sapling,
                out_idx: idx as u32,
                account: *o.account(),
                scope,
                value: o.note().value().inner(),
                cm: to32(&ctx.outputs[idx].cmu),
                sapling_note: Some(o.note().clone()),
                fixed_nf: None,
            });
        }
        for o in d.orchard_outputs() {
            let Some(scope) = scope_of(o.transfer_type()) else { continue };
            let idx = o.index();
            let nf = o.note().0.nullifier(&self.sim.accounts[*o.account()].ofvk).to_bytes();
            notes.push(ProtoNote {
                pool: Pool::Orchard,
                out_idx: idx as u32,
                account: *o.account(),
                scope,
                value: o.note().0.value().inner(),
                cm: to32(&ctx.actions[idx].cmx),
                sapling_note: None,
                fixed_nf: Some(nf),
            });
        }
        for o in d.ironwood_outputs() {
            let Some(scope) = scope_of(o.transfer_type()) else { continue };
            let idx = o.index();
            let nf = o.note().0.nullifier(&self.sim.accounts[*o.account()].ofvk).to_bytes();
            notes.push(ProtoNote {
                pool: Pool::Ironwood,
                out_idx: idx as u32,
                account: *o.account(),
                scope,
                value: o.note().0.value().inner(),
                cm: to32(&ctx.ironwood_actions[idx].cmx),
                sapling_note: None,
                fixed_nf: Some(nf),
            });
        }
        // an output seen through both the external and the internal key would be listed twice
        notes.sort_by_key(|n| (n.pool, n.out_idx, n.scope == Scope::External));
        notes.dedup_by_key(|n| (n.pool, n.out_idx));
        Some(BuiltTx { txid, ctx, notes, spends: spends.to_vec(), spend_nfs, foreign_nfs: vec![] })
    }

    // ------------------------------------------------------------------ witnesses

    pub fn witness(&mut self, pool: Pool, pos: u64, anchor: u32) -> WitRes {
        let p = Position::from(pos);
        let a = BlockHeight::from_u32(anchor);
        let r: Result<Option<Vec<[u8; 32]>>, TErr> = match pool {
            Pool::Sapling => self.w.db.with_sapling_tree_mut(|t| {
                Ok(t.witness_at_checkpoint_id(p, &a)?.map(|mp| mp.path_elems().iter().map(|n| n.to_bytes()).collect()))
            }),
            Pool::Orchard => self.w.db.with_orchard_tree_mut(|t| {
                Ok(t.witness_at_checkpoint_id(p, &a)?.map(|mp| mp.path_elems().iter().map(|n| n.to_bytes()).collect()))
            }),
            Pool::Ironwood => self
                .w
                .db
                .with_ironwood_tree_mut(|t| {
                    Ok(t.witness_at_checkpoint_id(p, &a)?.map(|mp| mp.path_elems().iter().map(|n| n.to_bytes()).collect()))
                })
                .map(|o: Option<Option<Vec<[u8; 32]>>>| o.flatten()),
        };
        match r {
            Ok(Some(v)) => WitRes::Path(v),
            Ok(None) => WitRes::None,
            Err(e) => WitRes::Err(format!("{e:?}").chars().take(120).collect()),
        }
    }
}

pub fn verify_path(pool: Pool, leaf: [u8; 32], pos: u64, path: &[[u8; 32]]) -> Option<[u8; 32]> {
    match pool {
        Pool::Sapling => {
            let p: Option<Vec<sapling::Node>> = path.iter().map(|b| Option::from(sapling::Node::from_bytes(*b))).collect();
            Some(root_from_path_sapling(leaf, pos, &p?))
        }
        _ => {
            let p: Option<Vec<orchard::tree::MerkleHashOrchard>> =
                path.iter().map(|b| Option::from(orchard::tree::MerkleHashOrchard::from_bytes(b))).collect();
            Some(root_from_path_orchard(leaf, pos, &p?))
        }
    }
}

#[allow(dead_code)]
pub fn inkeys_notes(v: &[InKey]) -> Vec<NoteKey> {
    v.iter()
        .filter_map(|k| match k {
            InKey::Note(n) => Some(*n),
            _ => None,
        })
        .collect()
}
