//! Proposal requests: random generation (guided by the model so that the interesting amounts are
//! hit) and invocation of the public proposal API.

use std::collections::BTreeSet;
use std::convert::Infallible;
use std::num::NonZeroUsize;

use nonempty::NonEmpty;
use rand::seq::SliceRandom;
use rand::Rng;
use vh_common::{guard, json, Value};
use vh_wallet::sim::Pool;
use zcash_client_backend::data_api::wallet::input_selection::{
    GreedyInputSelector, LockedInputPolicy, NonEmptyBTreeSet, NoteSelection, SpendPolicy, TransparentSpendPolicy,
};
use zcash_client_backend::data_api::wallet::{
    propose_send_max_transfer, propose_shielding, propose_standard_transfer_to_address, propose_transfer,
    ConfirmationsPolicy,
};
use zcash_client_backend::data_api::{locking::LockRequest, CoinbaseFilter, MaxSpendMode};
use zcash_client_backend::fees::{standard, DustOutputPolicy, SplitPolicy, StandardFeeRule};
use zcash_client_backend::proposal::Proposal;
use zcash_client_backend::wallet::LockOwner;
use zcash_client_sqlite::{testing::db::TestDb, ReceivedNoteId};
use zcash_keys::address::Address;
use zcash_keys::keys::UnifiedAddressRequest;
use zcash_protocol::value::Zatoshis;
use zcash_transparent::address::TransparentAddress;
use zip321::{Payment, TransactionRequest};

use crate::model::{spool_of, ConfPol, Inel, View};
use crate::world::World;

pub const N_OWNERS: usize = 4;
pub const MAX_MONEY: u64 = 2_100_000_000_000_000;

pub fn owner(i: usize) -> LockOwner {
    LockOwner::new([0xA0 + i as u8; 32])
}

#[derive(Clone, Copy, Debug, PartialEq, Eq, Hash)]
pub enum Kind {
    Standard,
    Transfer,
    SendMax,
    Shielding,
}

impl Kind {
    pub fn name(self) -> &'static str {
        match self {
            Kind::Standard => "standard_transfer",
            Kind::Transfer => "transfer",
            Kind::SendMax => "send_max",
            Kind::Shielding => "shielding",
        }
    }
}

#[derive(Clone, Copy, Debug, PartialEq, Eq, Hash)]
pub enum Rcpt {
    ForeignSapling,
    ForeignUa,
    ForeignOrchardUa,
    ForeignT,
    Tex,
    OtherAccount,
}

#[derive(Clone, Debug)]
pub struct Req {
    pub kind: Kind,
    pub account: usize,
    pub pol: ConfPol,
    /// 0 Exclude, 1 PreferUnlocked, 2 PreferLocked
    pub lp_variant: u8,
    /// the locked-input policy the SELECTOR OBJECT was configured with (documented to govern
    /// shielding only: a transfer must follow the per-call spend policy): (variant, owner)
    pub selector_lp: (u8, usize),
    pub lp_owners: BTreeSet<usize>,
    pub lock_req: Option<(usize, u32)>,
    pub amounts: Vec<u64>,
    pub rcpts: Vec<Rcpt>,
    pub pools: Vec<Pool>,
    /// 0 none, 1 any account address, 2 listed addresses
    pub transparent: u8,
    pub multi_change: bool,
    pub prefer_single: bool,
    pub everything: bool,
    pub fallback: Pool,
    pub threshold: u64,
    pub coinbase_filter: u8,
    pub from_addrs: Vec<TransparentAddress>,
    /// how the amount was chosen (diagnostics / signature)
    pub amount_class: &'static str,
}

impl Req {
    pub fn total(&self) -> u64 {
        self.amounts.iter().sum()
    }

    pub fn admitted(&self) -> BTreeSet<usize> {
        if self.lp_variant == 0 {
            BTreeSet::new()
        } else {
            self.lp_owners.clone()
        }
    }

    pub fn req_owner(&self) -> Option<usize> {
        self.lock_req.map(|l| l.0)
    }

    pub fn uses_coins(&self) -> bool {
        self.kind == Kind::Shielding || (self.kind == Kind::Transfer && self.transparent != 0)
    }

    pub fn uses_notes(&self) -> bool {
        self.kind != Kind::Shielding
    }

    pub fn to_json(&self) -> Value {
        json!({
            "kind": self.kind.name(), "account": self.account,
            "policy": {"trusted": self.pol.trusted, "untrusted": self.pol.untrusted, "zero_conf_shielding": self.pol.zero_conf_shielding},
            "locked_input_policy": (["Exclude", "PreferUnlocked", "PreferLocked"][self.lp_variant as usize]),
            "lp_owners": self.lp_owners.iter().collect::<Vec<_>>(), "lock_request": self.lock_req, "selector_locked_input_policy": [self.selector_lp.0 as usize, self.selector_lp.1],
            "amounts": self.amounts, "recipients": self.rcpts.iter().map(|r| format!("{r:?}")).collect::<Vec<_>>(),
            "pools": self.pools.iter().map(|p| p.name()).collect::<Vec<_>>(), "transparent": self.transparent,
            "multi_change": self.multi_change, "prefer_single": self.prefer_single, "everything": self.everything,
            "fallback": self.fallback.name(), "threshold": self.threshold, "coinbase_filter": self.coinbase_filter,
            "amount_class": self.amount_class,
        })
    }

    pub fn conf_policy(&self) -> ConfirmationsPolicy {
        ConfirmationsPolicy::new_unchecked(self.pol.trusted, self.pol.untrusted, self.pol.zero_conf_shielding)
    }

    pub fn locked_policy(&self) -> LockedInputPolicy {
        let set: BTreeSet<LockOwner> = self.lp_owners.iter().map(|i| owner(*i)).collect();
        match (self.lp_variant, NonEmptyBTreeSet::from_set(set)) {
            (1, Some(s)) => LockedInputPolicy::PreferUnlocked(s),
            (2, Some(s)) => LockedInputPolicy::PreferLocked(s),
            _ => LockedInputPolicy::Exclude,
        }
    }

    pub fn lock_request(&self) -> Option<LockRequest> {
        self.lock_req.map(|(o, b)| LockRequest::new(owner(o), b))
    }
}

/// What the model knows about the funds relevant to a request.
pub struct Funds {
    /// eligible value inside the request's own restrictions (pools, transparent policy), dust excluded
    pub eligible: u64,
    /// sound upper bound of what any correct selection could gather (all pools, all coins)
    pub upper: u64,
    /// (kind, value) of every ineligible note/coin (spent-in-scanned-block excluded)
    pub ineligible: Vec<(Inel, u64)>,
}

pub fn funds(v: &View, q: &Req) -> Funds {
    let admitted = q.admitted();
    let mut f = Funds { eligible: 0, upper: 0, ineligible: vec![] };
    for n in v.notes.values() {
        match v.note_inel(n, q.account, &q.pol, &admitted, q.req_owner()) {
            None => {
                f.upper += n.value;
                if q.uses_notes() && q.pools.contains(&n.key.pool) && n.value > 5000 {
                    f.eligible += n.value;
                }
            }
            Some(Inel::SpentMined) => {}
            Some(k) => {
                if q.uses_notes() {
                    f.ineligible.push((k, n.value));
                }
            }
        }
    }
    for c in v.coins.values() {
        match v.coin_inel(c, q.account, &q.pol, &admitted, q.req_owner()) {
            None => {
                f.upper += c.value;
                let listed = q.kind == Kind::Transfer && q.transparent == 1 || q.from_addrs.contains(&c.addr);
                if q.uses_coins() && listed && c.value > 5000 && c.mined.is_some() {
                    f.eligible += c.value;
                }
            }
            Some(Inel::SpentMined) => {}
            Some(k) => {
                if q.uses_coins() {
                    f.ineligible.push((k, c.value));
                }
            }
        }
    }
    f
}

pub fn random_policy(rng: &mut impl Rng) -> ConfPol {
    let (t, u) = match rng.gen_range(0..12) {
        0 => (1, 1),
        10 | 11 => (rng.gen_range(1..=2), rng.gen_range(8..=10)),
        1 => (3, 10),
        2 => {
            let k = rng.gen_range(1..=10);
            (k, k)
        }
        _ => {
            let t = rng.gen_range(1..=10);
            (t, rng.gen_range(t..=10))
        }
    };
    ConfPol { trusted: t, untrusted: u, zero_conf_shielding: rng.gen_bool(0.5) }
}

const CANONICAL: [u64; 7] = [100_000, 200_000, 500_000, 1_000_000, 2_000_000, 10_000_000, 100_000_000];

/// Draws the non-amount part of a request.
pub fn random_req(wd: &mut World) -> Req {
    let pools_in_use = wd.cfg.pools();
    let rng = &mut wd.rng;
    let kind = match rng.gen_range(0..100) {
        0..=19 => Kind::Standard,
        20..=59 => Kind::Transfer,
        60..=81 => Kind::SendMax,
        _ => Kind::Shielding,
    };
    let account = rng.gen_range(0..2);
    let mut pol = random_policy(rng);
    let (lp_variant, lp_owners) = if kind == Kind::Standard || rng.gen_bool(0.45) {
        (0u8, BTreeSet::new())
    } else {
        let mut s = BTreeSet::new();
        s.insert(rng.gen_range(0..N_OWNERS));
        if rng.gen_bool(0.3) {
            s.insert(rng.gen_range(0..N_OWNERS));
        }
        (rng.gen_range(1..=2u8), s)
    };
    let lock_req = if rng.gen_bool(0.4) {
        let blocks = *[0u32, 0, 1, 2, 3, 5, 10, 50].choose(rng).unwrap();
        Some((rng.gen_range(0..N_OWNERS), blocks))
    } else {
        None
    };
    let pools: Vec<Pool> = if kind == Kind::Standard || rng.gen_bool(0.6) {
        crate::ALL_POOLS.to_vec()
    } else {
        let mut p = pools_in_use.clone();
        p.shuffle(rng);
        p.truncate(rng.gen_range(1..=p.len()));
        p.sort();
        p
    };
    let transparent = if kind == Kind::Transfer { *[0u8, 0, 1, 1, 2].choose(rng).unwrap() } else { 0 };
    if (kind == Kind::Shielding || transparent != 0) && rng.gen_bool(0.4) {
        // coins are judged by depth only without zero-conf shielding
        pol.zero_conf_shielding = false;
    }
    let n_pay = if kind == Kind::Transfer { *[1usize, 1, 1, 2, 3].choose(rng).unwrap() } else { 1 };
    let mut rcpts = vec![];
    for _ in 0..n_pay {
        rcpts.push(match rng.gen_range(0..12) {
            0..=2 => Rcpt::ForeignSapling,
            3..=5 => Rcpt::ForeignUa,
            6..=7 => Rcpt::ForeignOrchardUa,
            8 => Rcpt::ForeignT,
            9 => Rcpt::Tex,
            _ => Rcpt::OtherAccount,
        });
    }
    let from_addrs = if kind == Kind::Shielding || transparent == 2 {
        let mut a = wd.taddrs[account].clone();
        a.shuffle(rng);
        let k = if a.is_empty() { 0 } else { rng.gen_range(1..=a.len()) };
        a.truncate(k);
        a
    } else {
        vec![]
    };
    // directed follow-up of a freshly mined wallet shielding transaction: everything the account has,
    // under a policy whose two depths are far apart (the shielded note is deep enough by itself within
    // a block or two, its coins are not for several more)
    let (kind, account, pol, lock_req, pools) = match wd.followup {
        Some((a, left, src)) => (
            // alternately everything the account has (the all-funds query) and a payment sized against
            // the model (the value-targeted query)
            if left % 2 == 0 { Kind::SendMax } else { Kind::Transfer },
            a,
            // the untrusted depth is chosen a few blocks beyond what the newest shielded coin has now
            ConfPol {
                trusted: rng.gen_range(1..=2),
                untrusted: (wd.sim.tip_height() + 1).saturating_sub(src).max(1) + rng.gen_range(1..=4),
                zero_conf_shielding: pol.zero_conf_shielding,
            },
            None,
            crate::ALL_POOLS.to_vec(),
        ),
        None => (kind, account, pol, lock_req, pools),
    };
    let transparent = if wd.followup.is_some() { 0 } else { transparent };
    Req {
        kind,
        account,
        pol,
        lp_variant,
        selector_lp: (rng.gen_range(0..3), rng.gen_range(0..3)),
        lp_owners,
        lock_req,
        amounts: vec![],
        rcpts,
        pools,
        transparent: if transparent == 2 && from_addrs.is_empty() { 0 } else { transparent },
        multi_change: rng.gen_bool(0.4),
        prefer_single: rng.gen_bool(0.2),
        everything: rng.gen_bool(0.3),
        // shielding into Sapling needs no halo2 proof, so such proposals can become transactions cheaply
        fallback: if kind == Kind::Shielding && rng.gen_bool(0.6) { Pool::Sapling } else { *pools_in_use.choose(rng).unwrap() },
        threshold: 0,
        coinbase_filter: *[0u8, 0, 2, 2, 1].choose(rng).unwrap(),
        from_addrs,
        amount_class: "-",
    }
}

/// Chooses amounts so that the boundary between "coverable" and "not coverable" is hit.
pub fn choose_amounts(wd: &mut World, q: &mut Req, f: &Funds) {
    let rng = &mut wd.rng;
    let e = f.eligible;
    let mut inel: Vec<u64> = f.ineligible.iter().map(|x| x.1).filter(|v| *v > 5000).collect();
    inel.sort();
    let (mut total, class): (u64, &'static str) = match rng.gen_range(0..12) {
        0..=2 if e > 1 => (rng.gen_range(1..=e), "random<=eligible"),
        3..=4 if e > 70_000 => (e - rng.gen_range(10_000..60_000), "near-all-eligible"),
        5 => (e + 1, "eligible+1"),
        6 if !inel.is_empty() => (e + *inel.choose(rng).unwrap(), "eligible+ineligible-note"),
        7 if !inel.is_empty() => (*inel.choose(rng).unwrap(), "value-of-ineligible-note"),
        8 => (*CANONICAL.choose(rng).unwrap(), "canonical-denomination"),
        9 => (f.upper + rng.gen_range(1..50_000), "above-upper-bound"),
        10 if e > 20_000 => (e - rng.gen_range(0..20_000), "within-fee-of-eligible"),
        _ => (rng.gen_range(10_000..400_000), "small"),
    };
    total = total.clamp(1, MAX_MONEY);
    q.amount_class = class;
    match q.kind {
        Kind::Shielding => {
            q.threshold = match rng.gen_range(0..4) {
                0 => 0,
                1 => 10_000,
                _ => total,
            };
            q.amounts = vec![];
        }
        Kind::SendMax => q.amounts = vec![],
        _ => {
            let n = q.rcpts.len() as u64;
            let mut left = total;
            let mut v = vec![];
            for i in 0..n {
                let a = if i + 1 == n { left } else { (left / (n - i)).max(1).min(left.saturating_sub(n - i - 1).max(1)) };
                v.push(a.max(1));
                left = left.saturating_sub(a);
            }
            q.amounts = v;
        }
    }
}

pub fn address_of(wd: &World, q: &Req, r: Rcpt) -> Address {
    let f = &wd.sim.foreign;
    match r {
        Rcpt::ForeignSapling => Address::Sapling(f.dfvk.default_address().1),
        Rcpt::ForeignUa => Address::Unified(f.ufvk.default_address(UnifiedAddressRequest::SHIELDED).unwrap().0),
        Rcpt::ForeignOrchardUa => Address::Unified(f.ufvk.default_address(UnifiedAddressRequest::ORCHARD).unwrap().0),
        Rcpt::ForeignT => Address::Transparent(TransparentAddress::PublicKeyHash([0x11; 20])),
        Rcpt::Tex => Address::Tex([0x22; 20]),
        Rcpt::OtherAccount => Address::Unified(
            wd.sim.accounts[1 - q.account].ufvk.default_address(UnifiedAddressRequest::SHIELDED).unwrap().0,
        ),
    }
}

pub type NoteProposal = Proposal<StandardFeeRule, ReceivedNoteId>;
pub type ShieldProposal = Proposal<StandardFeeRule, Infallible>;

pub enum Out {
    Notes(NoteProposal),
    Shield(ShieldProposal),
    Err(String),
    Panic(String),
}

fn zat(v: u64) -> Zatoshis {
    Zatoshis::from_u64(v.min(MAX_MONEY)).unwrap()
}

/// Calls the public proposal API for `q`.
pub fn invoke(wd: &mut World, q: &Req) -> Out {
    let net = wd.sim.net;
    let acct = wd.w.accounts[q.account];
    let conf = q.conf_policy();
    let lock = q.lock_request();
    let lp = q.locked_policy();
    let fallback = spool_of(q.fallback);
    let addrs: Vec<Address> = q.rcpts.iter().map(|r| address_of(wd, q, *r)).collect();
    let db: &mut TestDb = &mut wd.w.db;
    let res = guard(|| match q.kind {
        Kind::Standard => propose_standard_transfer_to_address::<_, _, Infallible>(
            db,
            &net,
            StandardFeeRule::Zip317,
            acct,
            conf,
            &addrs[0],
            zat(q.amounts[0]),
            None,
            None,
            fallback,
            lock,
            None,
        )
        .map(Out::Notes)
        .unwrap_or_else(|e| Out::Err(format!("{e:?}"))),
        Kind::Transfer => {
            let payments: Vec<Payment> = addrs
                .iter()
                .zip(&q.amounts)
                .map(|(a, v)| Payment::without_memo(a.to_zcash_address(&net), zat(*v)))
                .collect();
            let request = match TransactionRequest::new(payments) {
                Ok(r) => r,
                Err(e) => return Out::Err(format!("Zip321Request({e:?})")),
            };
            let mut sp = SpendPolicy::shielded_pools(q.pools.iter().map(|p| spool_of(*p))).with_locked_input_policy(lp.clone());
            match q.transparent {
                1 => sp = sp.with_transparent(TransparentSpendPolicy::any_account_addr()),
                2 => {
                    if let Some(ne) = NonEmpty::from_vec(q.from_addrs.clone()) {
                        sp = sp.with_transparent(TransparentSpendPolicy::from_addresses(ne));
                    }
                }
                _ => {}
            }
            if q.prefer_single {
                sp = sp.with_note_selection(NoteSelection::PreferSingle);
            }
            // the selector object may have been configured for shielding with another policy
            let sel = {
                let set: BTreeSet<LockOwner> = [owner(q.selector_lp.1)].into_iter().collect();
                match (q.selector_lp.0, NonEmptyBTreeSet::from_set(set)) {
                    (1, Some(s)) => GreedyInputSelector::<TestDb>::new().with_locked_input_policy(LockedInputPolicy::PreferUnlocked(s)),
                    (2, Some(s)) => GreedyInputSelector::<TestDb>::new().with_locked_input_policy(LockedInputPolicy::PreferLocked(s)),
                    _ => GreedyInputSelector::<TestDb>::new(),
                }
            };
            if q.multi_change {
                let cs = standard::MultiOutputChangeStrategy::<TestDb>::new(
                    StandardFeeRule::Zip317,
                    None,
                    fallback,
                    DustOutputPolicy::default(),
                    SplitPolicy::with_min_output_value(NonZeroUsize::new(4).unwrap(), Zatoshis::const_from_u64(100_000)),
                );
                propose_transfer::<_, _, _, _, Infallible>(db, &net, acct, &sel, &cs, request, conf, &sp, lock, None)
                    .map(Out::Notes)
                    .unwrap_or_else(|e| Out::Err(format!("{e:?}")))
            } else {
                let cs = standard::SingleOutputChangeStrategy::<TestDb>::new(
                    StandardFeeRule::Zip317,
                    None,
                    fallback,
                    DustOutputPolicy::default(),
                );
                propose_transfer::<_, _, _, _, Infallible>(db, &net, acct, &sel, &cs, request, conf, &sp, lock, None)
                    .map(Out::Notes)
                    .unwrap_or_else(|e| Out::Err(format!("{e:?}")))
            }
        }
        Kind::SendMax => {
            let pools: Vec<_> = q.pools.iter().map(|p| spool_of(*p)).collect();
            let mode = if q.everything { MaxSpendMode::Everything } else { MaxSpendMode::MaxSpendable };
            propose_send_max_transfer::<_, _, _, Infallible>(
                db,
                &net,
                acct,
                &pools,
                &StandardFeeRule::Zip317,
                addrs[0].to_zcash_address(&net),
                None,
                mode,
                conf,
                &lp,
                lock,
            )
            .map(Out::Notes)
            .unwrap_or_else(|e| Out::Err(format!("{e:?}")))
        }
        Kind::Shielding => {
            let sel = GreedyInputSelector::<TestDb>::new().with_locked_input_policy(lp.clone());
            let filter = match q.coinbase_filter {
                0 => CoinbaseFilter::AllTransparentOutputs,
                1 => CoinbaseFilter::CoinbaseOnly,
                _ => CoinbaseFilter::NonCoinbaseOnly,
            };
            macro_rules! go {
                ($cs:expr) => {
                    propose_shielding::<_, _, _, _, Infallible>(
                        db,
                        &net,
                        &sel,
                        &$cs,
                        zat(q.threshold),
                        &q.from_addrs,
                        acct,
                        conf,
                        filter,
                        lock,
                    )
                    .map(Out::Shield)
                    .unwrap_or_else(|e| Out::Err(format!("{e:?}")))
                };
            }
            if q.multi_change {
                go!(standard::MultiOutputChangeStrategy::<TestDb>::new(
                    StandardFeeRule::Zip317,
                    None,
                    fallback,
                    DustOutputPolicy::default(),
                    SplitPolicy::with_min_output_value(NonZeroUsize::new(3).unwrap(), Zatoshis::const_from_u64(100_000)),
                ))
            } else {
                go!(standard::SingleOutputChangeStrategy::<TestDb>::new(
                    StandardFeeRule::Zip317,
                    None,
                    fallback,
                    DustOutputPolicy::default(),
                ))
            }
        }
    });
    match res {
        Ok(o) => o,
        Err(p) => Out::Panic(p),
    }
}

/// Short, value-free class of an error's debug string: the leading path of variant names.
pub fn err_class(e: &str) -> String {
    let mut out = String::new();
    let mut idents = 0;
    let mut cur = String::new();
    for c in e.chars() {
        if c.is_ascii_alphabetic() || c == '_' {
            cur.push(c);
        } else {
            if !cur.is_empty() {
                if cur.chars().next().unwrap().is_ascii_uppercase() {
                    if !out.is_empty() {
                        out.push('.');
                    }
                    out.push_str(&cur);
                    idents += 1;
                }
                cur.clear();
            }
            if c == '{' || c == '"' || c.is_ascii_digit() || idents >= 3 {
                break;
            }
        }
    }
    if !cur.is_empty() && idents < 3 && cur.chars().next().unwrap().is_ascii_uppercase() {
        if !out.is_empty() {
            out.push('.');
        }
        out.push_str(&cur);
    }
    if out.is_empty() {
        "Unknown".into()
    } else {
        out
    }
}
