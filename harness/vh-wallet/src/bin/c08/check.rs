//! The C08 oracle over a returned proposal, and the creation of pending transactions from proposals.

use std::collections::{BTreeMap, BTreeSet};
use std::convert::Infallible;

use vh_common::{guard, json, Reporter};
use vh_wallet::sim::{NoteKey, TxIdBytes};
use zcash_client_backend::data_api::wallet::{create_proposed_transactions, SpendingKeys};
use zcash_client_backend::data_api::WalletRead;
use zcash_client_backend::proposal::{Proposal, StepOutputIndex};
use zcash_client_backend::wallet::OvkPolicy;
use zcash_protocol::consensus::BlockHeight;
use zcash_primitives::transaction::TxId;

use crate::model::{lock_active, pool_of, CoinM, InKey, LockM, PendingM, View};
use crate::req::{Kind, Req};
use crate::world::{verify_path, WitRes, World};

pub struct Checked {
    /// selected inputs per step
    pub inputs: Vec<Vec<InKey>>,
    pub violated: bool,
}

pub fn viol(wd: &World, r: &mut Reporter, q: Option<&Req>, sig: &str, detail: String) {
    if std::env::var("VH_DEBUG").is_ok() {
        eprintln!("VIOLATION {sig}: {detail}\n  req={}", q.map(|q| q.to_json().to_string()).unwrap_or_default());
    }
    r.violation(sig, detail, json!({"request": q.map(|q| q.to_json()), "history": wd.replay()}));
}

/// Checks every clause of the statement on one returned proposal.
pub fn check_proposal<F, N>(wd: &mut World, r: &mut Reporter, q: &Req, v: &View, upper: u64, p: &Proposal<F, N>) -> Checked {
    let kind = q.kind.name();
    let mut out = Checked { inputs: vec![], violated: false };
    let target = u32::from(p.min_target_height());
    if target != v.target {
        r.inconclusive("proposal target height differs from wallet tip + 1");
        return out;
    }
    let admitted = q.admitted();
    let mut seen: BTreeSet<InKey> = BTreeSet::new();
    let mut pay_total_all: u128 = 0;
    // true roots per (pool, anchor); witnesses are verified for at most WIT_CAP inputs per proposal
    // (evenly spread over the selection), all other clauses for every input
    let mut roots: BTreeMap<(usize, u32), [u8; 32]> = BTreeMap::new();
    const WIT_CAP: usize = 12;
    let n_shielded: usize = p.steps().iter().map(|s| s.shielded_inputs().map_or(0, |x| x.notes().len())).sum();
    let stride = (n_shielded + WIT_CAP - 1) / WIT_CAP.max(1);
    let stride = stride.max(1);
    let mut shielded_idx = 0usize;
    // value of every step's outputs, for later steps that consume them
    let mut step_payments: Vec<BTreeMap<usize, u64>> = vec![];
    let mut step_change: Vec<Vec<u64>> = vec![];
    macro_rules! bad {
        ($sig:expr, $($arg:tt)*) => {{
            out.violated = true;
            viol(wd, r, Some(q), &$sig, format!($($arg)*));
        }};
    }
    for (si, step) in p.steps().iter().enumerate() {
        let anchor = step.anchor_height().map(u32::from);
        let mut ins: Vec<InKey> = vec![];
        let mut in_total: u128 = 0;
        if let Some(sh) = step.shielded_inputs() {
            for n in sh.notes().iter() {
                let pool = pool_of(n.note().pool());
                let key = NoteKey { txid: *n.txid().as_ref(), pool, out_idx: n.output_index() as u32 };
                let ik = InKey::Note(key);
                ins.push(ik);
                r.count("inputs_checked", 1);
                r.count("inputs_checked_shielded", 1);
                let val = u64::from(n.note().value());
                in_total += val as u128;
                if !seen.insert(ik) {
                    bad!(format!("C08:{kind}:input-selected-twice"), "step {si}: note {} selected twice", ik.short());
                    continue;
                }
                let Some(nv) = v.notes.get(&key).cloned() else {
                    bad!(
                        format!("C08:{kind}:input-not-mined-in-scanned-chain:{}", pool.name()),
                        "step {si}: note {} is not the output of any transaction in a scanned block of the current chain (target {target})",
                        ik.short()
                    );
                    continue;
                };
                if nv.account != q.account {
                    bad!(format!("C08:{kind}:input-of-other-account:{}", pool.name()), "step {si}: note {} belongs to account {}, requested {}", ik.short(), nv.account, q.account);
                }
                if nv.value != val {
                    bad!(format!("C08:{kind}:input-value-wrong:{}", pool.name()), "step {si}: note {} value {} per proposal, {} on chain", ik.short(), val, nv.value);
                }
                if nv.spent_mined {
                    bad!(format!("C08:{kind}:input-spent-in-scanned-block:{}", pool.name()), "step {si}: note {} (value {}, mined {}) is spent by a transaction in a scanned block", ik.short(), nv.value, nv.height);
                }
                if nv.spent_pending {
                    bad!(format!("C08:{kind}:input-spent-by-unexpired-pending-tx:{}", pool.name()), "step {si}: note {} (value {}) is spent by a stored pending transaction that is unexpired at target {target}", ik.short(), nv.value);
                }
                if !v.note_confirmed(&nv, &q.pol) {
                    bad!(
                        format!("C08:{kind}:input-below-required-confirmations:{}", pool.name()),
                        "step {si}: note {} mined at {} (scope {:?}, wallet tx {}, shielding source {:?}) has {} confirmations at target {target}; policy trusted {} untrusted {}",
                        ik.short(), nv.height, nv.scope, nv.wallet_tx, nv.shield_src, target.saturating_sub(nv.height), q.pol.trusted, q.pol.untrusted
                    );
                }
                if let Some(l) = lock_active(&nv.lock, target) {
                    if !admitted.contains(&l.owner) {
                        let class = if l.by_proposal { "reuses-input-locked-by-earlier-proposal" } else { "input-locked-by-unadmitted-owner" };
                        bad!(format!("C08:{kind}:{class}"), "step {si}: note {} is locked by owner {} until {} (target {target}); policy admits {:?}", ik.short(), l.owner, l.expiry, admitted);
                    }
                }
                // witnessability at the proposal's anchor: checked, not modelled
                let Some(a) = anchor else {
                    bad!(format!("C08:{kind}:shielded-input-without-anchor"), "step {si} spends notes but has no anchor height");
                    continue;
                };
                let tainted = wd.f1.tainted[pool.idx()];
                let f1sig = |what: &str| {
                    if tainted {
                        format!("C08:{what}-after-F1-truncation:{}", pool.name())
                    } else {
                        format!("C08:{kind}:{what}:{}", pool.name())
                    }
                };
                if nv.height > a {
                    bad!(format!("C08:{kind}:input-mined-above-anchor:{}", pool.name()), "step {si}: note {} mined at {} above the anchor {a}", ik.short(), nv.height);
                    continue;
                }
                let pos = u64::from(n.note_commitment_tree_position());
                if pos != nv.position {
                    bad!(format!("C08:{kind}:input-position-wrong:{}", pool.name()), "step {si}: note {} position {pos} per proposal, {} on chain", ik.short(), nv.position);
                    continue;
                }
                if !(a == wd.sim.base_height() || wd.sim.blocks.contains_key(&a)) {
                    bad!(format!("C08:{kind}:anchor-not-on-chain"), "step {si}: anchor {a} is not a height of the current chain");
                    continue;
                }
                shielded_idx += 1;
                if (shielded_idx - 1) % stride != 0 {
                    r.count("witness_checks_skipped_by_cap", 1);
                    continue;
                }
                let t_w = std::time::Instant::now();
                let wit = wd.witness(pool, pos, a);
                r.count("us_witness", t_w.elapsed().as_micros() as u64);
                match wit {
                    WitRes::Path(path) => {
                        r.count("witness_verifications", 1);
                        let want = *roots.entry((pool.idx(), a)).or_insert_with(|| wd.sim.root_at(pool, a));
                        let got = verify_path(pool, nv.cm, pos, &path);
                        if got != Some(want) {
                            bad!(f1sig("witness-invalid"), "step {si}: note {} at position {pos}: wallet path at anchor {a} hashes to {:?}, chain root {}", ik.short(), got.map(hex::encode), hex::encode(want));
                        }
                    }
                    WitRes::None => {
                        r.count("witness_unavailable", 1);
                        bad!(f1sig("input-not-witnessable-at-anchor"), "step {si}: note {} at position {pos}: no witness at anchor {a} (no checkpoint / position not in tree)", ik.short());
                    }
                    WitRes::Err(e) => {
                        r.count("witness_unavailable", 1);
                        bad!(f1sig("input-not-witnessable-at-anchor"), "step {si}: note {} at position {pos}: witness at anchor {a} failed: {e}", ik.short());
                    }
                }
            }
        }
        for t in step.transparent_inputs() {
            let key: (TxIdBytes, u32) = (*t.outpoint().hash(), t.outpoint().n());
            let ik = InKey::Coin(key.0, key.1);
            ins.push(ik);
            r.count("inputs_checked", 1);
            r.count("inputs_checked_transparent", 1);
            let val = u64::from(t.txout().value());
            in_total += val as u128;
            if !seen.insert(ik) {
                bad!(format!("C08:{kind}:input-selected-twice"), "step {si}: coin {} selected twice", ik.short());
                continue;
            }
            let Some(cv) = v.coins.get(&key).cloned() else {
                bad!(format!("C08:{kind}:input-unknown-coin"), "step {si}: coin {} was never given to the wallet", ik.short());
                continue;
            };
            if cv.account != q.account {
                bad!(format!("C08:{kind}:input-of-other-account:transparent"), "step {si}: coin {} belongs to account {}, requested {}", ik.short(), cv.account, q.account);
            }
            if q.kind == Kind::Shielding && !q.from_addrs.contains(&cv.addr) {
                bad!(format!("C08:{kind}:input-of-unrequested-address"), "step {si}: coin {} sits on an address that was not requested", ik.short());
            }
            if cv.value != val {
                bad!(format!("C08:{kind}:input-value-wrong:transparent"), "step {si}: coin {} value {} per proposal, {} per ground truth", ik.short(), val, cv.value);
            }
            if cv.spent_mined {
                bad!(format!("C08:{kind}:input-spent-in-scanned-block:transparent"), "step {si}: coin {} is spent by a mined transaction", ik.short());
            }
            if cv.spent_pending {
                bad!(format!("C08:{kind}:input-spent-by-unexpired-pending-tx:transparent"), "step {si}: coin {} (value {}) is spent by a stored pending transaction unexpired at target {target}", ik.short(), cv.value);
            }
            if !v.coin_confirmed(&cv, &q.pol) {
                bad!(
                    format!("C08:{kind}:input-below-required-confirmations:transparent"),
                    "step {si}: coin {} mined at {:?}; target {target}; policy trusted {} untrusted {} zero-conf {}",
                    ik.short(), cv.mined, q.pol.trusted, q.pol.untrusted, q.pol.zero_conf_shielding
                );
            }
            if let Some(l) = lock_active(&cv.lock, target) {
                if !admitted.contains(&l.owner) {
                    let class = if l.by_proposal { "reuses-input-locked-by-earlier-proposal" } else { "input-locked-by-unadmitted-owner" };
                    bad!(format!("C08:{kind}:{class}"), "step {si}: coin {} is locked by owner {} until {} (target {target}); policy admits {:?}", ik.short(), l.owner, l.expiry, admitted);
                }
            }
        }
        // outputs of earlier steps consumed here
        let mut prior_seen: BTreeSet<(usize, String)> = BTreeSet::new();
        for so in step.prior_step_inputs() {
            let j = so.step_index();
            let val = match so.output_index() {
                StepOutputIndex::Payment(i) => step_payments.get(j).and_then(|m| m.get(&i).copied()),
                StepOutputIndex::Change(i) => step_change.get(j).and_then(|c| c.get(i).copied()),
            };
            if !prior_seen.insert((j, format!("{:?}", so.output_index()))) || j >= si {
                bad!(format!("C08:{kind}:prior-step-output-selected-twice"), "step {si}: prior step output {so:?} referenced twice / forward");
            }
            match val {
                Some(x) => in_total += x as u128,
                None => bad!(format!("C08:{kind}:prior-step-output-missing"), "step {si}: reference {so:?} does not exist"),
            }
        }
        // balance: inputs == payments + change + fee
        let pays: BTreeMap<usize, u64> = step
            .transaction_request()
            .payments()
            .iter()
            .map(|(i, pm)| (*i, pm.amount().map(u64::from).unwrap_or(0)))
            .collect();
        let change: Vec<u64> = step.balance().proposed_change().iter().map(|c| u64::from(c.value())).collect();
        let fee = u64::from(step.balance().fee_required());
        let pay_total: u128 = pays.values().map(|x| *x as u128).sum();
        let out_total: u128 = pay_total + change.iter().map(|x| *x as u128).sum::<u128>() + fee as u128;
        r.count("step_balances_checked", 1);
        if in_total != out_total {
            bad!(format!("C08:{kind}:step-does-not-balance"), "step {si}: inputs {in_total} != payments {pay_total} + change {:?} + fee {fee}", change);
        }
        pay_total_all += pay_total;
        // a payment consumed by a later step is not a payment to the requested recipient
        step_payments.push(pays);
        step_change.push(change);
        out.inputs.push(ins);
    }
    if p.steps().len() > 1 {
        r.count("multi_step_proposals", 1);
    }
    // the request's payments are all made (each once), with the requested amounts
    if matches!(q.kind, Kind::Standard | Kind::Transfer) {
        let want = q.total() as u128;
        if pay_total_all != want {
            bad!(format!("C08:{kind}:payments-differ-from-request"), "payments over all steps {pay_total_all} != requested {want}");
        }
        if q.total() > upper {
            bad!(format!("C08:{kind}:proposal-for-request-above-spendable-funds"), "request {} exceeds the upper bound {upper} of spendable funds under the policy, yet a proposal was returned", q.total());
        }
    }
    if q.kind == Kind::Shielding && q.threshold > upper {
        bad!(format!("C08:{kind}:proposal-for-request-above-spendable-funds"), "shielding threshold {} exceeds the upper bound {upper} of spendable coins, yet a proposal was returned", q.threshold);
    }
    out
}

/// The proposal type's own double-spend guards, exercised on material the wallet produced: a
/// proposal in which two steps name the same on-chain note or coin, or the same output of an
/// earlier step, must be refused both by the constructor (`Proposal::multi_step`) and by the
/// protobuf decoding path that rebuilds a proposal from the wallet database
/// (`try_into_standard_proposal`); moving a consuming step in front of its source must be refused too.
pub fn constructor_guards(wd: &mut World, r: &mut Reporter, q: &Req, p: &crate::req::NoteProposal) {
    use nonempty::NonEmpty;
    use zcash_client_backend::proposal::Proposal;
    let steps: Vec<_> = p.steps().iter().cloned().collect();
    let on_chain = |s: &zcash_client_backend::proposal::Step<_>| !s.transparent_inputs().is_empty() || s.shielded_inputs().map_or(false, |i| !i.notes().is_empty());
    let mk = |v: Vec<zcash_client_backend::proposal::Step<_>>| Proposal::multi_step(p.fee_rule().clone(), p.min_target_height(), p.confirmations_policy(), NonEmpty::from_vec(v).unwrap());
    // (1) a step that spends on-chain inputs, appended once more
    if let Some(dup) = steps.iter().find(|s| on_chain(s)).cloned() {
        let mut v = steps.clone();
        v.push(dup);
        r.count("constructor_guard_chain_double_spend_probes", 1);
        match vh_common::guard(|| mk(v.clone())) {
            Ok(Err(_)) => {}
            Ok(Ok(_)) => viol(wd, r, Some(q), "C08:multi_step:accepts-on-chain-input-named-by-two-steps", format!("Proposal::multi_step accepted {} steps of which the last repeats an earlier step's on-chain inputs", v.len())),
            Err(pn) => viol(wd, r, Some(q), &format!("C08:multi_step:panic:{}", vh_common::panic_class(&pn)), pn),
        }
        // the same through the protobuf form, decoded against the wallet database
        let mut proto = zcash_client_backend::proto::proposal::Proposal::from_standard_proposal(p);
        if let Some(ps) = proto.steps.iter().find(|s| s.inputs.iter().any(|i| matches!(i.value, Some(zcash_client_backend::proto::proposal::proposed_input::Value::ReceivedOutput(_))))).cloned() {
            proto.steps.push(ps);
            r.count("constructor_guard_proto_double_spend_probes", 1);
            let net = wd.sim.net;
            match vh_common::guard(|| proto.try_into_standard_proposal(&net, wd.w.db.db()).map(|_| ()).map_err(|e| format!("{e:?}"))) {
                Ok(Err(_)) => {}
                Ok(Ok(())) => viol(wd, r, Some(q), "C08:proposal-decoding:accepts-on-chain-input-named-by-two-steps", "try_into_standard_proposal rebuilt a proposal whose last step repeats an earlier step's on-chain inputs".into()),
                Err(pn) => viol(wd, r, Some(q), &format!("C08:proposal-decoding:panic:{}", vh_common::panic_class(&pn)), pn),
            }
        }
    }
    // (2) a step consuming an earlier step's output, appended once more / moved to the front
    if let Some((i, cons)) = steps.iter().enumerate().find(|(_, s)| !s.prior_step_inputs().is_empty()).map(|(i, s)| (i, s.clone())) {
        let mut v = steps.clone();
        v.push(cons.clone());
        r.count("constructor_guard_step_double_spend_probes", 1);
        match vh_common::guard(|| mk(v.clone())) {
            Ok(Err(_)) => {}
            Ok(Ok(_)) => viol(wd, r, Some(q), "C08:multi_step:accepts-prior-step-output-consumed-twice", format!("Proposal::multi_step accepted a proposal in which step {i}'s reference to an earlier output is repeated by an appended step")),
            Err(pn) => viol(wd, r, Some(q), &format!("C08:multi_step:panic:{}", vh_common::panic_class(&pn)), pn),
        }
        let mut v = steps.clone();
        let c = v.remove(i);
        v.insert(0, c);
        r.count("constructor_guard_forward_reference_probes", 1);
        match vh_common::guard(|| mk(v.clone())) {
            Ok(Err(_)) => {}
            Ok(Ok(_)) => viol(wd, r, Some(q), "C08:multi_step:accepts-forward-reference", format!("Proposal::multi_step accepted step {i} moved in front of the step whose output it consumes")),
            Err(pn) => viol(wd, r, Some(q), &format!("C08:multi_step:panic:{}", vh_common::panic_class(&pn)), pn),
        }
    }
}

/// Records the locks a successful proposal with a lock request took.
pub fn apply_lock_request(wd: &mut World, q: &Req, target: u32, inputs: &[Vec<InKey>]) {
    if let Some((o, blocks)) = q.lock_req {
        for k in inputs.iter().flatten() {
            wd.m.locks.insert(*k, LockM { owner: o, expiry: target + blocks, by_proposal: true });
        }
    }
}

pub struct Provers {
    pub real: Option<zcash_proofs::prover::LocalTxProver>,
}

/// Builds, "proves" and stores the proposal's transactions; on success records them in the model
/// (inputs spent by a pending transaction, locks released, change/ephemeral outputs known).
pub fn create<N: std::fmt::Debug>(
    wd: &mut World,
    r: &mut Reporter,
    q: &Req,
    p: &Proposal<zcash_client_backend::fees::StandardFeeRule, N>,
    inputs: &[Vec<InKey>],
    expiry: Option<u32>,
    provers: &mut Provers,
    use_real: bool,
) -> bool {
    let net = wd.sim.net;
    let usk = wd.sim.accounts[q.account].usk.clone();
    let keys = SpendingKeys::from_unified_spending_key(usk);
    let exp = expiry.map(BlockHeight::from_u32);
    let t0 = std::time::Instant::now();
    let res = if use_real {
        if provers.real.is_none() {
            provers.real = Some(zcash_proofs::prover::LocalTxProver::bundled());
        }
        let pr = provers.real.as_ref().unwrap();
        let db = &mut wd.w.db;
        guard(|| {
            create_proposed_transactions::<_, _, Infallible, _, Infallible, _>(db, &net, pr, pr, &keys, OvkPolicy::Sender, p, exp)
                .map_err(|e| format!("{e:?}"))
        })
    } else {
        let db = &mut wd.w.db;
        guard(|| {
            create_proposed_transactions::<_, _, Infallible, _, Infallible, _>(
                db,
                &net,
                &sapling::prover::mock::MockSpendProver,
                &sapling::prover::mock::MockOutputProver,
                &keys,
                OvkPolicy::Sender,
                p,
                exp,
            )
            .map_err(|e| format!("{e:?}"))
        })
    };
    r.count("create_ms_total", t0.elapsed().as_millis() as u64);
    if std::env::var("VH_DEBUG").is_ok() {
        let comp: Vec<String> = p.steps().iter().map(|s| format!("in={:?} pay={:?} change={:?}", inputs.iter().flatten().map(|k| k.short()[..4].to_string()).collect::<Vec<_>>(), s.payment_pools(), s.balance().proposed_change().iter().map(|c| c.output_pool()).collect::<Vec<_>>())).collect();
        eprintln!("CREATE real={use_real} {} ms: {:?} ok={}", t0.elapsed().as_millis(), comp, matches!(res, Ok(Ok(_))));
    }
    let txids = match res {
        Err(pn) => {
            r.count("pending_create_panicked", 1);
            r.note(format!("create_proposed_transactions panicked: {}", vh_common::panic_class(&pn)));
            wd.log(json!({"op":"create","ok":false,"panic":pn}));
            return false;
        }
        Ok(Err(e)) => {
            r.count(&format!("pending_create_failed:{}", crate::req::err_class(&e)), 1);
            wd.log(json!({"op":"create","ok":false,"err":e.chars().take(160).collect::<String>()}));
            return false;
        }
        Ok(Ok(t)) => t,
    };
    r.count(if use_real { "pending_created_real_prover" } else { "pending_created_mock_sapling_prover" }, 1);
    let txids: Vec<TxId> = txids.into_iter().collect();
    for (i, txid) in txids.iter().enumerate() {
        let tb: TxIdBytes = *txid.as_ref();
        let Ok(Some(tx)) = wd.w.db.get_transaction(*txid) else {
            r.inconclusive("created transaction not retrievable");
            continue;
        };
        let expiry_h = u32::from(tx.expiry_height());
        let mut ins: Vec<InKey> = inputs.get(i).cloned().unwrap_or_default();
        // transparent prevouts (covers ephemeral outputs of an earlier step)
        if let Some(tb_) = tx.transparent_bundle() {
            for vin in &tb_.vin {
                let k = InKey::Coin(*vin.prevout().hash(), vin.prevout().n());
                if !ins.contains(&k) {
                    ins.push(k);
                }
            }
            for (n, o) in tb_.vout.iter().enumerate() {
                if let Some(addr) = o.recipient_address() {
                    for a in 0..2 {
                        if let Ok(Some(_)) = wd.w.db.get_transparent_address_metadata(wd.w.accounts[a], &addr) {
                            wd.m.coins.insert(
                                (tb, n as u32),
                                CoinM { account: a, addr, value: u64::from(o.value()), put_height: None, from_wallet_tx: true },
                            );
                        }
                    }
                }
            }
        }
        let coin_ins: Vec<(TxIdBytes, u32)> = ins
            .iter()
            .filter_map(|k| match k {
                InKey::Coin(t, n) => Some((*t, *n)),
                _ => None,
            })
            .collect();
        if !coin_ins.is_empty() {
            // the user trusts SOME of the transactions whose coins are being shielded (never decided
            // by the model: it reads the marks back from the wallet)
            if wd.cfg.trust_marks && coin_ins.len() >= 2 {
                use rand::{seq::SliceRandom, Rng};
                use zcash_client_backend::data_api::WalletWrite;
                let k = wd.rng.gen_range(1..coin_ins.len());
                let mut picks = coin_ins.clone();
                picks.shuffle(&mut wd.rng);
                for (t, _) in picks.into_iter().take(k) {
                    if wd.w.db.set_tx_trust(zcash_protocol::TxId::from_bytes(t), true).is_ok() {
                        r.count("trust_marks_on_part_of_a_shielding_transactions_inputs", 1);
                    }
                }
            }
            wd.m.shield_inputs.insert(tb, coin_ins);
            wd.mine_pending_soon = true;
            r.count("pending_transactions_spending_coins", 1);
        }
        let note_ins = crate::world::inkeys_notes(&ins);
        let built = wd.built_from_tx(&tx, &note_ins);
        if built.is_none() && !note_ins.is_empty() {
            r.count("pending_not_minable", 1);
        }
        for k in &ins {
            wd.m.locks.remove(k);
        }
        wd.m.wallet_txids.insert(tb);
        wd.log(json!({"op":"create","ok":true,"txid":hex::encode(&tb[..4]),"expiry":expiry_h,"inputs":ins.iter().map(|k| k.short()).collect::<Vec<_>>()}));
        wd.m.pend.push(PendingM {
            txid: tb,
            account: q.account,
            inputs: ins,
            expiry: expiry_h,
            built,
            mined_uid: None,
            ever_mined: false,
            counted_expired: false,
        });
        r.count("pending_transactions_stored", 1);
    }
    wd.creates_done += 1;
    true
}

/// Does creating this proposal's transactions need Orchard-family (halo2) proofs?
pub fn needs_orchard_proofs<F, N>(p: &Proposal<F, N>) -> bool {
    use zcash_protocol::{PoolType, ShieldedPool};
    let of = |pt: PoolType| matches!(pt, PoolType::Shielded(ShieldedPool::Orchard) | PoolType::Shielded(ShieldedPool::Ironwood));
    p.steps().iter().any(|s| {
        s.shielded_inputs().map_or(false, |si| si.notes().iter().any(|n| n.note().pool() != ShieldedPool::Sapling))
            || s.payment_pools().values().any(|pt| of(*pt))
            || s.balance().proposed_change().iter().any(|c| of(c.output_pool()))
    })
}

/// Fallback for proposals whose inputs are all Orchard / Ironwood notes (real halo2 proving is far
/// too slow for more than a handful): the harness builds the transaction itself with the orchard
/// builder (real nullifiers, real witnesses from the wallet's tree, one output back to the account's
/// internal address), attaches dummy proof / signatures, and stores it through
/// `WalletWrite::store_transactions_to_be_sent`. The wallet never verifies proofs of its own
/// transactions, so for the selection predicates this is a stored pending transaction like any other.
pub fn fabricate(wd: &mut World, r: &mut Reporter, q: &Req, p: &crate::req::NoteProposal, inputs: &[Vec<InKey>], expiry: Option<u32>) -> bool {
    use orchard::primitives::redpallas::{Binding, Signature, SpendAuth};
    use zcash_client_backend::data_api::{SentTransaction, WalletWrite};
    use zcash_client_backend::wallet::Note;
    use zcash_primitives::transaction::{Authorized, TransactionData, TxVersion};
    use zcash_protocol::consensus::BranchId;
    use zcash_protocol::value::{ZatBalance, Zatoshis};

    if p.steps().len() != 1 {
        return false;
    }
    let step = p.steps().first();
    let Some(si) = step.shielded_inputs() else { return false };
    let Some(anchor) = step.anchor_height().map(u32::from) else { return false };
    if !step.transparent_inputs().is_empty() || si.notes().iter().any(|n| matches!(n.note(), Note::Sapling(_))) {
        return false;
    }
    let target = u32::from(p.min_target_height());
    let branch = BranchId::for_height(&wd.sim.net, BlockHeight::from_u32(target));
    let fvk = wd.sim.accounts[q.account].ofvk.clone();
    let mut bundles: [Option<orchard::Bundle<orchard::bundle::Authorized, ZatBalance>>; 2] = [None, None];
    for (bi, pool) in [vh_wallet::sim::Pool::Orchard, vh_wallet::sim::Pool::Ironwood].into_iter().enumerate() {
        let notes: Vec<_> = si.notes().iter().filter(|n| pool_of(n.note().pool()) == pool).collect();
        if notes.is_empty() {
            continue;
        }
        let version = if pool == vh_wallet::sim::Pool::Ironwood {
            orchard::bundle::BundleVersion::ironwood_v3()
        } else {
            match zcash_primitives::transaction::components::orchard::bundle_version_for_branch(branch, orchard::ValuePool::Orchard) {
                Some(v) => v,
                None => return false,
            }
        };
        let Some(anchor_v) = Option::from(orchard::Anchor::from_bytes(wd.sim.root_at(pool, anchor))) else { return false };
        let Ok(mut b) = orchard::builder::Builder::new(orchard::builder::BundleType::DEFAULT, version, version.default_flags(), anchor_v) else {
            return false;
        };
        let mut total = 0u64;
        for n in notes {
            let Note::Orchard { note, .. } = n.note() else { return false };
            let pos = u64::from(n.note_commitment_tree_position());
            let WitRes::Path(path) = wd.witness(pool, pos, anchor) else { return false };
            let auth: Option<Vec<orchard::tree::MerkleHashOrchard>> =
                path.iter().map(|x| Option::from(orchard::tree::MerkleHashOrchard::from_bytes(x))).collect();
            let Some(auth) = auth else { return false };
            let Ok(auth): Result<[orchard::tree::MerkleHashOrchard; 32], _> = auth.try_into() else { return false };
            let mp = orchard::tree::MerklePath::from_parts(pos as u32, auth);
            if b.add_spend(fvk.clone(), *note, mp).is_err() {
                r.count("fabricate_add_spend_failed", 1);
                return false;
            }
            total += note.value().inner();
        }
        let fee = 15_000u64.min(total);
        let to = fvk.address_at(0u32, zip32::Scope::Internal);
        if b.add_change_output(fvk.clone(), None, to, orchard::value::NoteValue::from_raw(total - fee), [0u8; 512]).is_err() {
            r.count("fabricate_add_output_failed", 1);
            return false;
        }
        let built = match b.build::<ZatBalance>(&mut wd.rng) {
            Ok(Some((bundle, _))) => bundle,
            _ => {
                r.count("fabricate_build_failed", 1);
                return false;
            }
        };
        let authd = built.map_authorization(
            &mut (),
            |_, _, _| Signature::<SpendAuth>::from([0u8; 64]),
            |_, _| orchard::bundle::Authorized::from_parts(orchard::Proof::new(vec![0u8; 64]), Signature::<Binding>::from([0u8; 64])),
        );
        bundles[bi] = Some(authd);
    }
    let expiry_h = BlockHeight::from_u32(expiry.unwrap_or(target + 40));
    let [ob, ib] = bundles;
    let v6 = TxVersion::suggested_for_branch(branch) == TxVersion::V6;
    let txd: TransactionData<Authorized> = if v6 {
        TransactionData::from_parts_v6(branch, 0, expiry_h, None, None, ob, ib)
    } else {
        if ib.is_some() {
            return false;
        }
        TransactionData::from_parts(TxVersion::V5, branch, 0, expiry_h, None, None, None, ob)
    };
    let tx = match guard(|| txd.freeze()) {
        Ok(Ok(t)) => t,
        _ => {
            r.count("fabricate_freeze_failed", 1);
            return false;
        }
    };
    let acct = wd.w.accounts[q.account];
    let created = time::OffsetDateTime::now_utc();
    let sent = SentTransaction::new(&tx, created, p.min_target_height(), acct, &[], Zatoshis::const_from_u64(15_000), &[]);
    let res = { let db = &mut wd.w.db; guard(|| db.store_transactions_to_be_sent(&[sent]).map_err(|e| format!("{e:?}"))) };
    match res {
        Ok(Ok(())) => {}
        Ok(Err(e)) => {
            r.count(&format!("fabricate_store_failed:{}", crate::req::err_class(&e)), 1);
            return false;
        }
        Err(pn) => {
            r.count("fabricate_store_panicked", 1);
            r.note(format!("store_transactions_to_be_sent panicked: {}", vh_common::panic_class(&pn)));
            return false;
        }
    }
    let tb: TxIdBytes = *tx.txid().as_ref();
    let ins: Vec<InKey> = inputs.first().cloned().unwrap_or_default();
    let note_ins = crate::world::inkeys_notes(&ins);
    let built = wd.built_from_tx(&tx, &note_ins);
    if built.is_none() {
        r.count("pending_not_minable", 1);
    }
    for k in &ins {
        wd.m.locks.remove(k);
    }
    wd.m.wallet_txids.insert(tb);
    let eh = u32::from(tx.expiry_height());
    wd.log(json!({"op":"store_fabricated","txid":hex::encode(&tb[..4]),"expiry":eh,"inputs":ins.iter().map(|k| k.short()).collect::<Vec<_>>()}));
    wd.m.pend.push(PendingM { txid: tb, account: q.account, inputs: ins, expiry: eh, built, mined_uid: None, ever_mined: false, counted_expired: false });
    r.count("pending_transactions_stored", 1);
    r.count("pending_stored_fabricated_orchard_family", 1);
    wd.creates_done += 1;
    true
}
