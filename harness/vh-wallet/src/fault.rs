//! SQLite fault / interrupt / commit instrumentation on a connection the harness owns.
//! No change to /repo is needed: everything is installed through rusqlite on the very
//! connection the wallet uses.
//!
//! * write-site faults: a TEMP `BEFORE INSERT/UPDATE/DELETE` trigger on every table of `main`
//!   calls the UDF `verif_fault(site)`, which returns true on the armed k-th call ->
//!   `RAISE(ABORT)`: the statement fails, the enclosing transaction stays open - exactly the
//!   situation in which a swallowed error or a write outside the transaction becomes visible.
//! * VM-step faults: `progress_handler(1)` interrupts the k-th virtual-machine step of any
//!   statement, reads included.
//! * commit counting: `commit_hook`.
//! * a user callback every N VM steps (snapshot probes from a second connection).

use std::sync::atomic::{AtomicBool, AtomicI64, Ordering};
use std::sync::{Arc, Mutex};

use rusqlite::{functions::FunctionFlags, Connection};

#[derive(Default)]
pub struct InjState {
    /// k-th write-site call to fail (1-based); 0 = never
    pub arm_write: AtomicI64,
    pub write_calls: AtomicI64,
    pub write_fired: AtomicBool,
    /// k-th VM step to interrupt (1-based); 0 = never
    pub arm_step: AtomicI64,
    pub steps: AtomicI64,
    pub step_fired: AtomicBool,
    pub commits: AtomicI64,
    pub rollbacks: AtomicI64,
    pub record_sites: AtomicBool,
    pub sites: Mutex<Vec<String>>,
    /// abort the whole process (real crash) instead of interrupting, at the armed step
    pub crash_at_step: AtomicBool,
    /// abort the process inside the commit hook of the k-th commit (before it completes); 0 = never
    pub crash_at_commit: AtomicI64,
    /// optional probe, called every `probe_every` steps
    pub probe_every: AtomicI64,
    pub probe: Mutex<Option<Box<dyn FnMut(i64) + Send>>>,
}

#[derive(Clone)]
pub struct Injector(pub Arc<InjState>);

pub const FAULT_MSG: &str = "verif-injected-fault";

impl Injector {
    /// Installs UDF, triggers, hooks on `conn`. Call after the schema exists.
    pub fn install(conn: &Connection) -> rusqlite::Result<Self> {
        let st = Arc::new(InjState::default());
        let s2 = st.clone();
        conn.create_scalar_function(
            "verif_fault",
            1,
            FunctionFlags::SQLITE_UTF8,
            move |ctx| {
                let n = s2.write_calls.fetch_add(1, Ordering::SeqCst) + 1;
                if s2.record_sites.load(Ordering::SeqCst) {
                    let site: String = ctx.get(0)?;
                    s2.sites.lock().unwrap().push(site);
                }
                let armed = s2.arm_write.load(Ordering::SeqCst);
                if armed != 0 && n == armed {
                    s2.write_fired.store(true, Ordering::SeqCst);
                    Ok(true)
                } else {
                    Ok(false)
                }
            },
        )?;
        for t in crate::dump::table_names(conn)? {
            for op in ["INSERT", "UPDATE", "DELETE"] {
                conn.execute_batch(&format!(
                    "CREATE TEMP TRIGGER IF NOT EXISTS \"verif_{t}_{op}\" BEFORE {op} ON main.\"{t}\" BEGIN \
                     SELECT RAISE(ABORT, '{FAULT_MSG}') WHERE verif_fault('{t}:{op}'); END;"
                ))?;
            }
        }
        let s3 = st.clone();
        conn.commit_hook(Some(move || {
            let n = s3.commits.fetch_add(1, Ordering::SeqCst) + 1;
            let c = s3.crash_at_commit.load(Ordering::SeqCst);
            if c != 0 && n == c {
                std::process::abort();
            }
            false
        }));
        let s4 = st.clone();
        conn.rollback_hook(Some(move || {
            s4.rollbacks.fetch_add(1, Ordering::SeqCst);
        }));
        let s5 = st.clone();
        // Raw handle, only used to ask SQLite whether a transaction is open (see below).
        let raw = unsafe { conn.handle() } as usize;
        let prev_autocommit = std::sync::atomic::AtomicBool::new(true);
        conn.progress_handler(
            1,
            Some(move || {
                let n = s5.steps.fetch_add(1, Ordering::SeqCst) + 1;
                // An interrupt delivered to `BEGIN` after its AutoCommit opcode has run makes
                // `BEGIN` report an error although the transaction is open; rusqlite then has no
                // Transaction object that could roll it back. That window exists only under
                // `sqlite3_interrupt`, which the wallet never uses, so no fault is injected in it:
                // the armed step is deferred to the next handler call.
                let autocommit = unsafe { rusqlite::ffi::sqlite3_get_autocommit(raw as *mut rusqlite::ffi::sqlite3) } != 0;
                let prev = prev_autocommit.swap(autocommit, Ordering::SeqCst);
                let begin_window = !autocommit && prev;
                let pe = s5.probe_every.load(Ordering::SeqCst);
                if pe > 0 && n % pe == 0 {
                    if let Some(p) = s5.probe.lock().unwrap().as_mut() {
                        p(n);
                    }
                }
                let armed = s5.arm_step.load(Ordering::SeqCst);
                if armed != 0 && n >= armed && !begin_window && !s5.step_fired.load(Ordering::SeqCst) {
                    if s5.crash_at_step.load(Ordering::SeqCst) {
                        std::process::abort();
                    }
                    s5.step_fired.store(true, Ordering::SeqCst);
                    true
                } else {
                    false
                }
            }),
        );
        Ok(Injector(st))
    }

    pub fn reset(&self) {
        let s = &self.0;
        s.arm_write.store(0, Ordering::SeqCst);
        s.write_calls.store(0, Ordering::SeqCst);
        s.write_fired.store(false, Ordering::SeqCst);
        s.arm_step.store(0, Ordering::SeqCst);
        s.steps.store(0, Ordering::SeqCst);
        s.step_fired.store(false, Ordering::SeqCst);
        s.commits.store(0, Ordering::SeqCst);
        s.rollbacks.store(0, Ordering::SeqCst);
        s.record_sites.store(false, Ordering::SeqCst);
        s.sites.lock().unwrap().clear();
        s.probe_every.store(0, Ordering::SeqCst);
    }

    pub fn arm_write(&self, k: i64) {
        self.reset();
        self.0.arm_write.store(k, Ordering::SeqCst);
    }

    pub fn arm_step(&self, k: i64) {
        self.reset();
        self.0.arm_step.store(k, Ordering::SeqCst);
    }

    pub fn record(&self) {
        self.reset();
        self.0.record_sites.store(true, Ordering::SeqCst);
    }

    pub fn set_probe(&self, every: i64, f: Box<dyn FnMut(i64) + Send>) {
        *self.0.probe.lock().unwrap() = Some(f);
        self.0.probe_every.store(every, Ordering::SeqCst);
    }

    pub fn clear_probe(&self) {
        self.0.probe_every.store(0, Ordering::SeqCst);
        *self.0.probe.lock().unwrap() = None;
    }

    pub fn write_calls(&self) -> i64 {
        self.0.write_calls.load(Ordering::SeqCst)
    }
    pub fn steps(&self) -> i64 {
        self.0.steps.load(Ordering::SeqCst)
    }
    pub fn commits(&self) -> i64 {
        self.0.commits.load(Ordering::SeqCst)
    }
    pub fn fired(&self) -> bool {
        self.0.write_fired.load(Ordering::SeqCst) || self.0.step_fired.load(Ordering::SeqCst)
    }
    pub fn sites(&self) -> Vec<String> {
        self.0.sites.lock().unwrap().clone()
    }
}

/// Copies the whole `main` database of `src` into `dst` (SQLite online backup API).
pub fn copy_db(src: &Connection, dst: &mut Connection) -> rusqlite::Result<()> {
    let b = rusqlite::backup::Backup::new(src, dst)?;
    b.run_to_completion(1_000_000, std::time::Duration::from_millis(0), None)
}
