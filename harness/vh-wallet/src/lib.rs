//! Shared machinery of the wallet-level checks (C01, C02, C05, C06, C08, C15b).
pub mod dump;
pub mod fault;
pub mod hist;
pub mod hooks;
pub mod ledger;
pub mod sim;
pub mod wallet;
pub use vh_common;
