//! Canonical dump of a wallet database: every table of `main`, rows sorted, values rendered
//! losslessly. Used as the state oracle of C02 / C05 ("database exactly as it was").

use std::collections::BTreeMap;

use rusqlite::{types::ValueRef, Connection};

pub type Dump = BTreeMap<String, Vec<Vec<String>>>;

fn render(v: ValueRef<'_>) -> String {
    match v {
        ValueRef::Null => "NULL".into(),
        ValueRef::Integer(i) => format!("i{i}"),
        ValueRef::Real(f) => format!("f{f}"),
        ValueRef::Text(t) => format!("t{}", String::from_utf8_lossy(t)),
        ValueRef::Blob(b) => format!("x{}", hex::encode(b)),
    }
}

/// Columns whose value is a freshly drawn identifier / wall-clock time (normalised away when
/// comparing "same state up to fresh identifiers").
pub const FRESH_COLUMNS: &[(&str, &str)] = &[
    ("accounts", "uuid"),
    ("transactions", "created"),
    // "the migration's stable identity, distinct per record": drawn when the record is created
    ("orchard_ironwood_migrations", "uuid"),
];

pub fn table_names(conn: &Connection) -> rusqlite::Result<Vec<String>> {
    let mut st = conn.prepare(
        "SELECT name FROM main.sqlite_master WHERE type = 'table' AND name NOT LIKE 'sqlite_%' ORDER BY name",
    )?;
    let rows = st.query_map([], |r| r.get::<_, String>(0))?;
    rows.collect()
}

/// `addresses.id` is assigned in the order in which gap-limit addresses happen to be generated
/// across accounts (a HashMap iteration order), so two equivalent runs can number the same
/// addresses differently. Under normalisation the rowid is replaced by the address's own identity
/// (account, key scope, diversifier index) wherever it appears.
fn address_identities(conn: &Connection) -> rusqlite::Result<BTreeMap<i64, String>> {
    let mut m = BTreeMap::new();
    let mut st = match conn.prepare("SELECT id, account_id, key_scope, hex(diversifier_index_be) FROM main.addresses") {
        Ok(st) => st,
        Err(_) => return Ok(m),
    };
    let mut rows = st.query([])?;
    while let Some(r) = rows.next()? {
        let id: i64 = r.get(0)?;
        let acct: i64 = r.get(1)?;
        let scope: i64 = r.get(2)?;
        let di: String = r.get(3)?;
        m.insert(id, format!("addr({acct},{scope},{di})"));
    }
    Ok(m)
}

pub fn dump(conn: &Connection, normalise_fresh: bool) -> rusqlite::Result<Dump> {
    let mut out = Dump::new();
    let addr_ids = if normalise_fresh { address_identities(conn)? } else { BTreeMap::new() };
    for t in table_names(conn)? {
        let mut st = conn.prepare(&format!("SELECT * FROM main.\"{t}\""))?;
        let cols: Vec<String> = st.column_names().iter().map(|c| c.to_string()).collect();
        let n = cols.len();
        let mut rows = st.query([])?;
        let mut v = vec![];
        while let Some(row) = rows.next()? {
            let mut r = Vec::with_capacity(n);
            for i in 0..n {
                if normalise_fresh && FRESH_COLUMNS.iter().any(|(tt, c)| *tt == t && *c == cols[i]) {
                    r.push("<fresh>".to_string());
                } else if normalise_fresh && ((t == "addresses" && cols[i] == "id") || cols[i] == "address_id") {
                    match row.get_ref(i)? {
                        ValueRef::Integer(id) => r.push(addr_ids.get(&id).cloned().unwrap_or_else(|| format!("addr?{id}"))),
                        other => r.push(render(other)),
                    }
                } else {
                    r.push(render(row.get_ref(i)?));
                }
            }
            v.push(r);
        }
        v.sort();
        out.insert(t, v);
    }
    Ok(out)
}

/// Human-readable difference (first few rows per table).
pub fn diff(a: &Dump, b: &Dump) -> String {
    let mut s = String::new();
    let keys: std::collections::BTreeSet<&String> = a.keys().chain(b.keys()).collect();
    for k in keys {
        let (ra, rb) = (a.get(k), b.get(k));
        if ra == rb {
            continue;
        }
        let empty = vec![];
        let (ra, rb) = (ra.unwrap_or(&empty), rb.unwrap_or(&empty));
        let only_a: Vec<_> = ra.iter().filter(|x| !rb.contains(x)).take(2).collect();
        let only_b: Vec<_> = rb.iter().filter(|x| !ra.contains(x)).take(2).collect();
        s.push_str(&format!(
            "table {k}: {} vs {} rows; only-left {:?}; only-right {:?}\n",
            ra.len(),
            rb.len(),
            only_a,
            only_b
        ));
        if s.len() > 1500 {
            break;
        }
    }
    s
}

pub fn tables_changed(a: &Dump, b: &Dump) -> Vec<String> {
    let keys: std::collections::BTreeSet<&String> = a.keys().chain(b.keys()).collect();
    keys.into_iter().filter(|k| a.get(*k) != b.get(*k)).cloned().collect()
}
