//! The wallet under test (`zcash_client_sqlite::WalletDb` through `TestDb`) plus the
//! harness-side bookkeeping of what it has been told, which the reference models need.

use std::collections::{BTreeMap, BTreeSet};
use std::num::NonZeroU32;

use secrecy::Secret;
use zcash_client_backend::data_api::{
    anchor_retention::AnchorRetentionInterval,
    chain::{scan_cached_blocks, ScanSummary},
    testing::DataStoreFactory,
    wallet::ConfirmationsPolicy,
    Account as _, AccountBirthday, WalletRead, WalletSummary, WalletWrite,
};
use zcash_client_sqlite::{testing::db::{TestDb, TestDbFactory}, AccountUuid};
use zcash_protocol::consensus::BlockHeight;

use crate::sim::{ChainSim, MemBlockSource, TxIdBytes};

pub struct WalletUnderTest {
    pub db: TestDb,
    pub accounts: Vec<AccountUuid>,
    /// height -> uid of the block instance the wallet currently holds as scanned
    pub scanned: BTreeMap<u32, u64>,
    /// txid -> lowest height at which the wallet has ever observed it in a scanned block
    pub observed: BTreeMap<TxIdBytes, u32>,
    /// every block uid the wallet has ever scanned (incl. since-truncated ones)
    pub ever_scanned: BTreeSet<u64>,
    /// highest height passed to update_chain_tip since the last truncation (model input only)
    pub told_tip: Option<u32>,
    pub file_backed: bool,
}

#[derive(Clone, Copy, Debug)]
pub struct WalletConfig {
    pub file_backed: bool,
    pub retention: Option<u32>,
}

impl WalletUnderTest {
    /// Creates the wallet and one account per sim account (birthday = sim base state).
    pub fn new(sim: &ChainSim, cfg: WalletConfig) -> Self {
        let factory = if cfg.file_backed {
            TestDbFactory::file_backed()
        } else {
            TestDbFactory::default()
        };
        let retention = cfg
            .retention
            .map(|n| AnchorRetentionInterval::custom(NonZeroU32::new(n).unwrap()));
        let mut db = factory
            .new_data_store(sim.net, retention, None)
            .expect("data store");
        // A non-empty starting state: what a client restoring from a checkpoint does (and what
        // zcash_client_backend's TestBuilder does): roots of the completed subtrees, then the
        // frontier as a checkpoint at the base height.
        {
            use incrementalmerkletree::{Marking, Retention};
            use zcash_client_backend::data_api::{chain::CommitmentTreeRoot, WalletCommitmentTrees};
            let bh = sim.base.block_height();
            let root_h = |i: usize| BlockHeight::from_u32(100_001 + 10 * i as u32);
            if sim.base.final_sapling_tree().tree_size() > 0 {
                let roots: Vec<_> = sim.prior_roots[0].iter().enumerate()
                    .map(|(i, r)| CommitmentTreeRoot::from_parts(root_h(i), sapling::Node::from_bytes(*r).unwrap())).collect();
                db.put_sapling_subtree_roots(0, &roots).expect("prior sapling roots");
                db.with_sapling_tree_mut::<_, _, shardtree::error::ShardTreeError<zcash_client_sqlite::wallet::commitment_tree::Error>>(|t| {
                    t.insert_frontier(sim.base.final_sapling_tree().clone(), Retention::Checkpoint { id: bh, marking: Marking::Reference })
                }).expect("base sapling frontier");
            }
            if sim.base.final_orchard_tree().tree_size() > 0 {
                let roots: Vec<_> = sim.prior_roots[1].iter().enumerate()
                    .map(|(i, r)| CommitmentTreeRoot::from_parts(root_h(i), orchard::tree::MerkleHashOrchard::from_bytes(r).unwrap())).collect();
                db.put_orchard_subtree_roots(0, &roots).expect("prior orchard roots");
                db.with_orchard_tree_mut::<_, _, shardtree::error::ShardTreeError<zcash_client_sqlite::wallet::commitment_tree::Error>>(|t| {
                    t.insert_frontier(sim.base.final_orchard_tree().clone(), Retention::Checkpoint { id: bh, marking: Marking::Reference })
                }).expect("base orchard frontier");
            }
            if sim.base.final_ironwood_tree().tree_size() > 0 {
                let roots: Vec<_> = sim.prior_roots[2].iter().enumerate()
                    .map(|(i, r)| CommitmentTreeRoot::from_parts(root_h(i), orchard::tree::MerkleHashOrchard::from_bytes(r).unwrap())).collect();
                db.put_ironwood_subtree_roots(0, &roots).expect("prior ironwood roots");
                db.with_ironwood_tree_mut::<_, _, shardtree::error::ShardTreeError<zcash_client_sqlite::wallet::commitment_tree::Error>>(|t| {
                    t.insert_frontier(sim.base.final_ironwood_tree().clone(), Retention::Checkpoint { id: bh, marking: Marking::Reference })
                }).expect("base ironwood frontier");
            }
        }
        let birthday = AccountBirthday::from_parts(sim.base.clone(), None);
        let mut accounts = vec![];
        for (i, k) in sim.accounts.iter().enumerate() {
            let seed = Secret::new(k.seed.clone());
            let (id, usk) = db
                .create_account(&format!("acct{i}"), &seed, &birthday, None)
                .expect("create_account");
            assert_eq!(
                usk.to_unified_full_viewing_key().encode(&sim.net),
                k.ufvk.encode(&sim.net),
                "sim and wallet derive the same keys"
            );
            accounts.push(id);
        }
        WalletUnderTest {
            db,
            accounts,
            scanned: BTreeMap::new(),
            observed: BTreeMap::new(),
            ever_scanned: BTreeSet::new(),
            told_tip: None,
            file_backed: cfg.file_backed,
        }
    }

    /// Scans `[from, from+limit)` ∩ current chain with the true prior chain state.
    pub fn scan(&mut self, sim: &ChainSim, from: u32, limit: usize) -> Result<ScanSummary, String> {
        let src = MemBlockSource::new(&sim.blocks);
        self.scan_from_source(sim, &src, from, limit)
    }

    pub fn scan_from_source(
        &mut self,
        sim: &ChainSim,
        src: &MemBlockSource<'_>,
        from: u32,
        limit: usize,
    ) -> Result<ScanSummary, String> {
        let from_state = sim.state_at(from - 1);
        self.scan_from_source_with_state(sim, src, from, &from_state, limit)
    }

    /// As `scan_from_source`, with the prior chain state supplied by the caller (possibly wrong).
    pub fn scan_from_source_with_state(
        &mut self,
        sim: &ChainSim,
        src: &MemBlockSource<'_>,
        from: u32,
        from_state: &zcash_client_backend::data_api::chain::ChainState,
        limit: usize,
    ) -> Result<ScanSummary, String> {
        let r = scan_cached_blocks(
            &sim.net,
            src,
            &mut self.db,
            BlockHeight::from_u32(from),
            from_state,
            limit,
        );
        match r {
            Ok(s) => {
                let end = u32::from(s.scanned_range().end);
                for h in from..end {
                    let b = &sim.blocks[&h];
                    self.scanned.insert(h, b.uid);
                    self.ever_scanned.insert(b.uid);
                    for tx in &b.txs {
                        let e = self.observed.entry(tx.txid).or_insert(h);
                        if h < *e {
                            *e = h;
                        }
                    }
                }
                Ok(s)
            }
            Err(e) => Err(format!("{e:?}")),
        }
    }

    pub fn update_chain_tip(&mut self, h: u32) -> Result<(), String> {
        self.db
            .update_chain_tip(BlockHeight::from_u32(h))
            .map_err(|e| format!("{e:?}"))?;
        self.told_tip = Some(self.told_tip.map_or(h, |t| t.max(h)));
        Ok(())
    }

    /// Truncates; on success forgets scanned blocks above the height actually reached.
    pub fn truncate_to_height(&mut self, h: u32) -> Result<u32, String> {
        match self.db.truncate_to_height(BlockHeight::from_u32(h)) {
            Ok(actual) => {
                let a = u32::from(actual);
                self.forget_above(a);
                Ok(a)
            }
            Err(e) => Err(format!("{e:?}")),
        }
    }

    pub fn forget_above(&mut self, a: u32) {
        let gone: Vec<u32> = self.scanned.range(a + 1..).map(|(h, _)| *h).collect();
        for g in gone {
            self.scanned.remove(&g);
        }
        self.told_tip = None;
    }

    pub fn summary(&self) -> Result<Option<WalletSummary<AccountUuid>>, String> {
        self.db
            .get_wallet_summary(ConfirmationsPolicy::MIN)
            .map_err(|e| format!("{e:?}"))
    }

    pub fn chain_height(&self) -> Option<u32> {
        self.db.chain_height().ok().flatten().map(u32::from)
    }

    pub fn fully_scanned_upto(&self, sim: &ChainSim) -> bool {
        let (lo, hi) = (sim.base_height() + 1, sim.tip_height());
        (lo..=hi).all(|h| self.scanned.get(&h) == Some(&sim.blocks[&h].uid))
    }

    pub fn account_ids(&self) -> Vec<AccountUuid> {
        self.db
            .get_account_ids()
            .unwrap()
    }

    pub fn account_birthday(&self, i: usize) -> u32 {
        u32::from(
            self.db
                .get_account(self.accounts[i])
                .unwrap()
                .unwrap()
                .birthday_height(),
        )
    }
}
