//! Harness side of the guarded hooks in /repo (`--cfg zcash_librustzcash_verif`):
//! records schedule events of the batch decryption runners / parallel subtree builder and injects
//! seeded delays at points where the code can really be pre-empted (never inside a lock).

use std::sync::atomic::{AtomicU64, Ordering};
use std::sync::Mutex;

static EVENTS: Mutex<Vec<(&'static str, u64, u64, u64)>> = Mutex::new(Vec::new());
static DELAY_SEED: AtomicU64 = AtomicU64::new(0);
static NEXT_THREAD: AtomicU64 = AtomicU64::new(1);
static COUNTER: AtomicU64 = AtomicU64::new(0);

thread_local! {
    static THREAD_ID: u64 = NEXT_THREAD.fetch_add(1, Ordering::Relaxed);
}

fn hook(kind: &'static str, a: u64, b: u64) {
    let tid = THREAD_ID.with(|t| *t);
    let n = COUNTER.fetch_add(1, Ordering::Relaxed);
    let seed = DELAY_SEED.load(Ordering::Relaxed);
    if seed != 0 {
        // seeded perturbation: mostly nothing, sometimes a yield, sometimes a short sleep
        let x = vh_common::hash64(&(seed, n, tid, kind));
        match x % 16 {
            0..=9 => {}
            10..=12 => std::thread::yield_now(),
            13..=14 => std::thread::sleep(std::time::Duration::from_micros(20 + (x >> 8) % 200)),
            _ => std::thread::sleep(std::time::Duration::from_micros(500 + (x >> 8) % 2000)),
        }
    }
    EVENTS.lock().unwrap().push((kind, tid, a, b));
}

/// Installs the hook (idempotent) and sets the delay seed (0 = record only).
pub fn install(delay_seed: u64) {
    DELAY_SEED.store(delay_seed, Ordering::Relaxed);
    zcash_client_backend::verif_hooks::install(hook);
}

/// Takes the events recorded since the last call.
pub fn take() -> Vec<(&'static str, u64, u64, u64)> {
    std::mem::take(&mut *EVENTS.lock().unwrap())
}

/// Signature of a schedule: the order in which batches started / finished and on which worker
/// thread each ran (thread ids are renumbered by first appearance so that the signature does not
/// depend on absolute ids).
pub fn schedule_signature(ev: &[(&'static str, u64, u64, u64)]) -> (u64, usize, usize) {
    let mut map: Vec<u64> = vec![];
    let mut norm: Vec<(&'static str, usize)> = vec![];
    for (k, tid, _, _) in ev {
        if *k == "batch_send" {
            continue;
        }
        let i = match map.iter().position(|t| t == tid) {
            Some(i) => i,
            None => {
                map.push(*tid);
                map.len() - 1
            }
        };
        norm.push((k, i));
    }
    (vh_common::hash64(&norm), map.len(), norm.len())
}
