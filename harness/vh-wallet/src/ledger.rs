//! Reference ledger: what the balance *must* be, computed from the sim's ground truth and the
//! harness's record of which block instances the wallet currently holds as scanned.

use std::collections::{BTreeMap, BTreeSet};

use crate::sim::{ChainSim, NoteKey, Pool, TxIdBytes};
use crate::wallet::WalletUnderTest;

pub const DEFAULT_TX_EXPIRY_DELTA: u32 = 40;

#[derive(Clone, Debug, Default, PartialEq, Eq)]
pub struct Expected {
    /// exact model (incl. the documented expiry guess for orphaned compact-scanned txs)
    pub exact: u64,
    /// lower / upper bound the *statement* allows while unexpired orphans exist
    pub lo: u64,
    pub hi: u64,
}

#[derive(Clone, Debug, Default)]
pub struct LedgerView {
    /// (account index, pool) -> expectation
    pub per: BTreeMap<(usize, Pool), Expected>,
    pub unexpired_orphans: usize,
    pub expired_orphans: usize,
    /// notes whose spend the wallet scanned in a block *before* (in scan order) it scanned the
    /// receipt — counted by the caller; here only totals
    pub mined_notes: usize,
    pub spent_notes: usize,
}

/// `target`: the height the wallet computes balances for (= its chain tip + 1).
pub fn expected(sim: &ChainSim, w: &WalletUnderTest, target: u32) -> LedgerView {
    // transactions mined in blocks the wallet holds as scanned
    let mut mined_tx: BTreeMap<TxIdBytes, u32> = BTreeMap::new();
    // note key -> (account, value) for instances in scanned blocks
    let mut mined_notes: BTreeMap<NoteKey, (usize, u64)> = BTreeMap::new();
    let mut spends_by_mined: BTreeSet<NoteKey> = BTreeSet::new();
    for (h, uid) in &w.scanned {
        let b = &sim.all_blocks[uid];
        for tx in &b.txs {
            mined_tx.insert(tx.txid, *h);
            for n in &tx.received {
                mined_notes.insert(n.key, (n.account, n.value));
            }
            for k in &tx.spends {
                spends_by_mined.insert(*k);
            }
        }
    }
    // orphans: observed once, not mined in a currently scanned block
    let mut orphan_notes_unexp: BTreeMap<NoteKey, (usize, u64)> = BTreeMap::new();
    let mut spends_by_orphan_unexp: BTreeSet<NoteKey> = BTreeSet::new();
    let mut unexpired = 0;
    let mut expired = 0;
    let mut seen_orphan: BTreeSet<TxIdBytes> = BTreeSet::new();
    for uid in &w.ever_scanned {
        let b = &sim.all_blocks[uid];
        for tx in &b.txs {
            if mined_tx.contains_key(&tx.txid) {
                continue;
            }
            let min_obs = w.observed[&tx.txid];
            let unexp = min_obs + DEFAULT_TX_EXPIRY_DELTA >= target;
            if seen_orphan.insert(tx.txid) {
                if unexp {
                    unexpired += 1;
                } else {
                    expired += 1;
                }
            }
            if unexp {
                for n in &tx.received {
                    orphan_notes_unexp.insert(n.key, (n.account, n.value));
                }
                for k in &tx.spends {
                    spends_by_orphan_unexp.insert(*k);
                }
            }
        }
    }

    let mut view = LedgerView {
        unexpired_orphans: unexpired,
        expired_orphans: expired,
        mined_notes: mined_notes.len(),
        spent_notes: spends_by_mined.len(),
        ..Default::default()
    };
    for a in 0..sim.accounts.len() {
        for p in crate::sim::POOLS {
            view.per.insert((a, p), Expected::default());
        }
    }
    let mut all_keys: BTreeMap<NoteKey, (usize, u64)> = orphan_notes_unexp.clone();
    all_keys.extend(mined_notes.iter().map(|(k, v)| (*k, *v)));
    for (k, (acct, value)) in &all_keys {
        let is_mined = mined_notes.contains_key(k);
        let is_orph = orphan_notes_unexp.contains_key(k);
        let sp_m = spends_by_mined.contains(k);
        let sp_o = spends_by_orphan_unexp.contains(k);
        let e = view.per.get_mut(&(*acct, k.pool)).unwrap();
        if (is_mined || is_orph) && !(sp_m || sp_o) {
            e.exact += value;
        }
        if is_mined && !sp_m && !sp_o {
            e.lo += value;
        }
        // Statement: notes of transactions orphaned by a rewind may keep counting until they
        // expire -- whatever happens to them meanwhile. So an unexpired orphan's note that is not
        // (re-)mined in a scanned block may or may not count, spent or not.
        if (is_mined && !sp_m) || (!is_mined && is_orph) {
            e.hi += value;
        }
    }
    view
}
