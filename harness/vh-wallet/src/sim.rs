//! `ChainSim` — the ground-truth world for the wallet properties.
//!
//! The harness is the author of the chain: it fabricates every compact block,
//! every note, every nullifier and every commitment-tree leaf, so it knows the
//! truth the wallet is supposed to reconstruct from scanning. Nothing here calls
//! the wallet; `crate::wallet` drives the wallet and `crate::ledger` holds the
//! reference models.

use std::collections::BTreeMap;

use incrementalmerkletree::frontier::Frontier;
use rand::{Rng, RngCore};
use rand_chacha::ChaCha20Rng;
use sapling::{
    note_encryption::{sapling_note_encryption, SaplingDomain},
    util::generate_random_rseed,
    zip32::DiversifiableFullViewingKey,
};
use zcash_client_backend::{
    data_api::{
        chain::{error::Error as ChainError, BlockSource, ChainState},
        testing::{AddressType, IronwoodFvk, TestFvk},
    },
    proto::compact_formats::{
        ChainMetadata, CompactBlock, CompactSaplingOutput, CompactSaplingSpend, CompactTx,
    },
};
use zcash_keys::keys::{UnifiedFullViewingKey, UnifiedSpendingKey};
use zcash_note_encryption::Domain;
use zcash_primitives::{block::BlockHash, transaction::components::sapling::zip212_enforcement};
use zcash_protocol::{
    consensus::BlockHeight, local_consensus::LocalNetwork, memo::MemoBytes, value::Zatoshis,
};
use zip32::Scope;

use orchard::tree::MerkleHashOrchard;

#[derive(Clone, Copy, Debug, PartialEq, Eq, Hash, PartialOrd, Ord)]
pub enum Pool {
    Sapling,
    Orchard,
    Ironwood,
}

pub const POOLS: [Pool; 3] = [Pool::Sapling, Pool::Orchard, Pool::Ironwood];

impl Pool {
    pub fn idx(self) -> usize {
        self as usize
    }
    pub fn name(self) -> &'static str {
        match self {
            Pool::Sapling => "sapling",
            Pool::Orchard => "orchard",
            Pool::Ironwood => "ironwood",
        }
    }
}

/// Key material of one wallet account, derived by the sim exactly as the wallet does.
#[derive(Clone)]
pub struct AccountKeys {
    pub seed: Vec<u8>,
    pub usk: UnifiedSpendingKey,
    pub ufvk: UnifiedFullViewingKey,
    pub dfvk: DiversifiableFullViewingKey,
    pub ofvk: orchard::keys::FullViewingKey,
}

impl AccountKeys {
    pub fn from_seed(net: &LocalNetwork, seed: Vec<u8>) -> Self {
        let usk = UnifiedSpendingKey::from_seed(net, &seed, zip32::AccountId::ZERO).unwrap();
        let ufvk = usk.to_unified_full_viewing_key();
        let dfvk = ufvk.sapling().unwrap().clone();
        let ofvk = ufvk.orchard().unwrap().clone();
        AccountKeys {
            seed,
            usk,
            ufvk,
            dfvk,
            ofvk,
        }
    }
}

pub type TxIdBytes = [u8; 32];

/// Identity of a wallet note that survives re-mining: (txid, pool, index of the output inside
/// the pool's bundle of that transaction).
#[derive(Clone, Copy, Debug, PartialEq, Eq, Hash, PartialOrd, Ord)]
pub struct NoteKey {
    pub txid: TxIdBytes,
    pub pool: Pool,
    pub out_idx: u32,
}

/// One mined instance of a wallet note.
#[derive(Clone, Debug)]
pub struct SimNote {
    pub key: NoteKey,
    /// index into `ChainSim::accounts`
    pub account: usize,
    pub scope: Scope,
    pub value: u64,
    pub nf: [u8; 32],
    /// leaf value (cmu / cmx bytes)
    pub cm: [u8; 32],
    /// absolute position in the pool's note commitment tree
    pub position: u64,
    pub height: u32,
    pub block_uid: u64,
}

/// A wallet output as built (before it is placed at a position in a block).
#[derive(Clone, Debug)]
pub struct ProtoNote {
    pub pool: Pool,
    pub out_idx: u32,
    pub account: usize,
    pub scope: Scope,
    pub value: u64,
    pub cm: [u8; 32],
    /// Sapling: the note itself (its nullifier depends on the position it is mined at)
    pub sapling_note: Option<sapling::Note>,
    /// Orchard / Ironwood: the nullifier (position independent)
    pub fixed_nf: Option<[u8; 32]>,
}

/// A fully built transaction: compact bytes + ground truth. Re-mining an orphaned transaction
/// reuses this verbatim (same txid, same commitments), only its placement changes.
#[derive(Clone, Debug)]
pub struct BuiltTx {
    pub txid: TxIdBytes,
    pub ctx: CompactTx,
    pub notes: Vec<ProtoNote>,
    pub spends: Vec<NoteKey>,
    /// nullifier bytes revealed for each entry of `spends` (fixed once built: a Sapling note
    /// re-mined at another position has another nullifier, which makes this spend invalid)
    pub spend_nfs: Vec<[u8; 32]>,
    pub foreign_nfs: Vec<(Pool, [u8; 32])>,
}

/// What one mined transaction contains (ground truth).
#[derive(Clone, Debug)]
pub struct SimTx {
    pub txid: TxIdBytes,
    pub index: u32,
    /// wallet notes created (instances)
    pub received: Vec<SimNote>,
    /// wallet notes spent, identified by the note they spend
    pub spends: Vec<NoteKey>,
    /// nullifiers revealed that do not belong to any wallet note (pool, nf)
    pub foreign_nfs: Vec<(Pool, [u8; 32])>,
    /// commitments per pool, including foreign ones
    pub n_outputs: [u32; 3],
    pub built: BuiltTx,
}

#[derive(Clone)]
pub struct SimBlock {
    /// unique id of this block *instance* (forks produce new instances at old heights)
    pub uid: u64,
    pub height: u32,
    pub hash: [u8; 32],
    pub prev_hash: [u8; 32],
    pub cb: CompactBlock,
    pub txs: Vec<SimTx>,
    /// chain state (frontiers) as of the end of this block
    pub end_state: ChainState,
    /// leaves appended by this block, per pool
    pub leaves: [Vec<[u8; 32]>; 3],
    /// tree sizes at the end of this block
    pub end_sizes: [u64; 3],
}

/// Plan for one output of a generated transaction.
#[derive(Clone, Debug)]
pub enum OutPlan {
    Wallet {
        account: usize,
        pool: Pool,
        scope: Scope,
        diversified: Option<u32>,
        value: u64,
    },
    Foreign {
        pool: Pool,
        value: u64,
    },
}

/// Plan for one transaction.
#[derive(Clone, Debug, Default)]
pub struct TxPlan {
    pub outs: Vec<OutPlan>,
    /// wallet notes to spend (must be live in the current chain)
    pub spends: Vec<NoteKey>,
    /// number of foreign nullifiers to reveal per pool
    pub foreign_spends: [u32; 3],
    /// reuse this txid (re-mining an orphaned transaction)
    pub txid: Option<TxIdBytes>,
}

pub struct ChainSim {
    pub net: LocalNetwork,
    pub accounts: Vec<AccountKeys>,
    pub foreign: AccountKeys,
    /// chain state before the first sim block (the accounts' birthday state)
    pub base: ChainState,
    pub base_sizes: [u64; 3],
    /// current best chain by height
    pub blocks: BTreeMap<u32, SimBlock>,
    /// every block instance ever produced, by uid (current and orphaned)
    pub all_blocks: BTreeMap<u64, SimBlock>,
    next_uid: u64,
    pub rng: ChaCha20Rng,
    /// live wallet notes of the current chain (instance in the current chain), by key
    pub live: BTreeMap<NoteKey, SimNote>,
    /// keys spent in the current chain -> (height, txid)
    pub spent: BTreeMap<NoteKey, (u32, TxIdBytes)>,
    /// roots of the subtrees (2^16 leaves) completed BEFORE the base state, per pool
    pub prior_roots: [Vec<[u8; 32]>; 3],
    /// subtrees completed by sim blocks of the current chain: (pool, index, height, root)
    pub completed_shards: Vec<(Pool, u64, u32, [u8; 32])>,
}

fn sapling_node(b: &[u8; 32]) -> sapling::Node {
    Option::from(sapling::Node::from_bytes(*b)).expect("valid cmu")
}
fn orchard_node(b: &[u8; 32]) -> MerkleHashOrchard {
    Option::from(MerkleHashOrchard::from_bytes(b)).expect("valid cmx")
}

pub fn to32(v: &[u8]) -> [u8; 32] {
    let mut a = [0u8; 32];
    a.copy_from_slice(v);
    a
}

impl ChainSim {
    /// `base`: chain state as of the block before the first generated block.
    pub fn new(net: LocalNetwork, n_accounts: usize, base: ChainState, rng: ChaCha20Rng) -> Self {
        let accounts = (0..n_accounts)
            .map(|i| AccountKeys::from_seed(&net, vec![i as u8 + 1; 32]))
            .collect();
        let foreign = AccountKeys::from_seed(&net, vec![0xF0; 32]);
        let base_sizes = [
            base.final_sapling_tree().tree_size(),
            base.final_orchard_tree().tree_size(),
            base.final_ironwood_tree().tree_size(),
        ];
        ChainSim {
            net,
            accounts,
            foreign,
            base,
            base_sizes,
            blocks: BTreeMap::new(),
            all_blocks: BTreeMap::new(),
            next_uid: 1,
            rng,
            live: BTreeMap::new(),
            spent: BTreeMap::new(),
            prior_roots: Default::default(),
            completed_shards: vec![],
        }
    }

    pub fn base_height(&self) -> u32 {
        u32::from(self.base.block_height())
    }

    pub fn tip_height(&self) -> u32 {
        self.blocks
            .keys()
            .next_back()
            .copied()
            .unwrap_or_else(|| self.base_height())
    }

    /// Chain state as of the end of `height` on the current chain.
    pub fn state_at(&self, height: u32) -> ChainState {
        if height == self.base_height() {
            self.base.clone()
        } else {
            self.blocks
                .get(&height)
                .unwrap_or_else(|| panic!("no block at {height}"))
                .end_state
                .clone()
        }
    }

    pub fn sizes_at(&self, height: u32) -> [u64; 3] {
        if height == self.base_height() {
            self.base_sizes
        } else {
            self.blocks[&height].end_sizes
        }
    }

    /// True root of `pool`'s note commitment tree as of the end of `height` (current chain).
    pub fn root_at(&self, pool: Pool, height: u32) -> [u8; 32] {
        let st = self.state_at(height);
        match pool {
            Pool::Sapling => st.final_sapling_tree().root().to_bytes(),
            Pool::Orchard => st.final_orchard_tree().root().to_bytes(),
            Pool::Ironwood => st.final_ironwood_tree().root().to_bytes(),
        }
    }

    /// Unspent live wallet notes of the current chain.
    pub fn unspent_live(&self) -> Vec<&SimNote> {
        self.live
            .values()
            .filter(|n| !self.spent.contains_key(&n.key))
            .collect()
    }

    fn fresh_txid(&mut self) -> TxIdBytes {
        let mut t = [0u8; 32];
        self.rng.fill_bytes(&mut t);
        t
    }

    /// Builds the compact transaction for `plan` (no placement yet).
    pub fn build_tx(&mut self, plan: &TxPlan, height: u32) -> BuiltTx {
        let h = BlockHeight::from_u32(height);
        let net = self.net;
        let txid = plan.txid.unwrap_or_else(|| self.fresh_txid());
        let mut ctx = CompactTx {
            index: 0,
            txid: txid.to_vec(),
            ..Default::default()
        };
        let mut built_notes = vec![];
        let mut foreign_nfs = vec![];
        let mut spend_nfs = vec![];

        // --- spends of wallet notes. Orchard/Ironwood spends are actions (they also carry a
        // dummy output commitment); Sapling spends are bare nullifiers.
        for key in &plan.spends {
            let note = self.live.get(key).expect("spend of a live note").clone();
            spend_nfs.push(note.nf);
            match key.pool {
                Pool::Sapling => ctx.spends.push(CompactSaplingSpend {
                    nf: note.nf.to_vec(),
                }),
                Pool::Orchard => {
                    let nf = orchard::note::Nullifier::from_bytes(&note.nf).unwrap();
                    self.accounts[note.account]
                        .ofvk
                        .add_spend(&mut ctx, nf, &mut self.rng);
                }
                Pool::Ironwood => {
                    let nf = orchard::note::Nullifier::from_bytes(&note.nf).unwrap();
                    IronwoodFvk(self.accounts[note.account].ofvk.clone()).add_spend(
                        &mut ctx,
                        nf,
                        &mut self.rng,
                    );
                }
            }
        }
        // --- foreign nullifiers
        for (pi, pool) in POOLS.iter().enumerate() {
            for _ in 0..plan.foreign_spends[pi] {
                match pool {
                    Pool::Sapling => {
                        let mut nf = [0u8; 32];
                        self.rng.fill_bytes(&mut nf);
                        ctx.spends.push(CompactSaplingSpend { nf: nf.to_vec() });
                        foreign_nfs.push((*pool, nf));
                    }
                    Pool::Orchard | Pool::Ironwood => {
                        let nf = loop {
                            let mut b = [0u8; 32];
                            self.rng.fill_bytes(&mut b);
                            b[31] &= 0x3f;
                            if let Some(nf) =
                                Option::from(orchard::note::Nullifier::from_bytes(&b))
                            {
                                break nf;
                            }
                        };
                        if *pool == Pool::Orchard {
                            self.foreign.ofvk.add_spend(&mut ctx, nf, &mut self.rng);
                        } else {
                            IronwoodFvk(self.foreign.ofvk.clone()).add_spend(
                                &mut ctx,
                                nf,
                                &mut self.rng,
                            );
                        }
                        foreign_nfs.push((*pool, nf.to_bytes()));
                    }
                }
            }
        }
        // --- outputs
        for out in &plan.outs {
            let (keys, pool, scope, div, value, wallet_acct) = match out {
                OutPlan::Wallet {
                    account,
                    pool,
                    scope,
                    diversified,
                    value,
                } => (
                    self.accounts[*account].clone(),
                    *pool,
                    *scope,
                    *diversified,
                    *value,
                    Some(*account),
                ),
                OutPlan::Foreign { pool, value } => (
                    self.foreign.clone(),
                    *pool,
                    Scope::External,
                    None,
                    *value,
                    None,
                ),
            };
            let zat = Zatoshis::from_u64(value).unwrap();
            let addr_type = match (scope, div) {
                (Scope::Internal, _) => AddressType::Internal,
                (Scope::External, None) => AddressType::DefaultExternal,
                (Scope::External, Some(j)) => AddressType::DiversifiedExternal(j.into()),
            };
            match pool {
                Pool::Sapling => {
                    // Built here (not via TestFvk) because the nullifier of an internal note
                    // must be derived with the internal nk.
                    let recipient = match addr_type {
                        AddressType::DefaultExternal => keys.dfvk.default_address().1,
                        AddressType::DiversifiedExternal(j) => keys.dfvk.find_address(j).unwrap().1,
                        AddressType::Internal => keys.dfvk.change_address().1,
                    };
                    let rseed = generate_random_rseed(zip212_enforcement(&net, h), &mut self.rng);
                    let note = sapling::Note::from_parts(
                        recipient,
                        sapling::value::NoteValue::from_raw(value),
                        rseed,
                    );
                    let enc = sapling_note_encryption(
                        Some(keys.dfvk.to_ovk(Scope::External)),
                        note.clone(),
                        MemoBytes::empty().into_bytes(),
                        &mut self.rng,
                    );
                    let cmu = note.cmu().to_bytes();
                    let epk = SaplingDomain::epk_bytes(enc.epk()).0.to_vec();
                    let ct = enc.encrypt_note_plaintext();
                    let out_idx = ctx.outputs.len() as u32;
                    ctx.outputs.push(CompactSaplingOutput {
                        cmu: cmu.to_vec(),
                        ephemeral_key: epk,
                        ciphertext: ct[..52].to_vec(),
                    });
                    if let Some(account) = wallet_acct {
                        built_notes.push(ProtoNote {
                            pool,
                            out_idx,
                            account,
                            scope,
                            value,
                            cm: cmu,
                            sapling_note: Some(note),
                            fixed_nf: None,
                        });
                    }
                }
                Pool::Orchard | Pool::Ironwood => {
                    let (out_idx, nf, cmx) = if pool == Pool::Orchard {
                        let idx = ctx.actions.len() as u32;
                        let nf = keys.ofvk.add_output(
                            &mut ctx,
                            &net,
                            h,
                            None,
                            addr_type,
                            zat,
                            0,
                            &mut self.rng,
                        );
                        (idx, nf.to_bytes(), to32(&ctx.actions[idx as usize].cmx))
                    } else {
                        let idx = ctx.ironwood_actions.len() as u32;
                        let nf = IronwoodFvk(keys.ofvk.clone()).add_output(
                            &mut ctx,
                            &net,
                            h,
                            None,
                            addr_type,
                            zat,
                            0,
                            &mut self.rng,
                        );
                        (
                            idx,
                            nf.to_bytes(),
                            to32(&ctx.ironwood_actions[idx as usize].cmx),
                        )
                    };
                    if let Some(account) = wallet_acct {
                        built_notes.push(ProtoNote {
                            pool,
                            out_idx,
                            account,
                            scope,
                            value,
                            cm: cmx,
                            sapling_note: None,
                            fixed_nf: Some(nf),
                        });
                    }
                }
            }
        }
        BuiltTx {
            txid,
            ctx,
            notes: built_notes,
            spends: plan.spends.clone(),
            spend_nfs,
            foreign_nfs,
        }
    }

    /// Appends one block built from `plans` to the current chain.
    pub fn mine(&mut self, plans: Vec<TxPlan>) -> &SimBlock {
        let height = self.tip_height() + 1;
        let built: Vec<BuiltTx> = plans.iter().map(|p| self.build_tx(p, height)).collect();
        self.mine_built(built)
    }

    /// Appends one block containing the given (new or re-mined) transactions.
    pub fn mine_built(&mut self, built: Vec<BuiltTx>) -> &SimBlock {
        let height = self.tip_height() + 1;
        let prev_state = self.state_at(height - 1);
        let prev_sizes = self.sizes_at(height - 1);
        let prev_hash = prev_state.block_hash().0;
        let h = BlockHeight::from_u32(height);
        let uid = self.next_uid;
        self.next_uid += 1;

        let mut sizes = prev_sizes;
        let mut leaves: [Vec<[u8; 32]>; 3] = Default::default();
        let mut txs = vec![];
        let mut vtx = vec![];

        for (tx_index, b) in built.into_iter().enumerate() {
            let mut ctx = b.ctx.clone();
            ctx.index = tx_index as u64;
            let start = sizes;
            for o in &ctx.outputs {
                leaves[0].push(to32(&o.cmu));
            }
            for a in &ctx.actions {
                leaves[1].push(to32(&a.cmx));
            }
            for a in &ctx.ironwood_actions {
                leaves[2].push(to32(&a.cmx));
            }
            let n_outputs = [
                ctx.outputs.len() as u32,
                ctx.actions.len() as u32,
                ctx.ironwood_actions.len() as u32,
            ];
            for i in 0..3 {
                sizes[i] += n_outputs[i] as u64;
            }
            let mut received = vec![];
            for pn in &b.notes {
                let position = start[pn.pool.idx()] + pn.out_idx as u64;
                let nf = match (&pn.sapling_note, pn.fixed_nf) {
                    (Some(note), _) => {
                        let nk = self.accounts[pn.account].dfvk.to_nk(pn.scope);
                        note.nf(&nk, position).0
                    }
                    (None, Some(nf)) => nf,
                    _ => unreachable!(),
                };
                received.push(SimNote {
                    key: NoteKey {
                        txid: b.txid,
                        pool: pn.pool,
                        out_idx: pn.out_idx,
                    },
                    account: pn.account,
                    scope: pn.scope,
                    value: pn.value,
                    nf,
                    cm: pn.cm,
                    position,
                    height,
                    block_uid: uid,
                });
            }
            for (k, nf) in b.spends.iter().zip(&b.spend_nfs) {
                assert!(self.live.contains_key(k), "spend of a live note");
                assert_eq!(&self.live[k].nf, nf, "spend reveals the live instance's nullifier");
                assert!(!self.spent.contains_key(k), "double spend in sim");
                self.spent.insert(*k, (height, b.txid));
            }
            for n in &received {
                self.live.insert(n.key, n.clone());
            }
            vtx.push(ctx);
            txs.push(SimTx {
                txid: b.txid,
                index: tx_index as u32,
                received,
                spends: b.spends.clone(),
                foreign_nfs: b.foreign_nfs.clone(),
                n_outputs,
                built: b,
            });
        }

        let mut hash = [0u8; 32];
        self.rng.fill_bytes(&mut hash);
        let cb = CompactBlock {
            hash: hash.to_vec(),
            height: height as u64,
            prev_hash: prev_hash.to_vec(),
            vtx,
            chain_metadata: Some(ChainMetadata {
                sapling_commitment_tree_size: sizes[0] as u32,
                orchard_commitment_tree_size: sizes[1] as u32,
                ironwood_commitment_tree_size: sizes[2] as u32,
            }),
            ..Default::default()
        };

        // roll the frontiers forward leaf by leaf
        const SHARD: u64 = 1 << 16;
        let lvl16 = incrementalmerkletree::Level::from(16);
        let mut done: Vec<(Pool, u64, u32, [u8; 32])> = vec![];
        let mut sap: Frontier<sapling::Node, 32> = prev_state.final_sapling_tree().clone();
        for l in &leaves[0] {
            assert!(sap.append(sapling_node(l)));
            if sap.tree_size() % SHARD == 0 {
                done.push((Pool::Sapling, sap.tree_size() / SHARD - 1, height, sap.value().unwrap().root(Some(lvl16)).to_bytes()));
            }
        }
        let mut orc: Frontier<MerkleHashOrchard, 32> = prev_state.final_orchard_tree().clone();
        for l in &leaves[1] {
            assert!(orc.append(orchard_node(l)));
            if orc.tree_size() % SHARD == 0 {
                done.push((Pool::Orchard, orc.tree_size() / SHARD - 1, height, orc.value().unwrap().root(Some(lvl16)).to_bytes()));
            }
        }
        let mut iro: Frontier<MerkleHashOrchard, 32> = prev_state.final_ironwood_tree().clone();
        for l in &leaves[2] {
            assert!(iro.append(orchard_node(l)));
            if iro.tree_size() % SHARD == 0 {
                done.push((Pool::Ironwood, iro.tree_size() / SHARD - 1, height, iro.value().unwrap().root(Some(lvl16)).to_bytes()));
            }
        }
        self.completed_shards.extend(done);
        let end_state = ChainState::new(h, BlockHash(hash), sap, orc, iro);

        let blk = SimBlock {
            uid,
            height,
            hash,
            prev_hash,
            cb,
            txs,
            end_state,
            leaves,
            end_sizes: sizes,
        };
        self.all_blocks.insert(uid, blk.clone());
        self.blocks.insert(height, blk);
        &self.blocks[&height]
    }

    /// Drops every block above `height` from the current chain (they stay in `all_blocks`
    /// as orphans). Returns the orphaned block uids.
    pub fn rewind(&mut self, height: u32) -> Vec<u64> {
        let gone: Vec<u32> = self.blocks.range(height + 1..).map(|(h, _)| *h).collect();
        self.completed_shards.retain(|s| s.2 <= height);
        let mut uids = vec![];
        for h in gone {
            let b = self.blocks.remove(&h).unwrap();
            uids.push(b.uid);
            for tx in &b.txs {
                for n in &tx.received {
                    // only remove if the live instance is this block's instance
                    if self.live.get(&n.key).map(|l| l.block_uid) == Some(b.uid) {
                        self.live.remove(&n.key);
                    }
                }
                for k in &tx.spends {
                    if self.spent.get(k).map(|s| s.1) == Some(tx.txid) {
                        self.spent.remove(k);
                    }
                }
            }
        }
        uids
    }

    /// All leaves of `pool` appended by sim blocks up to and including `height` (positions start
    /// at `base_sizes[pool]`).
    pub fn leaves_upto(&self, pool: Pool, height: u32) -> Vec<[u8; 32]> {
        let mut v = vec![];
        for (_, b) in self.blocks.range(..=height) {
            v.extend_from_slice(&b.leaves[pool.idx()]);
        }
        v
    }

    // ------------------------------------------------------------------ random generation

    pub fn random_value(&mut self) -> u64 {
        const CHOICES: [u64; 8] = [0, 1, 4999, 5000, 5001, 10_000, 100_000_000, 60_000];
        match self.rng.gen_range(0..12) {
            0..=5 => CHOICES[self.rng.gen_range(0..CHOICES.len())],
            6..=9 => self.rng.gen_range(5_001..2_000_000),
            10 => self.rng.gen_range(1..5_000),
            _ => 2_100_000_000_000_000 / 400,
        }
    }

    /// A random transaction plan. `pools`: pools in use; `spend_bias`: probability of spending
    /// an unspent live wallet note per slot.
    pub fn random_tx_plan(&mut self, pools: &[Pool], spend_bias: f64, exclude: &[NoteKey]) -> TxPlan {
        let mut plan = TxPlan::default();
        let n_out = match self.rng.gen_range(0..10) {
            0 => 0,
            1..=5 => 1,
            6..=7 => 2,
            8 => 3,
            _ => self.rng.gen_range(4..7),
        };
        for _ in 0..n_out {
            let pool = pools[self.rng.gen_range(0..pools.len())];
            if self.rng.gen_bool(0.7) {
                let account = self.rng.gen_range(0..self.accounts.len());
                let scope = if self.rng.gen_bool(0.3) {
                    Scope::Internal
                } else {
                    Scope::External
                };
                let diversified = if scope == Scope::External && self.rng.gen_bool(0.2) {
                    // Sapling diversifier indices can be invalid; pick one that works for
                    // this account's Sapling key so all pools can use the same plan.
                    let mut j = self.rng.gen_range(1u32..200);
                    while self.accounts[account].dfvk.address(j.into()).is_none() {
                        j += 1;
                    }
                    Some(j)
                } else {
                    None
                };
                let value = self.random_value();
                plan.outs.push(OutPlan::Wallet {
                    account,
                    pool,
                    scope,
                    diversified,
                    value,
                });
            } else {
                let value = self.random_value();
                plan.outs.push(OutPlan::Foreign { pool, value });
            }
        }
        // spends
        let candidates: Vec<NoteKey> = self
            .unspent_live()
            .iter()
            .map(|n| n.key)
            .filter(|k| pools.contains(&k.pool) && !exclude.contains(k))
            .collect();
        if !candidates.is_empty() {
            let n_sp = if self.rng.gen_bool(spend_bias) {
                self.rng.gen_range(1..=3.min(candidates.len()))
            } else {
                0
            };
            let mut c = candidates;
            for _ in 0..n_sp {
                let i = self.rng.gen_range(0..c.len());
                plan.spends.push(c.swap_remove(i));
            }
        }
        for (pi, p) in POOLS.iter().enumerate() {
            if pools.contains(p) && self.rng.gen_bool(0.15) {
                plan.foreign_spends[pi] = self.rng.gen_range(1..3);
            }
        }
        plan
    }

    /// Mines one random block with 0–4 transactions.
    pub fn mine_random(&mut self, pools: &[Pool], spend_bias: f64) -> u32 {
        let n_tx = match self.rng.gen_range(0..10) {
            0..=1 => 0,
            2..=5 => 1,
            6..=7 => 2,
            8 => 3,
            _ => 4,
        };
        let mut plans: Vec<TxPlan> = vec![];
        let mut used: Vec<NoteKey> = vec![];
        for _ in 0..n_tx {
            let p = self.random_tx_plan(pools, spend_bias, &used);
            used.extend(p.spends.iter().copied());
            plans.push(p);
        }
        self.mine(plans).height
    }
}

/// In-memory compact block source over the sim's *current* chain.
pub struct MemBlockSource<'a> {
    pub blocks: &'a BTreeMap<u32, SimBlock>,
    /// optional per-height replacement (corruption experiments)
    pub overrides: BTreeMap<u32, CompactBlock>,
}

impl<'a> MemBlockSource<'a> {
    pub fn new(blocks: &'a BTreeMap<u32, SimBlock>) -> Self {
        MemBlockSource {
            blocks,
            overrides: BTreeMap::new(),
        }
    }
}

impl BlockSource for MemBlockSource<'_> {
    type Error = std::convert::Infallible;

    fn with_blocks<F, WalletErrT>(
        &self,
        from_height: Option<BlockHeight>,
        limit: Option<usize>,
        mut with_block: F,
    ) -> Result<(), ChainError<WalletErrT, Self::Error>>
    where
        F: FnMut(CompactBlock) -> Result<(), ChainError<WalletErrT, Self::Error>>,
    {
        let from = from_height.map(u32::from).unwrap_or(0);
        for (n, (h, b)) in self.blocks.range(from..).enumerate() {
            if let Some(l) = limit {
                if n >= l {
                    break;
                }
            }
            let cb = self.overrides.get(h).cloned().unwrap_or_else(|| b.cb.clone());
            with_block(cb)?;
        }
        Ok(())
    }
}

/// Recomputes a Merkle root from a leaf and an authentication path (independent of shardtree):
/// `path[i]` is the sibling at level `i`.
pub fn root_from_path_sapling(leaf: [u8; 32], position: u64, path: &[sapling::Node]) -> [u8; 32] {
    use incrementalmerkletree::{Hashable, Level};
    let mut cur = sapling_node(&leaf);
    for (i, sib) in path.iter().enumerate() {
        let lvl = Level::from(i as u8);
        cur = if (position >> i) & 1 == 0 {
            sapling::Node::combine(lvl, &cur, sib)
        } else {
            sapling::Node::combine(lvl, sib, &cur)
        };
    }
    cur.to_bytes()
}

pub fn root_from_path_orchard(
    leaf: [u8; 32],
    position: u64,
    path: &[MerkleHashOrchard],
) -> [u8; 32] {
    use incrementalmerkletree::{Hashable, Level};
    let mut cur = orchard_node(&leaf);
    for (i, sib) in path.iter().enumerate() {
        let lvl = Level::from(i as u8);
        cur = if (position >> i) & 1 == 0 {
            MerkleHashOrchard::combine(lvl, &cur, sib)
        } else {
            MerkleHashOrchard::combine(lvl, sib, &cur)
        };
    }
    cur.to_bytes()
}
