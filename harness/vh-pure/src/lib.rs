pub use vh_common;
