//! C04 — transaction ids and signature hashes commit to exactly the data they must.
//!
//! For every generated transaction (all version/branch pairs, aimed shapes incl. coinbase,
//! SINGLE with index >= outputs, empty bundles) the shard observes, through the public API only,
//! `txid()`, `auth_commitment()` and `sighash::signature_hash` for the shielded signatures and for
//! transparent inputs x {ALL, NONE, SINGLE} x {-, ANYONECANPAY}, with a harness-defined
//! `TransparentAuthorizingContext` supplying random coins. Everything is logged for the
//! independent ZIP 244 / sha256d reference in `lib/pyref/zip244.py`.
//!
//! Metamorphic matrix (in-process): every effecting / authorising field named by the layout
//! table is mutated once per transaction (bit flip, donor point, in-range amount, valid flag,
//! other branch), the mutant is re-parsed by the real reader, and the digests are compared:
//! effecting => txid changes and every signature hash that ZIP 143/243/244 defines to cover the
//! field changes, the excluded ones stay; authorising (from v5: script_sig, proofs, signatures,
//! in v6 also the shielded anchors) => txid and all signature hashes stay and the auth commitment
//! changes; before v5 the txid is sha256d of the bytes, so it changes with every byte. Coins
//! (value, scriptPubKey) and the hash type must be committed with the documented exclusions.

#[path = "../c03/txgen.rs"]
mod txgen;
#[path = "../c03/wire.rs"]
mod wire;

use std::collections::{BTreeMap, BTreeSet};

use vh_common::rand::seq::SliceRandom;
use vh_common::rand::Rng;
use vh_common::rand_chacha::ChaCha20Rng;
use vh_common::{guard, hexs, json, panic_class, Args, Reporter, Tier, Value};
use zcash_primitives::transaction::Transaction;
use zcash_protocol::consensus::BranchId;

use txgen::{Coin, Digests, Pool, Shape};
use wire::{Cover, Field, Kind, Parts, Role, Ver};

struct Ctx {
    r: Reporter,
    rng: ChaCha20Rng,
    events_left: usize,
    events_reserved_v5: usize,
    fields_mutated: BTreeSet<(String, &'static str)>,
}

fn ht_name(ht: Option<u8>) -> &'static str {
    match ht {
        None => "shielded",
        Some(1) => "ALL",
        Some(2) => "NONE",
        Some(3) => "SINGLE",
        Some(0x81) => "ALL|ANYONECANPAY",
        Some(0x82) => "NONE|ANYONECANPAY",
        Some(0x83) => "SINGLE|ANYONECANPAY",
        _ => "?",
    }
}

fn coins_json(coins: &[Coin]) -> Value {
    Value::Array(coins.iter().map(|c| json!([c.value, hexs(&c.script)])).collect())
}

fn replay(bytes: &[u8], branch: BranchId, coins: &[Coin], extra: Value) -> Value {
    let hex = if bytes.len() <= 30_000 { hexs(bytes) } else { format!("{}… ({} bytes)", hexs(&bytes[..2000]), bytes.len()) };
    json!({"tx_hex": hex, "branch": txgen::branch_name(branch), "coins": coins_json(coins), "mutation": extra})
}

enum ObsErr {
    Rejected(String),
    Panic(String),
}

fn observe(bytes: &[u8], branch: BranchId, coins: &[Coin], inputs: &[usize]) -> Result<(Transaction, Digests), ObsErr> {
    let tx = match guard(|| Transaction::read(bytes, branch)) {
        Err(p) => return Err(ObsErr::Panic(p)),
        Ok(Err(e)) => return Err(ObsErr::Rejected(e.to_string())),
        Ok(Ok(t)) => t,
    };
    match guard(|| txgen::digests(&tx, coins, inputs)) {
        Err(p) => Err(ObsErr::Panic(p)),
        Ok(d) => Ok((tx, d)),
    }
}

/// What the property demands of one digest after a mutation.
#[derive(Clone, Copy, PartialEq, Eq, Debug)]
enum Want {
    Change,
    Same,
    NoClaim,
}

struct Expect<'a> {
    what: &'a str,
    txid: Want,
    auth: Want,
    /// (hash type or None for the shielded signature, input index) -> demand, relation label
    sighash: &'a dyn Fn(Option<u8>, Option<usize>) -> (Want, &'static str),
}

fn compare(c: &mut Ctx, ver: Ver, e: &Expect, d0: &Digests, d1: &Digests, rp: &dyn Fn() -> Value) {
    let v = ver.label();
    let what = e.what;
    let check = |c: &mut Ctx, want: Want, same: bool, name: &str| {
        c.r.evals(1);
        match (want, same) {
            (Want::Change, true) => c.r.violation(&format!("C04:{v}:{what}:{name}-unchanged"), format!("mutating {what} of a {v} transaction left the {name} unchanged although it must commit to it"), rp()),
            (Want::Same, false) => c.r.violation(&format!("C04:{v}:{what}:{name}-changed"), format!("mutating {what} of a {v} transaction changed the {name} although it must not depend on it"), rp()),
            _ => {}
        }
    };
    check(c, e.txid, d0.txid == d1.txid, "txid");
    check(c, e.auth, d0.auth == d1.auth, "auth-commitment");
    if let (Some(a), Some(b)) = (d0.shielded, d1.shielded) {
        let (w, _) = (e.sighash)(None, None);
        check(c, w, a == b, "sighash:shielded");
    }
    if d0.transparent.len() == d1.transparent.len() {
        for (x, y) in d0.transparent.iter().zip(&d1.transparent) {
            debug_assert!(x.0 == y.0 && x.1 == y.1);
            let (w, rel) = (e.sighash)(Some(x.1), Some(x.0));
            let name = format!("sighash:{}{}{}", ht_name(Some(x.1)), if rel.is_empty() { "" } else { ":" }, rel);
            check(c, w, x.2 == y.2, &name);
            match w {
                Want::Change => c.r.count("sighash_must_change_checks", 1),
                Want::Same => c.r.count("sighash_exclusion_checks", 1),
                Want::NoClaim => {}
            }
        }
    }
}

fn other_amount(rng: &mut ChaCha20Rng, cur: i64, signed: bool) -> i64 {
    loop {
        let v = if signed { txgen::rand_amount_signed(rng) } else { txgen::rand_amount_unsigned(rng) };
        if v != cur {
            return v;
        }
    }
}

/// Replacement bytes for one field (same length, still a valid encoding); None = cannot mutate.
fn mutate_value(c: &mut Ctx, pool: &Pool, ver: Ver, bytes: &[u8], f: &Field) -> Option<Vec<u8>> {
    let cur = &bytes[f.off..f.end()];
    if f.len == 0 {
        return None;
    }
    let mut v = cur.to_vec();
    match f.kind {
        Kind::Bytes | Kind::U32 => {
            let i = c.rng.gen_range(0..f.len);
            v[i] ^= 1 << c.rng.gen_range(0..8);
        }
        Kind::FieldElem => {
            let i = c.rng.gen_range(0..28);
            v[i] ^= 1 << c.rng.gen_range(0..8);
        }
        Kind::AmountSigned | Kind::AmountUnsigned => {
            let curv = i64::from_le_bytes(cur.try_into().unwrap());
            v = other_amount(&mut c.rng, curv, f.kind == Kind::AmountSigned).to_le_bytes().to_vec();
        }
        Kind::Point => {
            v = pool.donor_point(&mut c.rng, f.name, cur)?.to_vec();
        }
        Kind::Flags => {
            let bits: &[u8] = if f.name.starts_with("ironwood") { &[1, 2, 4] } else { &[1, 2] };
            v[0] ^= *bits.choose(&mut c.rng).unwrap();
        }
        Kind::Branch => {
            let cur_b = u32::from_le_bytes(cur.try_into().unwrap());
            let opts: Vec<BranchId> = [BranchId::Nu5, BranchId::Nu6, BranchId::Nu6_1, BranchId::Nu6_2, BranchId::Nu6_3].into_iter().filter(|b| u32::from(*b) != cur_b).collect();
            let _ = ver;
            v = u32::from(*opts.choose(&mut c.rng).unwrap()).to_le_bytes().to_vec();
        }
        Kind::Count | Kind::Fixed => return None,
    }
    Some(v)
}

fn splice(bytes: &[u8], off: usize, end: usize, new: &[u8]) -> Vec<u8> {
    let mut v = Vec::with_capacity(bytes.len() + new.len());
    v.extend_from_slice(&bytes[..off]);
    v.extend_from_slice(new);
    v.extend_from_slice(&bytes[end..]);
    v
}

struct Case<'a> {
    parts: &'a Parts,
    bytes: &'a [u8],
    fields: &'a [Field],
    branch: BranchId,
    coins: &'a [Coin],
    inputs: &'a [usize],
    d0: &'a Digests,
}

fn field_matrix(c: &mut Ctx, pool: &Pool, k: &Case, budget: usize) {
    let ver = k.parts.ver;
    let v = ver.label();
    let special = ver.zip244() && (k.parts.is_coinbase() || k.parts.vin.is_empty());
    let n_out = k.parts.vout.len();
    let mut names: Vec<&'static str> = k.fields.iter().filter(|f| f.role != Role::Structural).map(|f| f.name).collect::<BTreeSet<_>>().into_iter().collect();
    names.shuffle(&mut c.rng);
    let mut left = budget;
    for name in names {
        if left == 0 || !c.r.time_left() {
            break;
        }
        // The v4 value balance without spends and outputs is not data of a well-formed transaction
        // (it must be zero); the parser drops it — reported by C03, not re-litigated here.
        if name == "sapling.value_balance" && k.parts.spends.is_empty() && k.parts.outputs.is_empty() {
            continue;
        }
        let inst: Vec<&Field> = k.fields.iter().filter(|f| f.name == name).collect();
        let nonempty: Vec<&Field> = inst.iter().copied().filter(|f| f.len > 0).collect();
        let f: &Field = match nonempty.choose(&mut c.rng) {
            Some(f) => f,
            None => inst[0],
        };
        // scripts: either a bit flip or a replacement by a script of another length
        let is_script = name == "vin.script_sig" || name == "vout.script";
        let mutated: Option<Vec<u8>> = if is_script && (f.len == 0 || c.rng.gen_bool(0.4)) {
            let lenf = k.fields.iter().find(|g| g.end() == f.off && g.kind == Kind::Count).expect("length prefix precedes script");
            let mut nl = c.rng.gen_range(1..30usize);
            if nl == f.len {
                nl += 1;
            }
            let mut new = wire::cs(nl as u64);
            new.extend(txgen::rand_script(&mut c.rng, nl));
            Some(splice(k.bytes, lenf.off, f.end(), &new))
        } else {
            mutate_value(c, pool, ver, k.bytes, f).map(|nv| splice(k.bytes, f.off, f.end(), &nv))
        };
        let Some(mb) = mutated else {
            c.r.inconclusive("field cannot be mutated in this instance (empty / no donor)");
            continue;
        };
        left -= 1;
        let (tx1, d1) = match observe(&mb, k.branch, k.coins, k.inputs) {
            Ok(x) => x,
            Err(ObsErr::Rejected(_)) => {
                c.r.count("field_mutants_rejected_by_parser", 1);
                continue;
            }
            Err(ObsErr::Panic(p)) => {
                c.r.violation(&format!("C04:{v}:panic:{}", panic_class(&p)), format!("panic while parsing / hashing a transaction with mutated {name}: {p}"), replay(&mb, k.branch, k.coins, json!({"field": name})));
                continue;
            }
        };
        c.r.case(&("field", v, k.parts.bundle_bitmap(), name, special), true);
        c.r.count("field_mutations", 1);
        c.fields_mutated.insert((v.replace('+', "hi"), name));
        if !ver.zip244() && tx1.txid().as_ref() != &txgen::sha256d(&mb) {
            c.r.violation(&format!("C04:{v}:txid-not-sha256d"), "txid of a pre-v5 transaction is not sha256d of its serialisation", replay(&mb, k.branch, k.coins, json!({"field": name})));
        }
        let cover = f.cover;
        let role = f.role;
        let sh = |ht: Option<u8>, j: Option<usize>| -> (Want, &'static str) {
            let rel = match cover {
                Cover::Prevout(i) | Cover::Sequence(i) => match j {
                    Some(j) if j == i => "own-input",
                    Some(_) => "other-input",
                    None => "",
                },
                Cover::Output(o) => match j {
                    Some(j) if j == o => "same-index",
                    Some(_) => "other-index",
                    None => "",
                },
                _ => "",
            };
            let cov = wire::covered(ver, cover, ht.unwrap_or(1), j, special, n_out);
            (if cov { Want::Change } else { Want::Same }, rel)
        };
        let e = match (role, ver.zip244()) {
            (Role::Effecting, _) => Expect { what: name, txid: Want::Change, auth: Want::NoClaim, sighash: &sh },
            (Role::Authorising, true) => Expect { what: name, txid: Want::Same, auth: Want::Change, sighash: &sh },
            (Role::Authorising, false) => Expect { what: name, txid: Want::Change, auth: Want::NoClaim, sighash: &sh },
            (Role::Structural, _) => unreachable!(),
        };
        if role == Role::Authorising {
            c.r.count("authorising_field_mutations", 1);
        }
        let idx = f.idx;
        compare(c, ver, &e, k.d0, &d1, &|| replay(k.bytes, k.branch, k.coins, json!({"field": name, "index": idx, "mutant_hex": if mb.len() <= 30_000 { hexs(&mb) } else { String::new() }})));
    }
}

fn coin_matrix(c: &mut Ctx, k: &Case) {
    let ver = k.parts.ver;
    if !ver.overwintered() || k.coins.is_empty() {
        return;
    }
    let special = ver.zip244() && (k.parts.is_coinbase() || k.parts.vin.is_empty());
    let kidx = c.rng.gen_range(0..k.coins.len());
    for which in ["coin.value", "coin.script_pubkey"] {
        let mut coins = k.coins.to_vec();
        if which == "coin.value" {
            coins[kidx].value = other_amount(&mut c.rng, coins[kidx].value, false);
        } else if coins[kidx].script.is_empty() || c.rng.gen_bool(0.3) {
            let l = coins[kidx].script.len() + 1;
            coins[kidx].script = txgen::rand_script(&mut c.rng, l);
        } else {
            let i = c.rng.gen_range(0..coins[kidx].script.len());
            coins[kidx].script[i] ^= 1 << c.rng.gen_range(0..8);
        }
        let d1 = match observe(k.bytes, k.branch, &coins, k.inputs) {
            Ok(x) => x.1,
            Err(ObsErr::Panic(p)) => {
                c.r.violation(&format!("C04:{}:panic:{}", ver.label(), panic_class(&p)), p, replay(k.bytes, k.branch, &coins, json!({"coin": kidx})));
                continue;
            }
            Err(ObsErr::Rejected(_)) => continue,
        };
        c.r.case(&("coin", ver.label(), which, special, k.coins.len().min(3)), true);
        c.r.count("coin_mutations", 1);
        let sh = |ht: Option<u8>, j: Option<usize>| -> (Want, &'static str) {
            let rel = match j {
                Some(j) if j == kidx => "own-input",
                Some(_) => "other-input",
                None => "",
            };
            if special {
                // coinbase: the transparent part of the signature digest is the txid digest (S.2 unused)
                return (Want::NoClaim, rel);
            }
            let acp = ht.unwrap_or(1) & 0x80 != 0;
            let cov = if ver.zip244() {
                match j {
                    None => true, // shielded signatures use hash type ALL: amounts and scripts digests
                    Some(j) => !acp || j == kidx,
                }
            } else {
                // ZIP 143/243: only the coin being spent by the signed input
                j == Some(kidx)
            };
            (if cov { Want::Change } else { Want::Same }, rel)
        };
        let e = Expect { what: which, txid: Want::Same, auth: Want::Same, sighash: &sh };
        compare(c, ver, &e, k.d0, &d1, &|| replay(k.bytes, k.branch, k.coins, json!({"coin": kidx, "mutated_coins": coins_json(&coins)})));
    }
}

/// The hash type itself is committed: for one input the six digests are pairwise distinct
/// (except in the documented coinbase case of ZIP 244, where S.2 is not used).
fn hash_type_commitment(c: &mut Ctx, k: &Case) {
    let ver = k.parts.ver;
    let special = ver.zip244() && (k.parts.is_coinbase() || k.parts.vin.is_empty());
    if special {
        c.r.count("coinbase_sighash_cases", 1);
        return;
    }
    let mut by_input: BTreeMap<usize, Vec<(u8, [u8; 32])>> = BTreeMap::new();
    for (i, ht, h) in &k.d0.transparent {
        by_input.entry(*i).or_default().push((*ht, *h));
    }
    for (i, v) in by_input {
        c.r.evals(1);
        for a in 0..v.len() {
            for b in a + 1..v.len() {
                if v[a].1 == v[b].1 {
                    c.r.violation(
                        &format!("C04:{}:hash-type-not-committed:{}={}", ver.label(), ht_name(Some(v[a].0)), ht_name(Some(v[b].0))),
                        format!("signature hashes of input {i} under two different hash types are equal"),
                        replay(k.bytes, k.branch, k.coins, json!({"input": i})),
                    );
                }
            }
        }
        if let Some(s) = k.d0.shielded {
            if v.iter().any(|x| x.1 == s) {
                c.r.violation(&format!("C04:{}:transparent-sighash-equals-shielded", ver.label()), format!("the signature hash of transparent input {i} equals the shielded one (the input being signed is not committed)"), replay(k.bytes, k.branch, k.coins, json!({"input": i})));
            }
        }
        c.r.count("hash_type_distinctness_checks", 1);
    }
}

/// Structural mutations of the effecting data: whole elements / bundles removed or added.
fn structure_matrix(c: &mut Ctx, pool: &Pool, k: &Case) {
    let ver = k.parts.ver;
    let mut variants: Vec<(&'static str, Parts, Vec<Coin>)> = vec![];
    let p = k.parts;
    if !p.vout.is_empty() {
        let mut q = p.clone();
        q.vout.pop();
        variants.push(("drop-last-vout", q, k.coins.to_vec()));
    }
    {
        let mut q = p.clone();
        q.vout.push(wire::TxOut { value: txgen::rand_amount_unsigned(&mut c.rng), script: txgen::rand_script(&mut c.rng, 5) });
        variants.push(("append-vout", q, k.coins.to_vec()));
    }
    if p.vin.len() >= 2 {
        let mut q = p.clone();
        q.vin.pop();
        let mut cs = k.coins.to_vec();
        cs.pop();
        variants.push(("drop-last-vin", q, cs));
    }
    if p.outputs.len() >= 2 {
        let mut q = p.clone();
        q.outputs.pop();
        variants.push(("drop-last-sapling-output", q, k.coins.to_vec()));
    }
    if p.spends.len() >= 2 {
        let mut q = p.clone();
        q.spends.pop();
        variants.push(("drop-last-sapling-spend", q, k.coins.to_vec()));
    }
    if !(p.spends.is_empty() && p.outputs.is_empty()) && (p.bundle_bitmap().count_ones() >= 2) {
        let mut q = p.clone();
        q.spends.clear();
        q.outputs.clear();
        variants.push(("drop-sapling-bundle", q, k.coins.to_vec()));
    }
    if !p.js.is_empty() {
        let mut q = p.clone();
        q.js.pop();
        variants.push(("drop-last-joinsplit", q, k.coins.to_vec()));
    }
    for (iron, name_drop, name_pop) in [(false, "drop-orchard-bundle", "drop-last-orchard-action"), (true, "drop-ironwood-bundle", "drop-last-ironwood-action")] {
        let ob = if iron { &p.ironwood } else { &p.orchard };
        if let Some(ob) = ob {
            let mut q = p.clone();
            if iron {
                q.ironwood = None;
            } else {
                q.orchard = None;
            }
            variants.push((name_drop, q, k.coins.to_vec()));
            if ob.actions.len() >= 2 && ob.proof.len() == txgen::canonical_proof_len(ob.actions.len()) {
                let mut q = p.clone();
                let b = if iron { q.ironwood.as_mut().unwrap() } else { q.orchard.as_mut().unwrap() };
                b.actions.pop();
                b.proof.truncate(txgen::canonical_proof_len(b.actions.len()));
                variants.push((name_pop, q, k.coins.to_vec()));
            }
        }
    }
    let _ = pool;
    variants.shuffle(&mut c.rng);
    for (what, mut q, coins) in variants.into_iter().take(4) {
        if !c.r.time_left() {
            return;
        }
        q.normalise();
        let (mb, _) = wire::encode(&q);
        let inputs: Vec<usize> = k.inputs.iter().copied().filter(|i| *i < q.vin.len()).collect();
        let d1 = match observe(&mb, k.branch, &coins, &inputs) {
            Ok(x) => x.1,
            Err(ObsErr::Panic(p)) => {
                c.r.violation(&format!("C04:{}:panic:{}", ver.label(), panic_class(&p)), p, replay(&mb, k.branch, &coins, json!({"structure": what})));
                continue;
            }
            Err(ObsErr::Rejected(_)) => {
                c.r.count("structure_mutants_rejected_by_parser", 1);
                continue;
            }
        };
        c.r.case(&("structure", ver.label(), what), true);
        c.r.count("structure_mutations", 1);
        c.r.evals(2);
        if d1.txid == k.d0.txid {
            c.r.violation(&format!("C04:{}:{what}:txid-unchanged", ver.label()), format!("{what}: the transaction id did not change"), replay(k.bytes, k.branch, k.coins, json!({"structure": what, "mutant_hex": hexs(&mb[..mb.len().min(20_000)])})));
        }
        if let (Some(a), Some(b)) = (k.d0.shielded, d1.shielded) {
            if a == b {
                c.r.violation(&format!("C04:{}:{what}:sighash:shielded-unchanged", ver.label()), format!("{what}: the shielded signature hash did not change"), replay(k.bytes, k.branch, k.coins, json!({"structure": what, "mutant_hex": hexs(&mb[..mb.len().min(20_000)])})));
            }
        }
        // hash type ALL commits to every input, output and bundle
        for (i, ht, h) in &d1.transparent {
            if *ht == 1 {
                if let Some(orig) = k.d0.transparent.iter().find(|x| x.0 == *i && x.1 == 1) {
                    c.r.evals(1);
                    if orig.2 == *h {
                        c.r.violation(&format!("C04:{}:{what}:sighash:ALL-unchanged", ver.label()), format!("{what}: the SIGHASH_ALL digest of input {i} did not change"), replay(k.bytes, k.branch, k.coins, json!({"structure": what, "input": i})));
                    }
                }
            }
        }
    }
}

fn one_case(c: &mut Ctx, pool: &Pool, parts: &Parts, branch: BranchId, origin: &str, matrix_budget: usize) {
    let ver = parts.ver;
    let v = ver.label();
    let (bytes, fields) = wire::encode(parts);
    let coins = txgen::rand_coins(&mut c.rng, parts.vin.len());
    let mut inputs: Vec<usize> = (0..parts.vin.len()).collect();
    if inputs.len() > 5 {
        // keep input 0, the last one, one at/after the number of outputs (SINGLE out of range) and two random ones
        let mut keep: BTreeSet<usize> = [0, inputs.len() - 1].into_iter().collect();
        if parts.vout.len() < inputs.len() {
            keep.insert(parts.vout.len());
        }
        while keep.len() < 5 {
            keep.insert(c.rng.gen_range(0..inputs.len()));
        }
        inputs = keep.into_iter().collect();
    }
    let (tx, d0) = match observe(&bytes, branch, &coins, &inputs) {
        Ok(x) => x,
        Err(ObsErr::Rejected(e)) => {
            // C03's business (well-formed rejected); here the generator's case is unusable
            c.r.inconclusive(&format!("generated {v} transaction rejected by the parser: {e}"));
            return;
        }
        Err(ObsErr::Panic(p)) => {
            c.r.violation(&format!("C04:{v}:panic:{}", panic_class(&p)), format!("panic while parsing / hashing a well-formed {v} transaction: {p}"), replay(&bytes, branch, &coins, json!(null)));
            return;
        }
    };
    let special = ver.zip244() && (parts.is_coinbase() || parts.vin.is_empty());
    let single_oob = inputs.iter().any(|i| *i >= parts.vout.len());
    c.r.case(&("tx", v, txgen::branch_name(branch), parts.bundle_bitmap(), parts.vin.len().min(4), parts.vout.len().min(4), special, single_oob), parts.bundle_bitmap() != 0);
    c.r.count(&format!("tx_{}", v.replace('+', "hi")), 1);
    c.r.count("sighashes_observed", d0.transparent.len() as u64 + d0.shielded.is_some() as u64);
    if single_oob && !parts.vin.is_empty() {
        c.r.count("single_index_beyond_outputs_cases", 1);
    }
    if parts.is_coinbase() {
        c.r.count("coinbase_cases", 1);
    }
    if ver.zip244() && parts.vin.is_empty() {
        c.r.count("v5plus_without_transparent_inputs", 1);
    }
    if !ver.zip244() {
        c.r.evals(1);
        if tx.txid().as_ref() != &txgen::sha256d(&bytes) {
            c.r.violation(&format!("C04:{v}:txid-not-sha256d"), "txid of a pre-v5 transaction is not sha256d of its serialisation", replay(&bytes, branch, &coins, json!(null)));
        }
    }
    // the identifiers must not depend on how the reader delivers the bytes (the pre-v5 txid is
    // computed by a hashing reader while parsing): the same bytes through a reader that returns
    // short, irregular reads
    {
        struct Dribble<'a>(&'a [u8], usize, usize);
        impl std::io::Read for Dribble<'_> {
            fn read(&mut self, buf: &mut [u8]) -> std::io::Result<usize> {
                self.2 = self.2 % 7 + 1;
                let n = self.2.min(buf.len()).min(self.0.len() - self.1);
                buf[..n].copy_from_slice(&self.0[self.1..self.1 + n]);
                self.1 += n;
                Ok(n)
            }
        }
        let start = c.rng.gen_range(0..7);
        c.r.evals(1);
        c.r.count("parses_through_short_read_reader", 1);
        match guard(|| Transaction::read(Dribble(&bytes, 0, start), branch)) {
            Ok(Ok(t)) => {
                if t.txid() != tx.txid() {
                    c.r.violation(&format!("C04:{v}:txid-depends-on-reader-chunking"), format!("txid {} from a slice, {} when the same bytes arrive in pieces of 1..7 bytes", hexs(tx.txid().as_ref()), hexs(t.txid().as_ref())), replay(&bytes, branch, &coins, json!(null)));
                }
                if t.auth_commitment().as_bytes() != tx.auth_commitment().as_bytes() {
                    c.r.violation(&format!("C04:{v}:auth-commitment-depends-on-reader-chunking"), "authorizing commitment differs between slice and short-read parse".to_string(), replay(&bytes, branch, &coins, json!(null)));
                }
            }
            Ok(Err(e)) => c.r.violation(&format!("C04:{v}:short-read-parse-rejected"), format!("accepted from a slice, rejected in pieces: {e}"), replay(&bytes, branch, &coins, json!(null))),
            Err(p) => c.r.violation(&format!("C04:{v}:panic:{}", panic_class(&p)), p, replay(&bytes, branch, &coins, json!(null))),
        }
    }
    // the event budget goes to v5 first (the only version with an independent digest reference)
    let ev_ok = if ver == Ver::V5 { c.events_left > 0 } else { c.events_left > c.events_reserved_v5 };
    if ev_ok && c.r.has_events() && bytes.len() <= 80_000 {
        c.events_left -= 1;
        if ver == Ver::V5 {
            c.events_reserved_v5 = c.events_reserved_v5.saturating_sub(1);
        }
        c.r.count("events_logged", 1);
        c.r.event(&json!({
            "hex": hexs(&bytes), "branch": txgen::branch_name(branch), "branch_id": u32::from(branch), "ver": v, "origin": origin,
            "coins": coins_json(&coins), "txid": hexs(&d0.txid), "auth": hexs(&d0.auth),
            "shielded": d0.shielded.map(|h| hexs(&h)),
            "t": d0.transparent.iter().map(|(i, ht, h)| json!([i, ht, hexs(h)])).collect::<Vec<_>>(),
        }));
    }
    c.r.sample(&format!("tx:{v}"), json!({"origin": origin, "version": v, "branch": txgen::branch_name(branch), "bytes": bytes.len(), "bundles_bitmap": parts.bundle_bitmap(),
        "vin": parts.vin.len(), "vout": parts.vout.len(), "coinbase": parts.is_coinbase(), "sighashes": d0.transparent.len() + 1, "txid": hexs(&d0.txid)}));
    let k = Case { parts, bytes: &bytes, fields: &fields, branch, coins: &coins, inputs: &inputs, d0: &d0 };
    hash_type_commitment(c, &k);
    field_matrix(c, pool, &k, matrix_budget);
    coin_matrix(c, &k);
    structure_matrix(c, pool, &k);
    // pre-v5: the consensus branch id is not serialised but personalises the signature hash
    if !ver.zip244() && ver.overwintered() {
        let other = *txgen::BRANCHES.iter().filter(|b| **b != branch).collect::<Vec<_>>().choose(&mut c.rng).unwrap();
        if let Ok((t2, d2)) = observe(&bytes, *other, &coins, &inputs) {
            c.r.evals(2);
            if t2.txid() != tx.txid() {
                c.r.violation(&format!("C04:{v}:txid-depends-on-branch-argument"), "pre-v5 txid changed with the consensus branch id passed to read", replay(&bytes, branch, &coins, json!({"other_branch": txgen::branch_name(*other)})));
            }
            if d2.shielded == d0.shielded {
                c.r.violation(&format!("C04:{v}:consensus-branch-id:sighash:shielded-unchanged"), "ZIP 143/243 signature hash does not commit to the consensus branch id", replay(&bytes, branch, &coins, json!({"other_branch": txgen::branch_name(*other)})));
            }
            c.r.count("branch_personalisation_checks", 1);
        }
    }
}

fn main() {
    vh_common::install_panic_hook();
    let args = Args::parse();
    let r = Reporter::new("C04", &args);
    let rng = vh_common::rng(args.shard_seed(), 0xC04);
    let thorough = args.tier == Tier::Thorough;
    let mut c = Ctx { r, rng, events_left: args.get_u64("n-events", 230) as usize, events_reserved_v5: (args.get_u64("n-events", 230) * 6 / 10) as usize, fields_mutated: BTreeSet::new() };
    let max_cases = args.get_u64("max-cases", if thorough { 40_000 } else { 2_000 }) as usize;
    let matrix_budget = args.get_u64("fields-per-tx", 80) as usize;

    // raw material (and cases) from the repository's own strategies
    let mut pool = Pool::default();
    let mut runner = vh_common::proptest_runner(args.shard_seed(), 0xC04);
    let mut arb: Vec<(Parts, BranchId)> = vec![];
    let mut tries = 0usize;
    let want_arb = args.get_u64("arb", if thorough { 30 } else { 5 }) as usize;
    let mut order: Vec<BranchId> = vec![BranchId::Nu6_3, BranchId::Canopy, BranchId::Nu6_2];
    let mut rest: Vec<BranchId> = txgen::BRANCHES.iter().copied().filter(|b| !order.contains(b)).collect();
    let rl = rest.len();
    rest.rotate_left(args.shard as usize % rl);
    order.extend(rest);
    while (arb.len() < want_arb || !pool.ready()) && tries < 80 && c.r.time_left() {
        let b = order[tries % order.len()];
        tries += 1;
        if let Ok(Some(t0)) = guard(|| txgen::draw_arb_tx(&mut runner, b)) {
            // normalise through one write -> read (arb_tx values may not be representable)
            let Ok(Ok(bytes)) = guard(|| txgen::write_tx(&t0)) else { continue };
            let Ok(Ok(t1)) = guard(|| Transaction::read(&bytes[..], b)) else { continue };
            let p = txgen::tx_to_parts(&t1);
            pool.absorb(&p);
            arb.push((p, b));
        }
    }
    if !pool.ready() {
        c.r.inconclusive("material pool incomplete");
        c.r.finish();
        return;
    }
    for (p, b) in &arb {
        if !c.r.time_left() {
            break;
        }
        // large generated transactions: observe + log, but keep the matrix small
        c.r.count("arb_tx_cases", 1);
        one_case(&mut c, &pool, p, *b, "arb_tx", 25);
    }

    // every valid pair; v5 / v6 (ZIP 244, the statement's focus) over-weighted
    let mut pairs = txgen::valid_pairs();
    for (sel, b) in txgen::valid_pairs() {
        match sel {
            txgen::VerSel::V5 => pairs.extend([(sel, b); 2]),
            txgen::VerSel::V6 => pairs.extend([(sel, b); 9]),
            txgen::VerSel::V3 => pairs.extend([(sel, b); 2]),
            _ => {}
        }
    }
    let shapes = [Shape::Small, Shape::Small, Shape::TransparentOnly, Shape::Small, Shape::Coinbase, Shape::Small, Shape::Empty, Shape::Small, Shape::SpendsOnly, Shape::OutputsOnly, Shape::Small, Shape::TransparentOnly];
    let mut i = 0usize;
    let off = args.shard as usize * 5;
    while i < max_cases && c.r.time_left() {
        let (sel, branch) = pairs[(i + off) % pairs.len()];
        let shape = shapes[((i + off) / pairs.len()) % shapes.len()];
        let ver = txgen::pick_ver(&mut c.rng, sel);
        let mut parts = txgen::compose(&mut c.rng, &pool, ver, branch, shape);
        if matches!(shape, Shape::SpendsOnly | Shape::OutputsOnly | Shape::Empty) {
            // keep these small as well
            parts.vin.truncate(3);
            parts.vout.truncate(3);
            parts.spends.truncate(3);
            parts.outputs.truncate(3);
            parts.js.truncate(1);
            for ob in [parts.orchard.as_mut(), parts.ironwood.as_mut()].into_iter().flatten() {
                if ob.actions.len() > 3 && ob.proof.len() == txgen::canonical_proof_len(ob.actions.len()) {
                    ob.actions.truncate(3);
                    ob.proof.truncate(txgen::canonical_proof_len(3));
                }
            }
            parts.normalise();
        }
        one_case(&mut c, &pool, &parts, branch, "composed", matrix_budget);
        i += 1;
    }
    // field coverage: one counter per (version, field) so that the driver can report covered/total
    let muts: Vec<(String, &'static str)> = c.fields_mutated.iter().cloned().collect();
    for (v, name) in muts {
        c.r.count(&format!("fm:{v}:{name}"), 1);
    }
    c.r.finish();
}
