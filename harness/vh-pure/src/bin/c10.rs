//! C10 — address strings: parsing and encoding are inverse and enforce ZIP 316; F4Jumble is a
//! length-preserving bijection on its valid lengths; no input string panics.
//!
//! Sections (each capped by an operation count and by a share of the wall-clock budget):
//!  (a) values -> strings -> values for every kind x network, unified containers hand-built from
//!      arbitrary known/unknown items through `try_from_items` (addresses, UFVKs, UIVKs);
//!  (p) the Python-encoded case file (`--cases`): well-formed and *malformed* containers/strings with
//!      the reference verdict; disagreement with the real parser is a violation;
//!  (c) near-valid strings: random edits of valid strings; (b) whatever is accepted anywhere must
//!      re-encode to its trimmed self; verdicts of the edits are decided by the Python reference
//!      over the event log;
//!  (d) F4Jumble: inverse / length / injectivity / in-place == allocating / invalid lengths, dense at
//!      both ends of the valid range; outputs are re-computed by `f4jumble.py` from the event log;
//!  (e) arbitrary Unicode and very long strings: no panic;
//!  (f) `zcash_keys::address::Address::{decode,encode}`, `AddressCodec`, `TryFromAddress`/`ToAddress`
//!      agree with (a).
//!
//! Independence: expected values of (a) are the bytes the harness itself put in; the grammar is
//! re-implemented in `lib/pyref` (Bech32/Bech32m, Base58Check, F4Jumble, ZIP 316) and applied to the
//! event log, so the oracle shares no code with `/repo`.

use std::collections::BTreeSet;
use std::io::BufRead;

use proptest::prelude::*;
use sha2::{Digest, Sha256};
use vh_common::rand::{Rng, RngCore, seq::SliceRandom};
use vh_common::rand_chacha::ChaCha20Rng;
use vh_common::{Args, Reporter, Value, draw, guard, hexs, json};

use zcash_address::unified::{self, Container, Encoding, Fvk, Ivk, Receiver};
use zcash_address::{ConversionError, ToAddress, TryFromAddress, ZcashAddress};
use zcash_keys::address::{Address, UnifiedAddress};
use zcash_keys::encoding::AddressCodec;
use zcash_keys::keys::{ReceiverRequirement, UnifiedAddressRequest, UnifiedSpendingKey};
use zcash_protocol::consensus::{BlockHeight, NetworkType, NetworkUpgrade, Parameters};
use zcash_transparent::address::TransparentAddress;

const NETS: [NetworkType; 3] = [NetworkType::Main, NetworkType::Test, NetworkType::Regtest];
const MAX_COMPACT: u32 = 0x0200_0000;
const F4_MIN: usize = 48;
const F4_MAX: usize = 4_194_368;

/// Consensus parameters that only carry the network type (address encodings need nothing else).
#[derive(Clone, Copy, Debug)]
struct P(NetworkType);
impl Parameters for P {
    fn network_type(&self) -> NetworkType {
        self.0
    }
    fn activation_height(&self, _nu: NetworkUpgrade) -> Option<BlockHeight> {
        None
    }
}

/// `vh_common::panic_class`, additionally cut at the first '[': some panics of the code under test
/// print the offending byte array, which must not become part of a class signature.
fn panic_class(p: &str) -> String {
    let c = vh_common::panic_class(p);
    match (c.find('['), c.rsplit_once(" @ ")) {
        (Some(i), Some((_, file))) if i < c.len() - file.len() => format!("{} @ {file}", c[..i].trim_end()),
        _ => c,
    }
}

fn net_name(n: NetworkType) -> &'static str {
    match n {
        NetworkType::Main => "main",
        NetworkType::Test => "test",
        NetworkType::Regtest => "regtest",
    }
}

/// What an address *is*, observed through the public conversion trait (the fields of
/// `ZcashAddress` are private): kind, network handed to the converter, payload bytes.
#[derive(Clone, Debug, PartialEq, Eq, Hash)]
enum Obs {
    Sprout(Vec<u8>),
    Sapling(Vec<u8>),
    Unified(Vec<(u32, Vec<u8>)>),
    P2pkh(Vec<u8>),
    P2sh(Vec<u8>),
    Tex(Vec<u8>),
}

impl Obs {
    fn kind(&self) -> &'static str {
        match self {
            Obs::Sprout(_) => "sprout",
            Obs::Sapling(_) => "sapling",
            Obs::Unified(_) => "unified",
            Obs::P2pkh(_) => "p2pkh",
            Obs::P2sh(_) => "p2sh",
            Obs::Tex(_) => "tex",
        }
    }
    /// testnet and regtest share the Base58Check prefixes of these kinds (documented exception)
    fn shares_test_prefix(&self) -> bool {
        matches!(self, Obs::Sprout(_) | Obs::P2pkh(_) | Obs::P2sh(_))
    }
    fn to_json(&self, net: NetworkType) -> Value {
        match self {
            Obs::Unified(items) => json!({"kind": "unified", "net": net_name(net), "items": items_json(items)}),
            Obs::Sprout(d) | Obs::Sapling(d) | Obs::P2pkh(d) | Obs::P2sh(d) | Obs::Tex(d) => {
                json!({"kind": self.kind(), "net": net_name(net), "data": hexs(d)})
            }
        }
    }
}

fn items_json(items: &[(u32, Vec<u8>)]) -> Value {
    Value::Array(items.iter().map(|(t, d)| json!([t, hexs(d)])).collect())
}

#[derive(Clone, Debug, PartialEq, Eq)]
struct ObsAddr(NetworkType, Obs);

impl TryFromAddress for ObsAddr {
    type Error = ();
    fn try_from_sprout(net: NetworkType, data: [u8; 64]) -> Result<Self, ConversionError<()>> {
        Ok(ObsAddr(net, Obs::Sprout(data.to_vec())))
    }
    fn try_from_sapling(net: NetworkType, data: [u8; 43]) -> Result<Self, ConversionError<()>> {
        Ok(ObsAddr(net, Obs::Sapling(data.to_vec())))
    }
    fn try_from_unified(net: NetworkType, data: unified::Address) -> Result<Self, ConversionError<()>> {
        Ok(ObsAddr(net, Obs::Unified(receiver_items(data.items_as_parsed()))))
    }
    fn try_from_transparent_p2pkh(net: NetworkType, data: [u8; 20]) -> Result<Self, ConversionError<()>> {
        Ok(ObsAddr(net, Obs::P2pkh(data.to_vec())))
    }
    fn try_from_transparent_p2sh(net: NetworkType, data: [u8; 20]) -> Result<Self, ConversionError<()>> {
        Ok(ObsAddr(net, Obs::P2sh(data.to_vec())))
    }
    fn try_from_tex(net: NetworkType, data: [u8; 20]) -> Result<Self, ConversionError<()>> {
        Ok(ObsAddr(net, Obs::Tex(data.to_vec())))
    }
}

// ZIP 316 typecodes, written down from the ZIP (not taken from the `Typecode` conversion under test).
fn receiver_items(rs: &[Receiver]) -> Vec<(u32, Vec<u8>)> {
    rs.iter()
        .map(|r| match r {
            Receiver::P2pkh(d) => (0, d.to_vec()),
            Receiver::P2sh(d) => (1, d.to_vec()),
            Receiver::Sapling(d) => (2, d.to_vec()),
            Receiver::Orchard(d) => (3, d.to_vec()),
            Receiver::Unknown { typecode, data } => (*typecode, data.clone()),
        })
        .collect()
}
fn fvk_items(rs: &[Fvk]) -> Vec<(u32, Vec<u8>)> {
    rs.iter()
        .map(|r| match r {
            Fvk::P2pkh(d) => (0, d.to_vec()),
            Fvk::Sapling(d) => (2, d.to_vec()),
            Fvk::Orchard(d) => (3, d.to_vec()),
            Fvk::Unknown { typecode, data } => (*typecode, data.clone()),
        })
        .collect()
}
fn ivk_items(rs: &[Ivk]) -> Vec<(u32, Vec<u8>)> {
    rs.iter()
        .map(|r| match r {
            Ivk::P2pkh(d) => (0, d.to_vec()),
            Ivk::Sapling(d) => (2, d.to_vec()),
            Ivk::Orchard(d) => (3, d.to_vec()),
            Ivk::Unknown { typecode, data } => (*typecode, data.clone()),
        })
        .collect()
}

/// Item list -> typed items of a container kind; `None` when a known typecode carries data of the
/// wrong length (not representable as a value at all).
fn to_receivers(items: &[(u32, Vec<u8>)]) -> Option<Vec<Receiver>> {
    items
        .iter()
        .map(|(t, d)| {
            Some(match t {
                0 => Receiver::P2pkh(d.as_slice().try_into().ok()?),
                1 => Receiver::P2sh(d.as_slice().try_into().ok()?),
                2 => Receiver::Sapling(d.as_slice().try_into().ok()?),
                3 => Receiver::Orchard(d.as_slice().try_into().ok()?),
                _ => Receiver::Unknown { typecode: *t, data: d.clone() },
            })
        })
        .collect()
}
fn to_fvks(items: &[(u32, Vec<u8>)]) -> Option<Vec<Fvk>> {
    items
        .iter()
        .map(|(t, d)| {
            Some(match t {
                0 => Fvk::P2pkh(d.as_slice().try_into().ok()?),
                1 => return None,
                2 => Fvk::Sapling(d.as_slice().try_into().ok()?),
                3 => Fvk::Orchard(d.as_slice().try_into().ok()?),
                _ => Fvk::Unknown { typecode: *t, data: d.clone() },
            })
        })
        .collect()
}
fn to_ivks(items: &[(u32, Vec<u8>)]) -> Option<Vec<Ivk>> {
    items
        .iter()
        .map(|(t, d)| {
            Some(match t {
                0 => Ivk::P2pkh(d.as_slice().try_into().ok()?),
                1 => return None,
                2 => Ivk::Sapling(d.as_slice().try_into().ok()?),
                3 => Ivk::Orchard(d.as_slice().try_into().ok()?),
                _ => Ivk::Unknown { typecode: *t, data: d.clone() },
            })
        })
        .collect()
}

fn known_len(kind: &str, tc: u32) -> Option<usize> {
    match (kind, tc) {
        ("addr", 0) | ("addr", 1) => Some(20),
        ("addr", 2) | ("addr", 3) => Some(43),
        ("ufvk", 0) | ("uivk", 0) => Some(65),
        ("ufvk", 2) => Some(128),
        ("ufvk", 3) => Some(96),
        ("uivk", 2) | ("uivk", 3) => Some(64),
        _ => None,
    }
}

struct Ctx {
    r: Reporter,
    rng: ChaCha20Rng,
    /// valid strings collected in (a)/(f), raw material for (c)
    corpus: Vec<String>,
    events_left: u64,
}

impl Ctx {
    fn viol(&mut self, class: &str, detail: String, replay: Value) {
        self.r.violation(&format!("C10:{class}"), detail, replay);
    }

    fn ev(&mut self, v: Value) {
        // multi-megabyte strings are not sent to the Python oracle (seconds each there)
        if v["s"].as_str().map(|s| s.len()).unwrap_or(0) > 300_000 {
            return;
        }
        if self.events_left > 0 && self.r.has_events() {
            self.events_left -= 1;
            self.r.event(&v);
            self.r.count("events_emitted", 1);
        }
    }

    fn bytes(&mut self, n: usize) -> Vec<u8> {
        let mut v = vec![0u8; n];
        // mostly random, sometimes all-zero / all-ones payloads (leading zero bytes matter for Base58)
        match self.rng.gen_range(0..12) {
            0 => {}
            1 => v.iter_mut().for_each(|b| *b = 0xff),
            2 => {
                self.rng.fill_bytes(&mut v);
                let k = self.rng.gen_range(0..=n.min(4));
                v[..k].iter_mut().for_each(|b| *b = 0);
            }
            _ => self.rng.fill_bytes(&mut v),
        }
        v
    }

    /// Feeds `s` to one entry point of the code under test and enforces (b) on whatever is accepted:
    /// it must re-encode to its trimmed self (`zaddr`; the container decoders do not trim).
    /// `Err(())` = panicked (already reported), `Ok(None)` = rejected.
    fn observe(&mut self, api: &str, s: &str, origin: &str) -> Result<Option<Parsed>, ()> {
        type Raw = Option<(NetworkType, Obs, String)>;
        let res: Result<Raw, String> = match api {
            "zaddr" => guard(|| {
                ZcashAddress::try_from_encoded(s).ok().map(|addr| {
                    let enc = addr.encode();
                    let ObsAddr(n, o) = addr.convert::<ObsAddr>().expect("ObsAddr conversion is total");
                    (n, o, enc)
                })
            }),
            "ua" => guard(|| {
                unified::Address::decode(s)
                    .ok()
                    .map(|(n, v)| (n, Obs::Unified(receiver_items(v.items_as_parsed())), v.encode(&n)))
            }),
            "ufvk" => guard(|| {
                unified::Ufvk::decode(s)
                    .ok()
                    .map(|(n, v)| (n, Obs::Unified(fvk_items(v.items_as_parsed())), v.encode(&n)))
            }),
            "uivk" => guard(|| {
                unified::Uivk::decode(s)
                    .ok()
                    .map(|(n, v)| (n, Obs::Unified(ivk_items(v.items_as_parsed())), v.encode(&n)))
            }),
            _ => unreachable!(),
        };
        match res {
            Err(p) => {
                self.viol(
                    &format!("parse-panic:{api}:{}", panic_class(&p)),
                    format!("{api} parser panicked ({origin}): {p}"),
                    json!({"api": api, "s": clip(s)}),
                );
                Err(())
            }
            Ok(None) => Ok(None),
            Ok(Some((net, obs, enc))) => {
                let want = if api == "zaddr" { s.trim() } else { s };
                let canonical = enc == want;
                if !canonical {
                    // the decoding site: Sapling and TEX have their own Bech32 paths in
                    // encoding.rs; all unified containers share `unified::Encoding::decode`
                    let site = match (&obs, api) {
                        (Obs::Unified(_), _) => "unified-container",
                        (o, _) => o.kind(),
                    };
                    self.viol(
                        &format!("accepted-noncanonical:{site}:{}", noncanonical_class(want, &enc)),
                        format!("{api} parser accepted {:?} but it re-encodes to {:?}", clip(s), clip(&enc)),
                        json!({"api": api, "s": clip(s), "reencoded": clip(&enc)}),
                    );
                }
                self.r.count("accepted_strings_reencoded", 1);
                Ok(Some(Parsed { net, obs, canonical }))
            }
        }
    }

    /// Outer safety net: a case function that panics outside its own `guard`ed calls (an encoder or
    /// converter of the code under test blowing up on a value) is a reported panic, not a dead shard.
    fn protect(&mut self, section: &str, replay: Value, f: impl FnOnce(&mut Ctx)) {
        if let Err(p) = guard(|| f(self)) {
            self.viol(&format!("panic:{section}:{}", panic_class(&p)), format!("panicked in {section}: {p}"), replay);
        }
    }

    fn parse_zaddr(&mut self, s: &str, origin: &str) -> Option<ObsAddr> {
        self.observe("zaddr", s, origin).ok().flatten().map(|p| ObsAddr(p.net, p.obs))
    }
}

#[derive(Clone, Debug)]
struct Parsed {
    net: NetworkType,
    obs: Obs,
    canonical: bool,
}

fn clip(s: &str) -> String {
    if s.len() <= 2000 {
        s.to_string()
    } else {
        let mut end = 1000;
        while !s.is_char_boundary(end) {
            end += 1;
        }
        format!("{}...<{} bytes>", &s[..end], s.len())
    }
}

/// Why an accepted string differs from its canonical encoding (specific class signature).
/// The two Bech32 classes are decided on the 5-bit groups themselves: everything but the last
/// data group (resp. everything but the last group plus one superfluous group) must coincide, so
/// that any other way of being non-canonical gets a class of its own.
fn noncanonical_class(trimmed: &str, canonical: &str) -> &'static str {
    if trimmed.to_lowercase() == canonical && trimmed != canonical {
        return "case";
    }
    let (Some(sa), Some(sb)) = (trimmed.rfind('1'), canonical.rfind('1')) else {
        return "payload-differs";
    };
    if trimmed[..sa] != canonical[..sb] || trimmed.len() < sa + 7 || canonical.len() < sb + 7 {
        return "payload-differs";
    }
    let da = &trimmed.as_bytes()[sa + 1..trimmed.len() - 6];
    let db = &canonical.as_bytes()[sb + 1..canonical.len() - 6];
    if da.len() == db.len() && !db.is_empty() && da[..db.len() - 1] == db[..db.len() - 1] {
        "bech32-padding-bits"
    } else if da.len() == db.len() + 1 && !db.is_empty() && da[..db.len() - 1] == db[..db.len() - 1] {
        "bech32-extra-group"
    } else {
        "payload-differs"
    }
}

// ------------------------------------------------------------------------------------------------
// (a) values -> strings -> values
// ------------------------------------------------------------------------------------------------

fn build(net: NetworkType, o: &Obs) -> Option<ZcashAddress> {
    Some(match o {
        Obs::Sprout(d) => ZcashAddress::from_sprout(net, d.as_slice().try_into().ok()?),
        Obs::Sapling(d) => ZcashAddress::from_sapling(net, d.as_slice().try_into().ok()?),
        Obs::P2pkh(d) => ZcashAddress::from_transparent_p2pkh(net, d.as_slice().try_into().ok()?),
        Obs::P2sh(d) => ZcashAddress::from_transparent_p2sh(net, d.as_slice().try_into().ok()?),
        Obs::Tex(d) => ZcashAddress::from_tex(net, d.as_slice().try_into().ok()?),
        Obs::Unified(items) => {
            ZcashAddress::from_unified(net, unified::Address::try_from_items(to_receivers(items)?).ok()?)
        }
    })
}

/// The network a string of this kind carries when the value was built for `net`.
fn string_net(net: NetworkType, o: &Obs) -> NetworkType {
    if net == NetworkType::Regtest && o.shares_test_prefix() {
        NetworkType::Test
    } else {
        net
    }
}

fn value_roundtrip(c: &mut Ctx, net: NetworkType, o: &Obs, origin: &str) {
    let shape = shape_of(o);
    c.r.case(&("value", o.kind(), net_name(net), &shape, origin), true);
    let replay = json!({"net": net_name(net), "value": o.to_json(net)});
    let Some(addr) = build(net, o) else {
        c.r.inconclusive("value-not-constructible");
        return;
    };
    let s = match guard(|| addr.encode()) {
        Ok(s) => s,
        Err(p) => {
            c.viol(
                &format!("encode-panic:{}:{}", o.kind(), panic_class(&p)),
                format!("encode panicked: {p}"),
                replay,
            );
            return;
        }
    };
    let want_net = string_net(net, o);
    // parse back: the same value, through PartialEq and through the conversion trait
    match guard(|| ZcashAddress::try_from_encoded(&s)) {
        Ok(Ok(back)) => {
            let obs = back.clone().convert::<ObsAddr>().ok();
            if back != addr || obs != Some(ObsAddr(want_net, o.clone())) {
                c.viol(
                    &format!("value-roundtrip-mismatch:{}", o.kind()),
                    format!("encode->parse gave {obs:?}, expected {want_net:?} {o:?}; string {}", clip(&s)),
                    replay.clone(),
                );
            }
            if guard(|| back.encode()).ok().as_deref() != Some(s.as_str()) {
                c.viol(
                    &format!("reencode-differs:{}", o.kind()),
                    format!("parse(encode(v)).encode() != encode(v) for {}", clip(&s)),
                    replay.clone(),
                );
            }
            // network guard of convert_if_network, including the documented sharing
            for target in NETS {
                let ok = back.clone().convert_if_network::<ObsAddr>(target);
                let allowed =
                    target == want_net || (o.shares_test_prefix() && want_net == NetworkType::Test && target == NetworkType::Regtest);
                match (ok, allowed) {
                    (Ok(ObsAddr(n, oo)), true) if n == target && &oo == o => {}
                    (Err(ConversionError::IncorrectNetwork { .. }), false) => {}
                    (other, _) => c.viol(
                        &format!("convert_if_network:{}", o.kind()),
                        format!(
                            "string network {want_net:?}, target {target:?}, allowed {allowed}: got {:?}",
                            other.map_err(|e| format!("{e:?}"))
                        ),
                        replay.clone(),
                    ),
                }
            }
        }
        Ok(Err(e)) => c.viol(
            &format!("encoded-value-rejected:{}", o.kind()),
            format!("encode() produced {} which the parser rejects: {e:?}", clip(&s)),
            replay.clone(),
        ),
        Err(p) => c.viol(
            &format!("parse-panic:value:{}", panic_class(&p)),
            format!("parse panicked on {}: {p}", clip(&s)),
            replay.clone(),
        ),
    }
    if let Obs::Unified(items) = o {
        // direct container API as well
        match guard(|| unified::Address::decode(&s)) {
            Ok(Ok((n, ua))) => {
                if n != net || &receiver_items(ua.items_as_parsed()) != items || ua.encode(&n) != s {
                    c.viol(
                        "unified-decode-mismatch:addr",
                        format!("unified::Address::decode gave {n:?} {:?}", receiver_items(ua.items_as_parsed())),
                        replay.clone(),
                    );
                }
                if items.iter().any(|(t, _)| *t > 3) {
                    c.r.count("unknown_items_preserved", items.iter().filter(|(t, _)| *t > 3).count() as u64);
                }
            }
            other => c.viol(
                "unified-decode-failed:addr",
                format!("{:?}", other.map(|r| r.map(|_| ()))),
                replay.clone(),
            ),
        }
    }
    c.r.count(&format!("value_roundtrips_{}", o.kind()), 1);
    c.r.count(&format!("value_roundtrips_net_{}", net_name(net)), 1);
    c.ev(json!({"k": "enc", "s": s, "want": o.to_json(want_net)}));
    c.r.sample(&format!("value:{}", o.kind()), json!({"string": clip(&s), "value": o.to_json(want_net)}));
    if c.corpus.len() < 4000 {
        c.corpus.push(s);
    } else {
        let i = c.rng.gen_range(0..c.corpus.len());
        c.corpus[i] = s;
    }
}

fn shape_of(o: &Obs) -> Vec<u8> {
    match o {
        // typecode classes present: 0,1,2,3, unknown-1-byte, unknown-3-byte, unknown-5-byte compactSize
        Obs::Unified(items) => items
            .iter()
            .map(|(t, d)| {
                let tclass = match *t {
                    0..=3 => *t as u8,
                    4..=0xfc => 4,
                    0xfd..=0xffff => 5,
                    _ => 6,
                };
                let lclass = match d.len() {
                    0 => 0,
                    1..=0xfc => 1,
                    0xfd..=0xffff => 2,
                    _ => 3,
                };
                tclass * 4 + lclass
            })
            .collect(),
        _ => vec![],
    }
}

const BOUNDARY_TC: [u32; 16] = [
    4, 5, 0x7f, 0xfb, 0xfc, 0xfd, 0xfe, 0xff, 0x100, 0xfffa, 0xffff, 0x10000, 0x10001, 0xff_ffff, 0x1ff_ffff, 0x200_0000,
];
const BOUNDARY_LEN: [usize; 13] = [0, 1, 2, 31, 32, 43, 64, 251, 252, 253, 254, 256, 300];

fn unknown_item(c: &mut Ctx) -> (u32, Vec<u8>) {
    let tc = if c.rng.gen_bool(0.6) {
        *BOUNDARY_TC.choose(&mut c.rng).unwrap()
    } else {
        c.rng.gen_range(4..=MAX_COMPACT)
    };
    let len = match c.rng.gen_range(0..400) {
        0 => c.rng.gen_range(0xfff0..0x10010), // 2-byte/4-byte compactSize edge (rare: 130 KB strings)
        1..=160 => *BOUNDARY_LEN.choose(&mut c.rng).unwrap(),
        _ => c.rng.gen_range(0..100),
    };
    (tc, c.bytes(len))
}

/// A random item list for a container kind: valid most of the time, otherwise breaking one
/// composition rule (the verdict is computed by `expect_items_ok`, written from ZIP 316).
fn arb_items(c: &mut Ctx, kind: &str) -> Vec<(u32, Vec<u8>)> {
    let mut items: Vec<(u32, Vec<u8>)> = vec![];
    if c.rng.gen_bool(0.55) {
        let tc = if kind == "addr" && c.rng.gen_bool(0.5) { 1 } else { 0 };
        items.push((tc, c.bytes(known_len(kind, tc).unwrap())));
    }
    for tc in [2u32, 3] {
        if c.rng.gen_bool(0.55) {
            items.push((tc, c.bytes(known_len(kind, tc).unwrap())));
        }
    }
    let n_unknown = [0, 0, 1, 1, 2, 3][c.rng.gen_range(0..6)];
    for _ in 0..n_unknown {
        let it = unknown_item(c);
        if !items.iter().any(|(t, _)| *t == it.0) {
            items.push(it);
        }
    }
    // rule breakers
    match c.rng.gen_range(0..14) {
        0 if !items.is_empty() => {
            let i = c.rng.gen_range(0..items.len());
            let dup = (items[i].0, c.bytes(items[i].1.len()));
            items.push(dup); // duplicate typecode, different data
        }
        1 if !items.is_empty() => {
            let i = c.rng.gen_range(0..items.len());
            items.push(items[i].clone()); // identical duplicate
        }
        2 if kind == "addr" => {
            items.retain(|(t, _)| *t > 1);
            items.push((0, c.bytes(20)));
            items.push((1, c.bytes(20))); // both P2PKH and P2SH
        }
        3 => items.retain(|(t, _)| *t <= 1), // transparent only (or empty)
        4 => items.clear(),
        _ => {}
    }
    items.shuffle(&mut c.rng); // try_from_items sorts
    items
}

/// ZIP 316 composition rules on an item *set* (value level: order is the constructor's business).
fn expect_items_ok(items: &[(u32, Vec<u8>)]) -> Result<(), &'static str> {
    let mut tcs: Vec<u32> = items.iter().map(|(t, _)| *t).collect();
    tcs.sort();
    if tcs.windows(2).any(|w| w[0] == w[1]) {
        return Err("duplicate");
    }
    if tcs.contains(&0) && tcs.contains(&1) {
        return Err("p2pkh+p2sh");
    }
    if tcs.iter().all(|t| *t <= 1) {
        return Err("transparent-only");
    }
    Ok(())
}

fn sorted(items: &[(u32, Vec<u8>)]) -> Vec<(u32, Vec<u8>)> {
    let mut v = items.to_vec();
    v.sort_by_key(|(t, _)| *t);
    v
}

/// `try_from_items` + encode/decode for one container kind; returns the encoded string if valid.
fn container_case(c: &mut Ctx, kind: &'static str, net: NetworkType, items: &[(u32, Vec<u8>)]) {
    let want = expect_items_ok(items);
    let want_items = sorted(items);
    let replay = if items.iter().map(|(_, d)| d.len()).sum::<usize>() > 4096 {
        json!({"kind": kind, "net": net_name(net),
               "items": items.iter().map(|(t, d)| json!({"typecode": t, "len": d.len(), "first_byte": d.first()})).collect::<Vec<_>>()})
    } else {
        json!({"kind": kind, "net": net_name(net), "items": items_json(items)})
    };
    c.r.case(&("container", kind, net_name(net), shape_of(&Obs::Unified(want_items.clone())), want.err()), true);
    // (typed items, encode, decode) per kind, reduced to item lists
    let got: Result<Result<(String, (NetworkType, Vec<(u32, Vec<u8>)>), String), String>, String> = guard(|| match kind {
        "addr" => {
            let v = unified::Address::try_from_items(to_receivers(items).unwrap()).map_err(|e| format!("{e:?}"))?;
            let s = v.encode(&net);
            let (n, back) = unified::Address::decode(&s).map_err(|e| format!("decode of own encoding: {e:?}"))?;
            let eq = back == v;
            Ok((s, (n, receiver_items(back.items_as_parsed())), format!("{eq} {}", back.encode(&n))))
        }
        "ufvk" => {
            let v = unified::Ufvk::try_from_items(to_fvks(items).unwrap()).map_err(|e| format!("{e:?}"))?;
            let s = v.encode(&net);
            let (n, back) = unified::Ufvk::decode(&s).map_err(|e| format!("decode of own encoding: {e:?}"))?;
            let eq = back == v;
            Ok((s, (n, fvk_items(back.items_as_parsed())), format!("{eq} {}", back.encode(&n))))
        }
        _ => {
            let v = unified::Uivk::try_from_items(to_ivks(items).unwrap()).map_err(|e| format!("{e:?}"))?;
            let s = v.encode(&net);
            let (n, back) = unified::Uivk::decode(&s).map_err(|e| format!("decode of own encoding: {e:?}"))?;
            let eq = back == v;
            Ok((s, (n, ivk_items(back.items_as_parsed())), format!("{eq} {}", back.encode(&n))))
        }
    });
    // total length must lie in F4Jumble's domain for an encoding to exist at all
    let raw_len: usize = want_items.iter().map(|(t, d)| cs_len(*t as u64) + cs_len(d.len() as u64) + d.len()).sum::<usize>() + 16;
    match (got, want) {
        (Err(p), Ok(())) if !(F4_MIN..=F4_MAX).contains(&raw_len) => {
            // documented: to_jumbled_bytes panics when the container cannot be jumbled
            let _ = p;
            c.r.count("container_outside_f4jumble_domain", 1);
        }
        (Err(p), Err(why)) => c.viol(
            &format!("container-invalid-items-panic:{kind}:{why}"),
            format!("an item set that ZIP 316 forbids ({why}) was not refused but panicked: {}", clip(&p)),
            replay,
        ),
        (Err(p), Ok(())) => c.viol(
            &format!("container-panic:{kind}:{}", panic_class(&p)),
            format!("panicked: {}", clip(&p)),
            replay,
        ),
        (Ok(Err(e)), Ok(())) => {
            if e.starts_with("decode of own encoding") {
                c.viol(&format!("container-own-encoding-rejected:{kind}"), e, replay)
            } else {
                c.viol(&format!("container-valid-items-refused:{kind}"), format!("try_from_items: {e}"), replay)
            }
        }
        (Ok(Err(_)), Err(why)) => {
            c.r.count(&format!("try_from_items_refused_{why}"), 1);
        }
        (Ok(Ok((s, _, _))), Err(why)) => c.viol(
            &format!("container-invalid-items-accepted:{kind}:{why}"),
            format!("try_from_items accepted an item set that ZIP 316 forbids ({why}); encodes to {}", clip(&s)),
            replay,
        ),
        (Ok(Ok((s, (n, back_items), eq_reenc))), Ok(())) => {
            if n != net || back_items != want_items || eq_reenc != format!("true {s}") {
                c.viol(
                    &format!("container-roundtrip-mismatch:{kind}"),
                    format!("decode(encode(v)) = {n:?} {back_items:?} ({eq_reenc}), expected {net:?} {want_items:?}"),
                    replay,
                );
            }
            c.r.count(&format!("container_roundtrips_{kind}"), 1);
            if want_items.iter().all(|(t, _)| *t != 2 && *t != 3) {
                c.r.count("accepted_with_unknown_item_as_only_shielded", 1);
            }
            c.ev(json!({"k": "cont", "kind": kind, "s": s, "net": net_name(net), "items": items_json(&want_items)}));
            if kind == "addr" {
                value_roundtrip(c, net, &Obs::Unified(want_items), "hand-built");
            } else {
                c.r.sample(&format!("container:{kind}"), json!({"string": clip(&s), "items": items_json(&want_items)}));
                if c.corpus.len() < 4000 {
                    c.corpus.push(s);
                }
            }
        }
    }
}

fn cs_len(n: u64) -> usize {
    match n {
        0..=0xfc => 1,
        0xfd..=0xffff => 3,
        0x10000..=0xffff_ffff => 5,
        _ => 9,
    }
}

fn section_values(c: &mut Ctx, n: u64, frac: f64) {
    let mut runner = vh_common::proptest_runner(c.r.args().shard_seed(), 10);
    let strategies: Vec<BoxedStrategy<ZcashAddress>> =
        NETS.iter().map(|n| zcash_address::testing::arb_address(*n).boxed()).collect();
    let deadline = c.r.frac_left() - frac;
    let mut i = 0u64;
    while i < n && c.r.frac_left() > deadline {
        i += 1;
        let net = NETS[(i % 3) as usize];
        match i % 4 {
            // the repository's own strategy
            0 => {
                if let Some(a) = draw(&mut runner, &strategies[(i % 3) as usize]) {
                    if let Ok(ObsAddr(_, o)) = a.convert::<ObsAddr>() {
                        c.protect("value", o.to_json(net), |c| value_roundtrip(c, net, &o, "arb_address"));
                    }
                } else {
                    c.r.inconclusive("strategy-rejected");
                }
            }
            // simple kinds, boundary payloads
            1 => {
                let o = match c.rng.gen_range(0..5) {
                    0 => Obs::Sprout(c.bytes(64)),
                    1 => Obs::Sapling(c.bytes(43)),
                    2 => Obs::P2pkh(c.bytes(20)),
                    3 => Obs::P2sh(c.bytes(20)),
                    _ => Obs::Tex(c.bytes(20)),
                };
                c.protect("value", o.to_json(net), |c| value_roundtrip(c, net, &o, "boundary"));
            }
            // hand-built containers
            _ => {
                let kind = ["addr", "addr", "ufvk", "uivk"][c.rng.gen_range(0..4)];
                let items = arb_items(c, kind);
                c.protect("container", json!({"kind": kind, "items": items_json(&items)}), |c| container_case(c, kind, net, &items));
            }
        }
    }
    // Large containers (one shard): ZIP 316 allows 4194368 *bytes* before Bech32m, i.e. strings of up
    // to 6710997 characters. 2621475 padded bytes give a string of exactly 4194368 characters.
    if c.r.args().shard == 0 {
        for padded in [2_621_475usize, 2_621_476, F4_MAX] {
            // Sapling item (45 bytes) + unknown item 0xffff (3-byte typecode, 5-byte length) + 16 padding
            let n = padded - 16 - 45 - 3 - 5;
            let items = vec![(2u32, c.bytes(43)), (0xffffu32, vec![0x5a; n])];
            c.protect("container", json!({"kind": "addr", "padded_bytes": padded}), |c| container_case(c, "addr", NetworkType::Main, &items));
            c.r.count("large_containers_tried", 1);
        }
    }
    // diagnostics (not violations): values that are not "unknown receivers" in the sense of the
    // statement -- an `Unknown` variant carrying a *known* or out-of-range typecode
    if c.r.args().shard == 0 {
        for tc in [0u32, 1, 2, 3, MAX_COMPACT + 1, u32::MAX] {
            let r = guard(|| {
                let ua = unified::Address::try_from_items(vec![
                    Receiver::Unknown { typecode: tc, data: vec![7u8; 40] },
                    Receiver::Orchard([1u8; 43]),
                ])
                .ok()?;
                let s = ua.encode(&NetworkType::Main);
                Some(unified::Address::decode(&s).map(|(_, b)| b == ua).unwrap_or(false))
            });
            match r {
                Ok(Some(true)) | Ok(None) => {}
                Ok(Some(false)) => c.r.count("diag_unknown_variant_with_reserved_typecode_does_not_roundtrip", 1),
                Err(_) => c.r.count("diag_unknown_variant_with_reserved_typecode_panics", 1),
            }
        }
    }
}

// ------------------------------------------------------------------------------------------------
// (p) Python-encoded cases
// ------------------------------------------------------------------------------------------------

fn want_items(v: &Value) -> Vec<(u32, Vec<u8>)> {
    v.as_array()
        .map(|a| {
            a.iter()
                .map(|p| (p[0].as_u64().unwrap() as u32, hex::decode(p[1].as_str().unwrap()).unwrap()))
                .collect()
        })
        .unwrap_or_default()
}

fn parse_net(s: &str) -> NetworkType {
    match s {
        "main" => NetworkType::Main,
        "test" => NetworkType::Test,
        _ => NetworkType::Regtest,
    }
}

fn section_cases(c: &mut Ctx, path: &str) {
    let f = std::fs::File::open(path).expect("open --cases file");
    let (shard, nshards) = (c.r.args().shard, c.r.args().nshards);
    let mut classes: BTreeSet<String> = BTreeSet::new();
    for (lineno, line) in std::io::BufReader::new(f).lines().enumerate() {
        if (lineno as u64) % nshards != shard {
            continue;
        }
        if !c.r.time_left() {
            c.r.inconclusive("budget-exhausted-in-python-cases");
            break;
        }
        let line = line.expect("read cases");
        let case: Value = serde_json::from_str(&line).expect("case json");
        let s = case["s"].as_str().unwrap().to_string();
        let class = case["class"].as_str().unwrap().to_string();
        let api = case["api"].as_str().unwrap();
        let accept = case["expect"].as_str() == Some("accept");
        classes.insert(class.clone());
        c.r.case(&("pycase", &class, api, accept), true);
        c.r.count("py_cases", 1);
        c.r.count(if accept { "py_cases_expect_accept" } else { "py_cases_expect_reject" }, 1);
        let replay = json!({"case": case["id"], "class": class, "api": api, "s": clip(&s), "expect": case["expect"]});
        let exp_net = case["net"].as_str().map(parse_net);
        let exp_items = want_items(&case["items"]);

        let family = class.split(':').next().unwrap_or("").to_string();
        let exp_obs = match case["kind"].as_str().unwrap_or("") {
            "unified" | "ufvk" | "uivk" => Obs::Unified(exp_items.clone()),
            k => {
                let d = hex::decode(case["data"].as_str().unwrap_or("")).unwrap();
                match k {
                    "sprout" => Obs::Sprout(d),
                    "sapling" => Obs::Sapling(d),
                    "p2pkh" => Obs::P2pkh(d),
                    "p2sh" => Obs::P2sh(d),
                    _ => Obs::Tex(d),
                }
            }
        };
        let mut apis = vec![api];
        if case["ua"].as_bool() == Some(true) {
            apis.push("ua"); // the container API directly (it does not trim)
        }
        for api in apis {
            match c.observe(api, &s, "pycase") {
                Err(()) => {}
                Ok(None) if accept => c.viol(
                    &format!("wellformed-rejected:{api}:{class}"),
                    format!("reference accepts (class {class}) but the {api} parser rejects {}", clip(&s)),
                    replay.clone(),
                ),
                Ok(None) => c.r.count("py_cases_rejected_as_expected", 1),
                Ok(Some(p)) if !accept => {
                    if p.canonical {
                        c.viol(
                            &format!("malformed-accepted:{api}:{class}"),
                            format!(
                                "reference rejects ({}) but the {api} parser accepts {} as {}",
                                case["why"].as_str().unwrap_or(""),
                                clip(&s),
                                p.obs.kind()
                            ),
                            replay.clone(),
                        );
                    } else {
                        // reported by observe() under accepted-noncanonical:<kind>:<class>
                        c.r.count("py_cases_noncanonical_accepted", 1);
                    }
                }
                Ok(Some(p)) => {
                    if Some(p.net) != exp_net || p.obs != exp_obs {
                        c.viol(
                            &format!("parsed-value-differs:{api}:{class}"),
                            format!("{api} parser gave {:?} {:?}, reference {exp_net:?} {exp_obs:?}", p.net, p.obs),
                            replay.clone(),
                        );
                    }
                    c.r.count("py_cases_accepted_as_expected", 1);
                    if api != "ua" && exp_items.iter().any(|(t, _)| *t > 3) {
                        c.r.count("unknown_items_preserved", exp_items.iter().filter(|(t, _)| *t > 3).count() as u64);
                    }
                }
            }
        }
        if accept {
            c.r.sample(&format!("pycase-accept:{family}"), replay.clone());
        } else if class.contains("order") || class.contains("pad-") || class.contains("dup") {
            c.r.sample(&format!("pycase-reject:{}", class), replay);
        }
    }
    c.r.set_max("max_py_case_classes_in_one_shard", classes.len() as u64);
    for cl in classes {
        // one counter per rejection family so that floors can demand each was exercised
        let fam = if cl.contains("pad-") {
            "padding"
        } else if cl.contains("order") {
            "ordering"
        } else if cl.contains("dup") {
            "duplicates"
        } else if cl.contains("p2pkh+p2sh") || cl.contains("p2sh+p2pkh") {
            "p2pkh_p2sh"
        } else if cl.contains("transparent-only") {
            "transparent_only"
        } else if cl.contains("known-item-length") {
            "item_length"
        } else if cl.contains("noncanonical") || cl.contains("typecode-") || cl.contains("length-") {
            "compactsize"
        } else if cl.contains("bech32-not") || cl.contains("bech32m-checksum") || cl.contains("bech32-checksum") {
            "checksum_variant"
        } else if cl.contains("hrp") {
            "wrong_prefix"
        } else {
            continue;
        };
        c.r.count(&format!("py_class_family_{fam}"), 1);
    }
}

// ------------------------------------------------------------------------------------------------
// (c) near-valid strings, (e) arbitrary strings
// ------------------------------------------------------------------------------------------------

const ALPHABETS: [&str; 5] = [
    "qpzry9x8gf2tvdw0s3jn54khce6mua7l",
    "123456789ABCDEFGHJKLMNPQRSTUVWXYZabcdefghijkmnopqrstuvwxyz",
    "QPZRY9X8GF2TVDW0S3JN54KHCE6MUA7L",
    "0OIlb io1!\"#$%&'()*+,-./:;<=>?@[\\]^_`{|}~\u{7f}",
    "\u{0}\t\n\r \u{a0}\u{85}\u{200b}\u{2003}\u{3000}\u{feff}é\u{df}\u{130}\u{1f600}\u{10ffff}",
];

fn mutate(c: &mut Ctx, s: &str) -> (String, &'static str) {
    let chars: Vec<char> = s.chars().collect();
    let n = chars.len();
    let pick = |c: &mut Ctx| -> char {
        let a: Vec<char> = ALPHABETS[c.rng.gen_range(0..ALPHABETS.len())].chars().collect();
        a[c.rng.gen_range(0..a.len())]
    };
    let sep = s.rfind('1').unwrap_or(0);
    // position classes: hrp, separator, data, checksum
    let pos = match c.rng.gen_range(0..5) {
        0 => c.rng.gen_range(0..=sep.min(n - 1)),
        1 => sep.min(n - 1),
        2 => n - 1 - c.rng.gen_range(0..6.min(n)),
        _ => c.rng.gen_range(0..n),
    };
    let mut out = chars.clone();
    let kind = match c.rng.gen_range(0..12) {
        0..=3 => {
            let mut ch = pick(c);
            while ch == out[pos] {
                ch = pick(c);
            }
            out[pos] = ch;
            "subst"
        }
        4 => {
            out.remove(pos);
            "delete"
        }
        5 => {
            let ch = pick(c);
            out.insert(pos, ch);
            "insert"
        }
        6 if n >= 2 => {
            let p = pos.min(n - 2);
            out.swap(p, p + 1);
            "swap"
        }
        7 => {
            out.truncate(pos);
            "truncate"
        }
        8 => {
            out = s.to_uppercase().chars().collect();
            "uppercase"
        }
        9 => {
            let ch: Vec<char> = out[pos].to_uppercase().collect();
            out[pos] = ch[0];
            "case-flip"
        }
        10 => {
            // whitespace around (accepted, trimmed) or inside (rejected)
            let ws = ['\t', '\n', ' ', '\u{a0}', '\u{2003}', '\u{3000}', '\r', '\u{b}', '\u{c}', '\u{85}', '\u{2028}'];
            let w = ws[c.rng.gen_range(0..ws.len())];
            if c.rng.gen_bool(0.7) {
                let mut v = vec![w];
                v.extend(out);
                v.push(ws[c.rng.gen_range(0..ws.len())]);
                out = v;
                "whitespace-around"
            } else {
                out.insert(pos.max(1).min(n - 1), w);
                "whitespace-inside"
            }
        }
        _ => {
            // splice the tail of another valid string
            let other = c.corpus[c.rng.gen_range(0..c.corpus.len())].clone();
            let oc: Vec<char> = other.chars().collect();
            let cut = c.rng.gen_range(0..oc.len());
            out.truncate(pos);
            out.extend_from_slice(&oc[cut..]);
            "splice"
        }
    };
    (out.into_iter().collect(), kind)
}

fn obs_event(o: &Option<ObsAddr>) -> Value {
    match o {
        None => Value::Null,
        Some(ObsAddr(n, o)) => o.to_json(*n),
    }
}

fn section_mutants(c: &mut Ctx, n: u64, frac: f64) {
    if c.corpus.is_empty() {
        c.r.inconclusive("empty-corpus");
        return;
    }
    let deadline = c.r.frac_left() - frac;
    let mut i = 0u64;
    while i < n && c.r.frac_left() > deadline {
        i += 1;
        let base = c.corpus[c.rng.gen_range(0..c.corpus.len())].clone();
        if base.len() > 3000 && c.rng.gen_bool(0.9) {
            continue;
        }
        let (s, kind) = mutate(c, &base);
        let api = if base.starts_with("uview") {
            "ufvk"
        } else if base.starts_with("uivk") {
            "uivk"
        } else {
            "zaddr"
        };
        let o = c.observe(api, &s, "mutant").ok().flatten();
        c.r.case(&("mutant", api, kind, o.as_ref().map(|o| o.obs.kind())), true);
        c.r.count(if o.is_some() { "mutants_accepted" } else { "mutants_rejected" }, 1);
        let res = match &o {
            None => Value::Null,
            Some(p) => p.obs.to_json(p.net),
        };
        c.ev(json!({"k": "parse", "api": api, "s": s, "res": res}));
        c.r.count(&format!("mutation_{}", kind.replace('-', "_")), 1);
    }
}

fn section_fuzz(c: &mut Ctx, n: u64, frac: f64) {
    let mut runner = vh_common::proptest_runner(c.r.args().shard_seed(), 11);
    let any_string = any::<String>();
    let printable = "\\PC{0,200}";
    let bechish = "[ \t]?(u|utest|uregtest|zs|ztestsapling|tex|textest|uview|uivk|U|ZS)1[qpzry9x8gf2tvdw0s3jn54khce6mua7lQPZRYbio1]{0,400}";
    let b58ish = "[ \n]?(t1|t3|tm|t2|zc|zt)[1-9A-HJ-NP-Za-km-z0OIl]{0,120}";
    let deadline = c.r.frac_left() - frac;
    let mut i = 0u64;
    while i < n && c.r.frac_left() > deadline {
        i += 1;
        let (s, kind): (String, &str) = match i % 5 {
            0 => (draw(&mut runner, &any_string).unwrap_or_default(), "any-string"),
            1 => (draw(&mut runner, &printable).unwrap_or_default(), "printable-unicode"),
            2 => (draw(&mut runner, &bechish).unwrap_or_default(), "bech32-like"),
            3 => (draw(&mut runner, &b58ish).unwrap_or_default(), "base58-like"),
            _ => {
                // raw bytes -> lossy utf8 (many replacement chars, control chars)
                let len = c.rng.gen_range(0..300);
                let b = c.bytes(len);
                (String::from_utf8_lossy(&b).into_owned(), "lossy-bytes")
            }
        };
        let o = c.parse_zaddr(&s, "fuzz");
        // the container decoders and the typed layer must be total as well
        for (name, r) in [
            ("ua", guard(|| unified::Address::decode(&s).is_ok())),
            ("ufvk", guard(|| unified::Ufvk::decode(&s).is_ok())),
            ("uivk", guard(|| unified::Uivk::decode(&s).is_ok())),
            ("keys-address", guard(|| Address::decode(&P(NetworkType::Main), &s).is_some())),
        ] {
            if let Err(p) = r {
                c.viol(
                    &format!("parse-panic:{name}:{}", panic_class(&p)),
                    format!("panicked on {:?}: {p}", clip(&s)),
                    json!({"s": clip(&s)}),
                );
            }
        }
        c.r.case(&("fuzz", kind, s.chars().count().min(64) / 8, o.is_some()), true);
        c.r.count("fuzz_strings", 1);
        if i % 4 == 0 {
            c.ev(json!({"k": "parse", "api": "zaddr", "s": s, "res": obs_event(&o)}));
        }
    }
    // Very long strings; only totality and (b) are checked. Base58 decoding (the parser's last
    // resort) is quadratic in the string length -- a 1 MiB string of Base58 characters keeps
    // `ZcashAddress::from_str` busy for ~10 minutes -- so the multi-megabyte strings carry a character
    // outside the Base58 alphabet ('0') near the front and only modest ones are pure Base58.
    let quick = c.r.args().tier == vh_common::Tier::Quick;
    let big: &[usize] = if quick { &[1 << 16, 1 << 20] } else { &[1 << 16, 1 << 20, 7_000_000, 1 << 24] };
    let b58_sizes: &[usize] = if quick { &[1 << 10, 1 << 12] } else { &[1 << 10, 1 << 12, 1 << 14] };
    let mut variants: Vec<(String, &str)> = vec![];
    for &sz in big {
        variants.push((format!("u10{}", "q".repeat(sz)), "long-bech32m-like"));
        variants.push((format!("zs10{}", "l".repeat(sz)), "long-bech32-like"));
        variants.push((format!("{}t1Hsc1LR8yKnbbe3twRp88p6vFfC5t7DLbs\n", " ".repeat(sz)), "long-whitespace-prefix"));
        variants.push(("\u{10ffff}".repeat(sz / 4), "long-astral"));
        variants.push((format!("0{}", "1".repeat(sz)), "long-ones"));
    }
    for &sz in b58_sizes {
        variants.push((format!("u1{}", "q".repeat(sz)), "base58-alphabet-bech32-like"));
        variants.push((format!("t1{}", "z".repeat(sz)), "base58-alphabet"));
        variants.push(("1".repeat(sz), "base58-ones"));
    }
    for (s, kind) in variants {
        if !c.r.time_left() {
            break;
        }
        let o = c.parse_zaddr(&s, "long");
        for api in ["ua", "ufvk", "uivk"] {
            let _ = c.observe(api, &s, "long");
        }
        c.r.case(&("long", kind, s.len(), o.is_some()), true);
        c.r.count("long_strings", 1);
        c.r.set_max("max_string_bytes", s.len() as u64);
    }
}

// ------------------------------------------------------------------------------------------------
// (d) F4Jumble
// ------------------------------------------------------------------------------------------------

/// Input stream shared with `f4jumble.py::stream`: SHA-256(LE64(seed) || LE64(k)) blocks.
fn stream(seed: u64, n: usize) -> Vec<u8> {
    let mut out = Vec::with_capacity(n + 32);
    let mut k = 0u64;
    while out.len() < n {
        let mut h = Sha256::new();
        h.update(seed.to_le_bytes());
        h.update(k.to_le_bytes());
        out.extend_from_slice(&h.finalize());
        k += 1;
    }
    out.truncate(n);
    out
}

fn f4_len_class(n: usize) -> &'static str {
    match n {
        0..=47 => "below-min",
        48..=127 => "48..127(l_L<64)",
        128..=191 => "128..191",
        192..=4095 => "192..4095",
        4096..=65535 => "4K..64K",
        65536..=1048575 => "64K..1M",
        1048576..=4194368 => "1M..max",
        _ => "above-max",
    }
}

/// `py_budget`: bytes the Python reference may still be asked to re-compute, kept separately for
/// inputs below / from 1 MiB so that the multi-megabyte lengths are never starved by the many small ones.
fn f4_case(c: &mut Ctx, len: usize, py_budget: &mut [usize; 2]) {
    let seed = c.rng.gen_range(0..u64::MAX >> 12);
    let x = stream(seed, len);
    let replay = json!({"len": len, "stream_seed": seed});
    let cls = f4_len_class(len);
    c.r.case(&("f4", cls, len % 64, len), true);
    let valid = (F4_MIN..=F4_MAX).contains(&len);
    let y = guard(|| f4jumble::f4jumble(&x));
    let y = match y {
        Err(p) => {
            c.viol(&format!("f4jumble-panic:{cls}:{}", panic_class(&p)), format!("f4jumble panicked at length {len}: {p}"), replay);
            return;
        }
        Ok(Err(_)) if !valid => {
            // the inverse and the in-place variants must refuse too and leave the buffer untouched
            let mut buf = x.clone();
            let a = guard(|| f4jumble::f4jumble_inv(&x).is_err());
            let b = guard(|| f4jumble::f4jumble_mut(&mut buf).is_err());
            let untouched = buf == x;
            let mut buf2 = x.clone();
            let d = guard(|| f4jumble::f4jumble_inv_mut(&mut buf2).is_err());
            if a != Ok(true) || b != Ok(true) || d != Ok(true) || !untouched || buf2 != x {
                c.viol(&format!("f4jumble-invalid-length-handling:{cls}"), format!("length {len}: inv {a:?} mut {b:?} inv_mut {d:?} untouched {untouched}"), replay);
            }
            c.r.count("f4_invalid_lengths_rejected", 1);
            return;
        }
        Ok(Err(e)) => {
            c.viol(&format!("f4jumble-valid-length-refused:{cls}"), format!("length {len}: {e}"), replay);
            return;
        }
        Ok(Ok(_)) if !valid => {
            c.viol(&format!("f4jumble-invalid-length-accepted:{cls}"), format!("length {len} accepted"), replay);
            return;
        }
        Ok(Ok(y)) => y,
    };
    if y.len() != len {
        c.viol(&format!("f4jumble-length-changed:{cls}"), format!("{len} -> {}", y.len()), replay.clone());
        return;
    }
    match guard(|| f4jumble::f4jumble_inv(&y)) {
        Ok(Ok(back)) if back == x => {}
        other => {
            c.viol(&format!("f4jumble-not-inverse:{cls}"), format!("inv(jumble(x)) != x at length {len}: {:?}", other.map(|r| r.map(|v| v.len()))), replay.clone());
        }
    }
    // the other composition (surjectivity): jumble(inv(z)) == z
    match guard(|| f4jumble::f4jumble_inv(&x).and_then(|w| f4jumble::f4jumble(&w))) {
        Ok(Ok(z)) if z == x => {}
        _ => c.viol(&format!("f4jumble-inv-not-right-inverse:{cls}"), format!("jumble(inv(z)) != z at length {len}"), replay.clone()),
    }
    // in-place variants agree
    let mut buf = x.clone();
    let r1 = guard(|| f4jumble::f4jumble_mut(&mut buf).is_ok());
    let same = buf == y;
    let r2 = guard(|| f4jumble::f4jumble_inv_mut(&mut buf).is_ok());
    if r1 != Ok(true) || r2 != Ok(true) || !same || buf != x {
        c.viol(&format!("f4jumble-in-place-differs:{cls}"), format!("length {len}"), replay.clone());
    }
    // sampled injectivity: a different input of the same length never collides
    let mut x2 = x.clone();
    let bit = c.rng.gen_range(0..len * 8);
    x2[bit / 8] ^= 1 << (bit % 8);
    if let Ok(Ok(y2)) = guard(|| f4jumble::f4jumble(&x2)) {
        if y2 == y {
            c.viol(&format!("f4jumble-collision:{cls}"), format!("two inputs of length {len} differing in bit {bit} jumble to the same output"), replay.clone());
        }
        // it is a *jumble*: a one-bit change must not stay local (every output half changes)
        let l = 64.min(len / 2);
        if y2[..l] == y[..l] || y2[l..] == y[l..] {
            c.viol(&format!("f4jumble-half-unchanged:{cls}"), format!("flipping input bit {bit} at length {len} left one half of the output unchanged"), replay.clone());
        }
    }
    if y == x {
        c.viol(&format!("f4jumble-identity:{cls}"), format!("length {len}"), replay.clone());
    }
    c.r.count("f4_lengths_checked", 1);
    c.r.count(&format!("f4_class_{}", cls.replace(['.', '(', ')', '<'], "_")), 1);
    if len == F4_MIN {
        c.r.count("f4_min_length_checked", 1);
    }
    if len == F4_MAX {
        c.r.count("f4_max_length_checked", 1);
    }
    c.r.set_max("max_f4_length", len as u64);
    // python re-computation (bounded by bytes, the reference is ~8 MB/s)
    let b = &mut py_budget[(len >= 1 << 20) as usize];
    if *b >= len {
        *b -= len;
        if len <= 512 {
            c.ev(json!({"k": "f4", "len": len, "seed": seed, "out": hexs(&y)}));
        } else {
            let h = blake2b_simd::Params::new().hash_length(32).hash(&y);
            c.ev(json!({"k": "f4", "len": len, "seed": seed, "out_b2b256": hexs(h.as_bytes())}));
        }
        c.r.count("f4_events_for_python", 1);
    }
    c.r.sample(&format!("f4:{cls}"), json!({"len": len, "stream_seed": seed, "out_prefix": hexs(&y[..16])}));
}

fn section_f4(c: &mut Ctx, frac: f64) {
    let quick = c.r.args().tier == vh_common::Tier::Quick;
    let (shard, nshards) = (c.r.args().shard as usize, c.r.args().nshards as usize);
    let mut py_budget: [usize; 2] = if quick { [3 << 20, 9 << 20] } else { [40 << 20, 100 << 20] };
    let deadline = (c.r.frac_left() - frac).max(0.0);
    // dense at both ends and around the structural boundaries, split over the shards
    let dense = if quick { 400 } else { 4000 };
    let mut lens: Vec<usize> = vec![];
    lens.extend(0..F4_MIN + dense); // includes every invalid length below the minimum
    lens.extend((128 - 8)..(128 + 72)); // l_L reaches 64 at 128; first G block boundary at l_R = 64
    for k in 1..40 {
        for d in [-1i64, 0, 1] {
            lens.push((64 + 64 * k as i64 + d) as usize); // l_R = 64k +- 1
        }
    }
    for p in [8usize, 9, 10, 12, 14, 16, 18, 20, 22] {
        for d in [-1i64, 0, 1] {
            lens.push(((1i64 << p) + d) as usize);
        }
    }
    let top = if quick { 40 } else { 400 };
    lens.extend((F4_MAX - top)..=(F4_MAX + 6));
    lens.push(64 + 65535 * 64); // l_R = 65535 blocks: the 16-bit block counter's last value but one
    lens.push(64 + 65535 * 64 + 1);
    lens.sort();
    lens.dedup();
    let mut mine: Vec<usize> = lens.into_iter().enumerate().filter(|(i, _)| i % nshards == shard).map(|(_, l)| l).collect();
    // small ones first (cheap, many), then the multi-megabyte ones from the top down (so that the
    // maximum and its neighbours are the ones the Python reference re-computes)
    let split = mine.partition_point(|l| *l < 1 << 20);
    mine[split..].reverse();
    for len in mine {
        if c.r.frac_left() <= deadline {
            c.r.inconclusive("budget-exhausted-in-f4-dense-lengths");
            break;
        }
        f4_case(c, len, &mut py_budget);
    }
    // random lengths, log-uniform in between
    let n = if quick { 6000 } else { 200_000 };
    let mut i = 0;
    while i < n && c.r.frac_left() > deadline {
        i += 1;
        let len = match c.rng.gen_range(0..100) {
            0 => c.rng.gen_range(F4_MIN..=F4_MAX),
            1..=12 => {
                let e = c.rng.gen_range(6.0..22.0f64);
                (2f64.powf(e) as usize).clamp(F4_MIN, F4_MAX)
            }
            13..=15 => F4_MAX + 1 + c.rng.gen_range(0..100_000),
            _ => c.rng.gen_range(F4_MIN..2000),
        };
        f4_case(c, len, &mut py_budget);
    }
}

// ------------------------------------------------------------------------------------------------
// (f) zcash_keys typed layer
// ------------------------------------------------------------------------------------------------

fn obs_of_typed(a: &Address) -> Obs {
    match a {
        Address::Sapling(pa) => Obs::Sapling(pa.to_bytes().to_vec()),
        Address::Transparent(TransparentAddress::PublicKeyHash(h)) => Obs::P2pkh(h.to_vec()),
        Address::Transparent(TransparentAddress::ScriptHash(h)) => Obs::P2sh(h.to_vec()),
        Address::Tex(h) => Obs::Tex(h.to_vec()),
        Address::Unified(ua) => Obs::Unified(ua_items(ua)),
    }
}

fn ua_items(ua: &UnifiedAddress) -> Vec<(u32, Vec<u8>)> {
    let mut items: Vec<(u32, Vec<u8>)> = vec![];
    match ua.transparent() {
        Some(TransparentAddress::PublicKeyHash(h)) => items.push((0, h.to_vec())),
        Some(TransparentAddress::ScriptHash(h)) => items.push((1, h.to_vec())),
        None => {}
    }
    if let Some(s) = ua.sapling() {
        items.push((2, s.to_bytes().to_vec()));
    }
    if let Some(o) = ua.orchard() {
        items.push((3, o.to_raw_address_bytes().to_vec()));
    }
    items.extend(ua.unknown().iter().cloned());
    items.sort_by_key(|(t, _)| *t);
    items
}

fn typed_case(c: &mut Ctx, net: NetworkType, a: &Address, origin: &str) {
    let p = P(net);
    let o = obs_of_typed(a);
    let replay = json!({"net": net_name(net), "value": o.to_json(net), "origin": origin});
    c.r.case(&("typed", o.kind(), net_name(net), shape_of(&o), origin), true);
    let s = match guard(|| a.encode(&p)) {
        Ok(s) => s,
        Err(pn) => {
            c.viol(&format!("keys-address-encode-panic:{}", panic_class(&pn)), format!("{pn}"), replay);
            return;
        }
    };
    let want_net = string_net(net, &o);
    // the string is exactly what the ZcashAddress layer produces for the same payload
    let lower = build(net, &o).map(|z| z.encode());
    if lower.as_deref() != Some(s.as_str()) {
        c.viol(&format!("keys-address-encoding-differs:{}", o.kind()), format!("Address::encode gave {}, ZcashAddress of the same payload {:?}", clip(&s), lower.map(|l| clip(&l))), replay.clone());
    }
    // and parses (at the lower layer) to the payload the typed value holds
    match c.parse_zaddr(&s, "typed") {
        Some(ObsAddr(n, oo)) if n == want_net && oo == o => {}
        other => c.viol(&format!("keys-address-string-parses-differently:{}", o.kind()), format!("{other:?} vs {want_net:?} {o:?}"), replay.clone()),
    }
    match guard(|| Address::decode(&p, &s)) {
        Ok(Some(back)) if &back == a => {}
        other => c.viol(&format!("keys-address-decode-roundtrip:{}", o.kind()), format!("Address::decode(encode(a)) = {other:?}"), replay.clone()),
    }
    // conversions agree
    match guard(|| (a.to_zcash_address(&p), s.parse::<ZcashAddress>().ok())) {
        Ok((z, Some(parsed))) if z == parsed && Address::try_from_zcash_address(&p, z.clone()).ok().as_ref() == Some(a) => {}
        other => c.viol(&format!("keys-address-conversion:{}", o.kind()), format!("{:?}", other.map(|_| ())), replay.clone()),
    }
    // decoding under another network: only the documented sharing may succeed
    for other in NETS {
        let got = guard(|| Address::decode(&P(other), &s));
        let allowed = other == want_net || other == net || (o.shares_test_prefix() && want_net == NetworkType::Test && other == NetworkType::Regtest);
        match (got, allowed) {
            (Ok(Some(b)), true) if &b == a => {}
            (Ok(None), false) => {}
            (g, _) => c.viol(&format!("keys-address-network-guard:{}", o.kind()), format!("string for {want_net:?} decoded under {other:?}: {g:?} (allowed {allowed})"), replay.clone()),
        }
    }
    // AddressCodec impls
    match a {
        Address::Transparent(t) => {
            let e = AddressCodec::<P>::encode(t, &p);
            if e != s || <TransparentAddress as AddressCodec<P>>::decode(&p, &e).ok().as_ref() != Some(t) {
                c.viol("address-codec:transparent", format!("{e} vs {s}"), replay.clone());
            }
        }
        Address::Sapling(pa) => {
            let e = AddressCodec::<P>::encode(pa, &p);
            if e != s || <sapling::PaymentAddress as AddressCodec<P>>::decode(&p, &e).ok().as_ref() != Some(pa) {
                c.viol("address-codec:sapling", format!("{e} vs {s}"), replay.clone());
            }
        }
        Address::Unified(ua) => {
            let e = AddressCodec::<P>::encode(ua, &p);
            if e != s || <UnifiedAddress as AddressCodec<P>>::decode(&p, &e).ok().as_ref() != Some(ua) {
                c.viol("address-codec:unified", format!("{} vs {}", clip(&e), clip(&s)), replay.clone());
            }
        }
        Address::Tex(_) => {}
    }
    c.r.count(&format!("typed_roundtrips_{}", o.kind()), 1);
    c.ev(json!({"k": "enc", "s": s, "want": o.to_json(want_net)}));
    c.r.sample(&format!("typed:{}", o.kind()), json!({"string": clip(&s), "value": o.to_json(want_net)}));
    if c.corpus.len() < 4000 {
        c.corpus.push(s);
    }
}

fn section_typed(c: &mut Ctx, n: u64, frac: f64) {
    use ReceiverRequirement::*;
    let deadline = c.r.frac_left() - frac;
    let reqs = [
        UnifiedAddressRequest::AllAvailableKeys,
        UnifiedAddressRequest::ALLOW_ALL,
        UnifiedAddressRequest::SHIELDED,
        UnifiedAddressRequest::ORCHARD,
        UnifiedAddressRequest::unsafe_custom(Omit, Require, Require),
        UnifiedAddressRequest::unsafe_custom(Require, Omit, Require),
        UnifiedAddressRequest::unsafe_custom(Omit, Require, Omit),
    ];
    let mut i = 0u64;
    while i < n && c.r.frac_left() > deadline {
        i += 1;
        let net = NETS[(i % 3) as usize];
        let mut seed = [0u8; 32];
        c.rng.fill_bytes(&mut seed);
        let account = zip32::AccountId::try_from(c.rng.gen_range(0..1u32 << 31)).unwrap();
        let Ok(usk) = UnifiedSpendingKey::from_seed(&P(net), &seed, account) else {
            c.r.inconclusive("usk-derivation-failed");
            continue;
        };
        let ufvk = usk.to_unified_full_viewing_key();
        let req = reqs[c.rng.gen_range(0..reqs.len())];
        let Ok((ua, _)) = ufvk.default_address(req) else {
            c.r.inconclusive("no-default-address");
            continue;
        };
        let mut typed: Vec<Address> = vec![Address::Unified(ua.clone())];
        if let Some(s) = ua.sapling() {
            typed.push(Address::Sapling(*s));
        }
        if let Some(t) = ua.transparent() {
            typed.push(Address::Transparent(*t));
            if let TransparentAddress::PublicKeyHash(h) = t {
                typed.push(Address::Tex(*h));
                typed.push(Address::Transparent(TransparentAddress::ScriptHash(*h)));
            }
        }
        for a in typed {
            c.protect("typed", json!({"net": net_name(net), "seed": hexs(&seed)}), |c| typed_case(c, net, &a, "derived"));
        }
        // a UA with unknown items and valid receivers, through the string layer
        let mut items = ua_items(&ua);
        let extra = unknown_item(c);
        if !items.iter().any(|(t, _)| *t == extra.0) {
            items.push(extra);
            items.sort_by_key(|(t, _)| *t);
            if let Some(z) = build(net, &Obs::Unified(items.clone())) {
                let s = z.encode();
                match guard(|| Address::decode(&P(net), &s).map(|a| (a.encode(&P(net)), a))) {
                    Ok(Some((re, Address::Unified(u2)))) if ua_items(&u2) == items && re == s => {
                        c.r.count("typed_unknown_items_preserved", 1);
                    }
                    other => c.viol("keys-address-unknown-item-lost", format!("{other:?} for items {items:?}"), json!({"s": clip(&s)})),
                }
            }
        }
    }
    // random payloads: the typed layer accepts only valid receivers, and what it accepts re-encodes
    let corpus: Vec<String> = c.corpus.iter().take(600).cloned().collect();
    for s in corpus {
        if !c.r.time_left() {
            break;
        }
        for net in NETS {
            match guard(|| Address::decode(&P(net), &s).map(|a| (a.encode(&P(net)), a))) {
                Ok(Some((re, a))) => {
                    let lower = c.parse_zaddr(&s, "typed-corpus");
                    if re != s || lower.as_ref().map(|l| &l.1) != Some(&obs_of_typed(&a)) {
                        c.viol("keys-address-accepted-differs", format!("Address::decode accepted {} as {a:?} which encodes to {}", clip(&s), clip(&re)), json!({"s": clip(&s)}));
                    }
                    c.r.count("typed_decodes_of_random_payload_strings", 1);
                }
                Ok(None) => {}
                Err(p) => c.viol(&format!("panic:typed-corpus:{}", panic_class(&p)), format!("Address::decode / encode panicked on {}: {p}", clip(&s)), json!({"s": clip(&s)})),
            }
        }
    }
}

fn main() {
    vh_common::install_panic_hook();
    let args = Args::parse();
    let quick = args.tier == vh_common::Tier::Quick;
    let mut c = Ctx {
        r: Reporter::new("C10", &args),
        rng: vh_common::rng(args.shard_seed(), 10),
        corpus: vec![],
        events_left: args.get_u64("max-events", if quick { 9_000 } else { 120_000 }),
    };
    // shares of the wall-clock budget (python cases are capped by their number only)
    let mut t = c.r.elapsed();
    let mut lap = |c: &mut Ctx, name: &str| {
        let now = c.r.elapsed();
        c.r.set_max(&format!("max_ms_section_{name}"), (now - t).as_millis() as u64);
        t = now;
    };
    // the event log is what the Python oracle sees: every section gets its own quota
    let quota = c.events_left;
    c.events_left = quota * 3 / 10;
    section_values(&mut c, args.pick(20_000, 400_000), 0.20);
    lap(&mut c, "values");
    c.events_left = quota / 10;
    section_typed(&mut c, args.pick(150, 6_000), 0.15);
    lap(&mut c, "typed");
    if let Some(path) = args.extra.get("cases").cloned() {
        section_cases(&mut c, &path);
    } else {
        c.r.note("no --cases file: python-encoded malformed containers were not run");
    }
    lap(&mut c, "pycases");
    c.events_left = quota * 4 / 10;
    section_mutants(&mut c, args.pick(30_000, 1_000_000), 0.15);
    lap(&mut c, "mutants");
    c.events_left = quota * 2 / 10;
    section_fuzz(&mut c, args.pick(15_000, 400_000), 0.10);
    lap(&mut c, "fuzz");
    c.events_left = u64::MAX; // bounded by bytes inside
    section_f4(&mut c, 1.0);
    lap(&mut c, "f4");
    c.r.finish();
}
