//! C20 — chain-history tree roots match a from-scratch recomputation.
//!
//! The harness plays the database: a `Vec<Vec<u8>>` of serialised entries in the crate's array
//! representation. An independent reference (own node record, own serialiser / parser with its
//! own compact-size codec, own 256-bit addition, own `combine` written from ZIP 221 with the
//! Orchard (V2) and Ironwood (V3) extension fields, own peak decomposition / perfect-subtree fold
//! / left-to-right bagging, own post-order array layout) is rebuilt *from the current leaf list*
//! after every operation and compared with (a) a long-lived fully loaded `Tree`, (b) a partial
//! view freshly built from the database bytes with only the peaks (+ the right slope of the last
//! peak for a truncation, as `examples/long.rs` prescribes) that performs the same operation.
//! The reference itself is first checked against the ZIP 221 vectors shipped in the crate.

use blake2b_simd::Params as B2Params;
use primitive_types::U256;
use vh_common::rand::seq::SliceRandom;
use vh_common::rand::{Rng, RngCore};
use vh_common::rand_chacha::ChaCha20Rng;
use vh_common::{guard, hexs, json, panic_class, Args, Reporter, Tier};
use zcash_history::{Entry, EntryLink, NodeData, NodeDataV2, NodeDataV3, Tree, Version, V1, V2, V3};

// ---------------------------------------------------------------------------------------------
// reference model

#[derive(Clone, Debug, PartialEq, Eq)]
struct Ext {
    start_root: [u8; 32],
    end_root: [u8; 32],
    tx: u64,
}

/// A node record as ZIP 221 defines it (V1), extended by one `Ext` per additional shielded
/// pool (V2: Orchard, V3: Orchard + Ironwood).
#[derive(Clone, Debug, PartialEq, Eq)]
struct RNode {
    commitment: [u8; 32],
    start_time: u32,
    end_time: u32,
    start_target: u32,
    end_target: u32,
    start_sapling_root: [u8; 32],
    end_sapling_root: [u8; 32],
    work_le: [u8; 32],
    start_height: u64,
    end_height: u64,
    sapling_tx: u64,
    ext: Vec<Ext>,
}

fn put_compact(out: &mut Vec<u8>, v: u64) {
    if v < 253 {
        out.push(v as u8);
    } else if v <= 0xffff {
        out.push(0xfd);
        out.extend_from_slice(&(v as u16).to_le_bytes());
    } else if v <= 0xffff_ffff {
        out.push(0xfe);
        out.extend_from_slice(&(v as u32).to_le_bytes());
    } else {
        out.push(0xff);
        out.extend_from_slice(&v.to_le_bytes());
    }
}

/// Canonical compact size only.
fn get_compact(b: &[u8], pos: &mut usize) -> Option<u64> {
    let tag = *b.get(*pos)?;
    *pos += 1;
    let mut take = |n: usize| -> Option<u64> {
        let s = b.get(*pos..*pos + n)?;
        *pos += n;
        let mut w = [0u8; 8];
        w[..n].copy_from_slice(s);
        Some(u64::from_le_bytes(w))
    };
    match tag {
        0xfd => take(2).filter(|v| *v >= 253),
        0xfe => take(4).filter(|v| *v > 0xffff),
        0xff => take(8).filter(|v| *v > 0xffff_ffff),
        t => Some(t as u64),
    }
}

fn add256_le(a: &[u8; 32], b: &[u8; 32]) -> Option<[u8; 32]> {
    let mut out = [0u8; 32];
    let mut carry = 0u16;
    for i in 0..32 {
        let s = a[i] as u16 + b[i] as u16 + carry;
        out[i] = s as u8;
        carry = s >> 8;
    }
    (carry == 0).then_some(out)
}

impl RNode {
    fn ser(&self) -> Vec<u8> {
        let mut o = Vec::with_capacity(320);
        o.extend_from_slice(&self.commitment);
        o.extend_from_slice(&self.start_time.to_le_bytes());
        o.extend_from_slice(&self.end_time.to_le_bytes());
        o.extend_from_slice(&self.start_target.to_le_bytes());
        o.extend_from_slice(&self.end_target.to_le_bytes());
        o.extend_from_slice(&self.start_sapling_root);
        o.extend_from_slice(&self.end_sapling_root);
        o.extend_from_slice(&self.work_le);
        put_compact(&mut o, self.start_height);
        put_compact(&mut o, self.end_height);
        put_compact(&mut o, self.sapling_tx);
        for e in &self.ext {
            o.extend_from_slice(&e.start_root);
            o.extend_from_slice(&e.end_root);
            put_compact(&mut o, e.tx);
        }
        o
    }

    /// Parses exactly one record with `n_ext` extensions from the front of `b`;
    /// returns the record and the number of bytes used.
    fn parse(b: &[u8], n_ext: usize) -> Option<(RNode, usize)> {
        let mut p = 0usize;
        fn arr32(b: &[u8], p: &mut usize) -> Option<[u8; 32]> {
            let s = b.get(*p..*p + 32)?;
            *p += 32;
            Some(s.try_into().unwrap())
        }
        fn u32le(b: &[u8], p: &mut usize) -> Option<u32> {
            let s = b.get(*p..*p + 4)?;
            *p += 4;
            Some(u32::from_le_bytes(s.try_into().unwrap()))
        }
        let commitment = arr32(b, &mut p)?;
        let start_time = u32le(b, &mut p)?;
        let end_time = u32le(b, &mut p)?;
        let start_target = u32le(b, &mut p)?;
        let end_target = u32le(b, &mut p)?;
        let start_sapling_root = arr32(b, &mut p)?;
        let end_sapling_root = arr32(b, &mut p)?;
        let work_le = arr32(b, &mut p)?;
        let start_height = get_compact(b, &mut p)?;
        let end_height = get_compact(b, &mut p)?;
        // a record covers end-start+1 >= 1 blocks, representable in u64
        end_height.checked_sub(start_height)?.checked_add(1)?;
        let sapling_tx = get_compact(b, &mut p)?;
        let mut ext = vec![];
        for _ in 0..n_ext {
            let start_root = arr32(b, &mut p)?;
            let end_root = arr32(b, &mut p)?;
            let tx = get_compact(b, &mut p)?;
            ext.push(Ext { start_root, end_root, tx });
        }
        Some((
            RNode { commitment, start_time, end_time, start_target, end_target, start_sapling_root, end_sapling_root, work_le, start_height, end_height, sapling_tx, ext },
            p,
        ))
    }

    fn leaves(&self) -> u64 {
        self.end_height - self.start_height + 1
    }
}

fn history_hash(branch: u32, data: &[u8]) -> [u8; 32] {
    let mut person = [0u8; 16];
    person[..12].copy_from_slice(b"ZcashHistory");
    person[12..].copy_from_slice(&branch.to_le_bytes());
    let h = B2Params::new().hash_length(32).personal(&person).to_state().update(data).finalize();
    h.as_bytes().try_into().unwrap()
}

/// ZIP 221 `make_parent`: earliest-* from the left child, latest-* from the right child, work
/// and transaction counts added, commitment = H(left ‖ right). `None` if a sum leaves its type.
fn ref_combine(branch: u32, l: &RNode, r: &RNode) -> Option<RNode> {
    let mut buf = l.ser();
    buf.extend_from_slice(&r.ser());
    let mut ext = vec![];
    for (a, b) in l.ext.iter().zip(&r.ext) {
        ext.push(Ext { start_root: a.start_root, end_root: b.end_root, tx: a.tx.checked_add(b.tx)? });
    }
    Some(RNode {
        commitment: history_hash(branch, &buf),
        start_time: l.start_time,
        end_time: r.end_time,
        start_target: l.start_target,
        end_target: r.end_target,
        start_sapling_root: l.start_sapling_root,
        end_sapling_root: r.end_sapling_root,
        work_le: add256_le(&l.work_le, &r.work_le)?,
        start_height: l.start_height,
        end_height: r.end_height,
        sapling_tx: l.sapling_tx.checked_add(r.sapling_tx)?,
        ext,
    })
}

#[derive(Clone, Debug, PartialEq, Eq)]
struct REntry {
    /// None = leaf, Some((left, right)) = positions of the children in the array
    children: Option<(u32, u32)>,
    node: RNode,
}

impl REntry {
    fn ser(&self) -> Vec<u8> {
        let mut o = vec![];
        match self.children {
            Some((l, r)) => {
                o.push(0);
                o.extend_from_slice(&l.to_le_bytes());
                o.extend_from_slice(&r.to_le_bytes());
            }
            None => o.push(1),
        }
        o.extend_from_slice(&self.node.ser());
        o
    }
}

/// Appends the post-order layout of the perfect tree over `leaves` to `arr`; returns the root.
fn ref_perfect(branch: u32, leaves: &[RNode], arr: &mut Vec<REntry>) -> RNode {
    if leaves.len() == 1 {
        arr.push(REntry { children: None, node: leaves[0].clone() });
        return leaves[0].clone();
    }
    let h = leaves.len() / 2;
    let l = ref_perfect(branch, &leaves[..h], arr);
    let lp = arr.len() as u32 - 1;
    let r = ref_perfect(branch, &leaves[h..], arr);
    let rp = arr.len() as u32 - 1;
    let n = ref_combine(branch, &l, &r).expect("generator keeps sums in range");
    arr.push(REntry { children: Some((lp, rp)), node: n.clone() });
    n
}

struct RefTree {
    arr: Vec<REntry>,
    /// (array position, root record) of each peak, left to right
    peaks: Vec<(u32, RNode)>,
    root: RNode,
}

/// The whole MMR from nothing but the leaf list.
fn ref_tree(branch: u32, leaves: &[RNode]) -> RefTree {
    assert!(!leaves.is_empty());
    let mut arr = vec![];
    let mut peaks = vec![];
    let mut off = 0usize;
    let n = leaves.len();
    for bit in (0..usize::BITS).rev() {
        let s = 1usize << bit;
        if n & s != 0 {
            let p = ref_perfect(branch, &leaves[off..off + s], &mut arr);
            peaks.push((arr.len() as u32 - 1, p));
            off += s;
        }
    }
    let mut root = peaks[0].1.clone();
    for (_, p) in &peaks[1..] {
        root = ref_combine(branch, &root, p).expect("in range");
    }
    RefTree { arr, peaks, root }
}

// ---------------------------------------------------------------------------------------------
// bridging to the three crate versions through public fields only

trait Ver: Version
where
    Self::NodeData: Clone,
{
    const NAME: &'static str;
    const N_EXT: usize;
    fn make(branch: u32, r: &RNode) -> Self::NodeData;
    fn fields(d: &Self::NodeData) -> (u32, RNode);
}

fn v1_make(branch: u32, r: &RNode) -> NodeData {
    NodeData {
        consensus_branch_id: branch,
        subtree_commitment: r.commitment,
        start_time: r.start_time,
        end_time: r.end_time,
        start_target: r.start_target,
        end_target: r.end_target,
        start_sapling_root: r.start_sapling_root,
        end_sapling_root: r.end_sapling_root,
        subtree_total_work: U256::from_little_endian(&r.work_le),
        start_height: r.start_height,
        end_height: r.end_height,
        sapling_tx: r.sapling_tx,
    }
}

fn v1_fields(d: &NodeData) -> (u32, RNode) {
    let mut w = [0u8; 32];
    d.subtree_total_work.to_little_endian(&mut w);
    (
        d.consensus_branch_id,
        RNode {
            commitment: d.subtree_commitment,
            start_time: d.start_time,
            end_time: d.end_time,
            start_target: d.start_target,
            end_target: d.end_target,
            start_sapling_root: d.start_sapling_root,
            end_sapling_root: d.end_sapling_root,
            work_le: w,
            start_height: d.start_height,
            end_height: d.end_height,
            sapling_tx: d.sapling_tx,
            ext: vec![],
        },
    )
}

impl Ver for V1 {
    const NAME: &'static str = "V1";
    const N_EXT: usize = 0;
    fn make(branch: u32, r: &RNode) -> NodeData {
        v1_make(branch, r)
    }
    fn fields(d: &NodeData) -> (u32, RNode) {
        v1_fields(d)
    }
}

impl Ver for V2 {
    const NAME: &'static str = "V2";
    const N_EXT: usize = 1;
    fn make(branch: u32, r: &RNode) -> NodeDataV2 {
        NodeDataV2 { v1: v1_make(branch, r), start_orchard_root: r.ext[0].start_root, end_orchard_root: r.ext[0].end_root, orchard_tx: r.ext[0].tx }
    }
    fn fields(d: &NodeDataV2) -> (u32, RNode) {
        let (b, mut r) = v1_fields(&d.v1);
        r.ext.push(Ext { start_root: d.start_orchard_root, end_root: d.end_orchard_root, tx: d.orchard_tx });
        (b, r)
    }
}

impl Ver for V3 {
    const NAME: &'static str = "V3";
    const N_EXT: usize = 2;
    fn make(branch: u32, r: &RNode) -> NodeDataV3 {
        NodeDataV3 {
            v2: <V2 as Ver>::make(branch, r),
            start_ironwood_root: r.ext[1].start_root,
            end_ironwood_root: r.ext[1].end_root,
            ironwood_tx: r.ext[1].tx,
        }
    }
    fn fields(d: &NodeDataV3) -> (u32, RNode) {
        let (b, mut r) = <V2 as Ver>::fields(&d.v2);
        r.ext.push(Ext { start_root: d.start_ironwood_root, end_root: d.end_ironwood_root, tx: d.ironwood_tx });
        (b, r)
    }
}

// ---------------------------------------------------------------------------------------------
// generators

const BOUNDARY: [u64; 22] = [
    0,
    1,
    252,
    253,
    254,
    0xfffe,
    0xffff,
    0x1_0000,
    0x1_0001,
    0x01ff_ffff,
    0x0200_0000, // MAX_COMPACT_SIZE
    0x0200_0001,
    0x7fff_ffff,
    0xffff_fffe,
    0xffff_ffff,
    0x1_0000_0000,
    0x1_0000_0001,
    1 << 53,
    (1 << 63) - 1,
    1 << 63,
    u64::MAX - 1,
    u64::MAX,
];

fn rand32(rng: &mut ChaCha20Rng) -> [u8; 32] {
    let mut a = [0u8; 32];
    match rng.gen_range(0..8) {
        0 => {}
        1 => a = [0xff; 32],
        _ => rng.fill_bytes(&mut a),
    }
    a
}

/// A counter whose sum over `cap_n` leaves still fits u64.
fn counter(rng: &mut ChaCha20Rng, cap_n: u64) -> u64 {
    let max = u64::MAX / cap_n;
    match rng.gen_range(0..6) {
        0 => (*BOUNDARY.choose(rng).unwrap()).min(max),
        1 => max - rng.gen_range(0..3),
        2 => rng.gen_range(0..4),
        3 => rng.gen_range(0x0200_0000 - 2..0x0200_0000 + 3),
        4 => rng.gen_range(0..=max),
        _ => rng.gen_range(0..5000),
    }
}

fn work(rng: &mut ChaCha20Rng, cap_bits: u32) -> [u8; 32] {
    // below 2^(256 - cap_bits): the sum over 2^cap_bits leaves cannot overflow
    let mut w = [0u8; 32];
    match rng.gen_range(0..5) {
        0 => {
            w = [0xff; 32];
        }
        1 => {
            w[0] = rng.r#gen();
            w[1] = rng.r#gen();
        }
        2 => {}
        _ => rng.fill_bytes(&mut w),
    }
    // clear the top cap_bits bits (little endian: top byte is w[31])
    let mut v = U256::from_little_endian(&w);
    v = v >> cap_bits as usize;
    v.to_little_endian(&mut w);
    w
}

fn leaf(rng: &mut ChaCha20Rng, n_ext: usize, height: u64, cap_n: u64) -> RNode {
    let (t, g) = (rng.r#gen::<u32>(), rng.r#gen::<u32>());
    let (t, g) = match rng.gen_range(0..6) {
        0 => (0, 0),
        1 => (u32::MAX, u32::MAX),
        _ => (t, g),
    };
    let sr = rand32(rng);
    RNode {
        commitment: rand32(rng),
        start_time: t,
        end_time: t,
        start_target: g,
        end_target: g,
        start_sapling_root: sr,
        end_sapling_root: sr,
        work_le: work(rng, cap_n.next_power_of_two().trailing_zeros() + 1),
        start_height: height,
        end_height: height,
        sapling_tx: counter(rng, cap_n),
        ext: (0..n_ext)
            .map(|_| {
                let r = rand32(rng);
                Ext { start_root: r, end_root: r, tx: counter(rng, cap_n) }
            })
            .collect(),
    }
}

// ---------------------------------------------------------------------------------------------
// driving the real tree

struct Ctx {
    r: Reporter,
}

impl Ctx {
    fn viol(&mut self, sig: &str, detail: String, replay: serde_json::Value) {
        self.r.violation(&format!("C20:{sig}"), detail, replay);
    }
}

/// What the database gives the crate: positions and entry bytes.
fn load<V: Ver>(branch: u32, db: &[Vec<u8>], pos: u32) -> Result<(u32, Entry<V>), String>
where
    V::NodeData: Clone,
{
    match guard(|| Entry::<V>::from_bytes(branch, &db[pos as usize])) {
        Ok(r) => r.map(|e| (pos, e)).map_err(|e| format!("{e:?}")),
        Err(p) => Err(format!("Entry::from_bytes panicked: {p}")),
    }
}

/// Array positions of the peaks for `n` leaves, and (position, size) of the last one.
fn peak_positions(n: u64) -> Vec<(u32, u64)> {
    let mut out = vec![];
    let mut end = 0u64; // array slots used so far
    for bit in (0..64).rev() {
        let s = 1u64 << bit;
        if n & s != 0 {
            end += 2 * s - 1;
            out.push(((end - 1) as u32, s));
        }
    }
    out
}

/// Left / right children on the right slope of a perfect subtree rooted at `pos` with `size` leaves.
fn right_slope(pos: u32, size: u64) -> Vec<u32> {
    let mut out = vec![];
    let (mut p, mut s) = (pos as u64, size);
    while s > 1 {
        let right = p - 1;
        let left = p - s; // the right subtree occupies 2*(s/2)-1 = s-1 slots before `p`
        out.push(left as u32);
        out.push(right as u32);
        p = right;
        s /= 2;
    }
    out
}

#[derive(Clone, Copy, PartialEq, Debug)]
enum View {
    PeaksOnly,
    PeaksAndSlope,
    PeaksSlopeAndNoise,
    Everything,
}

fn build_view<V: Ver>(rng: &mut ChaCha20Rng, branch: u32, db: &[Vec<u8>], n_leaves: u64, mode: View) -> Result<Tree<V>, String>
where
    V::NodeData: Clone,
{
    let pk = peak_positions(n_leaves);
    let mut peaks = vec![];
    for (p, _) in &pk {
        peaks.push(load::<V>(branch, db, *p)?);
    }
    let mut extra_pos: Vec<u32> = vec![];
    if mode != View::PeaksOnly {
        let (lp, ls) = *pk.last().unwrap();
        extra_pos.extend(right_slope(lp, ls));
    }
    if mode == View::PeaksSlopeAndNoise {
        for _ in 0..rng.gen_range(1..12) {
            extra_pos.push(rng.gen_range(0..db.len() as u32));
        }
        extra_pos.shuffle(rng);
    }
    if mode == View::Everything {
        extra_pos = (0..db.len() as u32).collect();
    }
    let mut extra = vec![];
    for p in extra_pos {
        extra.push(load::<V>(branch, db, p)?);
    }
    guard(|| Tree::<V>::new(db.len() as u32, peaks, extra)).map_err(|p| format!("Tree::new panicked: {p}"))
}

/// Result of an append on some tree object: serialised appended entries + root bytes.
struct Appended {
    entries: Vec<Vec<u8>>,
    positions: Vec<u32>,
    root: Vec<u8>,
}

fn do_append<V: Ver>(t: &mut Tree<V>, leaf: V::NodeData) -> Result<Appended, String>
where
    V::NodeData: Clone,
{
    let g = guard(|| -> Result<Appended, String> {
        let links = t.append_leaf(leaf).map_err(|e| format!("error:{}", err_class(&e)))?;
        let mut entries = vec![];
        let mut positions = vec![];
        for l in links {
            let EntryLink::Stored(p) = l else { return Err("generated-link-returned".into()) };
            positions.push(p);
            let n = t.resolve_link(l).map_err(|e| format!("error:{}", err_class(&e)))?;
            let mut b = vec![];
            n.node().write(&mut b).map_err(|_| "unserialisable-entry".to_string())?;
            entries.push(b);
        }
        let root = V::to_bytes(t.root_node().map_err(|e| format!("error:{}", err_class(&e)))?.data());
        Ok(Appended { entries, positions, root })
    });
    match g {
        Ok(r) => r,
        Err(p) => Err(format!("panic:{}", panic_class(&p))),
    }
}

fn do_truncate<V: Ver>(t: &mut Tree<V>) -> Result<(u32, Vec<u8>), String>
where
    V::NodeData: Clone,
{
    let g = guard(|| -> Result<(u32, Vec<u8>), String> {
        let n = t.truncate_leaf().map_err(|e| format!("error:{}", err_class(&e)))?;
        let root = V::to_bytes(t.root_node().map_err(|e| format!("error:{}", err_class(&e)))?.data());
        Ok((n, root))
    });
    match g {
        Ok(r) => r,
        Err(p) => Err(format!("panic:{}", panic_class(&p))),
    }
}

fn err_class(e: &zcash_history::Error) -> &'static str {
    match e {
        zcash_history::Error::ExpectedInMemory(_) => "ExpectedInMemory",
        zcash_history::Error::ExpectedNode(_) => "ExpectedNode",
    }
}

struct Seq<V: Ver>
where
    V::NodeData: Clone,
{
    branch: u32,
    base: u64,
    cap_n: u64,
    leaves: Vec<RNode>,
    db: Vec<Vec<u8>>,
    live: Tree<V>,
    ops: Vec<String>,
}

fn replay<V: Ver>(s: &Seq<V>, extra: serde_json::Value) -> serde_json::Value
where
    V::NodeData: Clone,
{
    let tail: Vec<&String> = s.ops.iter().rev().take(40).rev().collect();
    json!({"version": V::NAME, "branch_id": s.branch, "base_height": s.base.to_string(), "leaves_now": s.leaves.len(),
           "last_ops": tail, "last_leaf": s.leaves.last().map(|l| hexs(&l.ser())), "info": extra})
}

/// Compares the database and a root with the from-scratch reference.
fn check_against_reference<V: Ver>(c: &mut Ctx, s: &Seq<V>, op: &str, live_root: Option<&V::NodeData>) -> bool
where
    V::NodeData: Clone,
{
    let before = c.r.violation_count();
    // the comparison itself calls into the crate (to_bytes, hash, from_bytes): keep its panics
    if let Err(p) = guard(|| check_against_reference_inner(c, s, op, live_root)) {
        c.viol(&format!("{op}:{}:panic-while-reading-result:{}", V::NAME, panic_class(&p)), format!("{} leaves: {p}", s.leaves.len()), replay(s, json!({})));
    }
    c.r.violation_count() == before
}

fn check_against_reference_inner<V: Ver>(c: &mut Ctx, s: &Seq<V>, op: &str, live_root: Option<&V::NodeData>)
where
    V::NodeData: Clone,
{
    let rt = ref_tree(s.branch, &s.leaves);
    c.r.count("reference_rebuilds", 1);
    if rt.arr.len() != s.db.len() {
        c.viol(
            &format!("{op}:{}:array-length-differs-from-reference", V::NAME),
            format!("{} leaves: database holds {} entries, the MMR has {}", s.leaves.len(), s.db.len(), rt.arr.len()),
            replay(s, json!({})),
        );
        return;
    }
    for (i, (have, want)) in s.db.iter().zip(&rt.arr).enumerate() {
        if *have != want.ser() {
            let what = match Entry::<V>::from_bytes(s.branch, have) {
                Ok(e) => {
                    let (_, f) = V::fields(e.data());
                    diff_fields(&f, &want.node)
                }
                Err(_) => "unparseable".into(),
            };
            c.viol(
                &format!("{op}:{}:stored-entry-differs-from-reference:{what}", V::NAME),
                format!("{} leaves: array entry {i} differs from the reference ({what})", s.leaves.len()),
                replay(s, json!({"entry": i, "have": hexs(have), "want": hexs(&want.ser())})),
            );
            return;
        }
    }
    if let Some(d) = live_root {
        let (b, f) = V::fields(d);
        if f != rt.root || b != s.branch || V::to_bytes(d) != rt.root.ser() {
            let what = if b != s.branch { "branch-id".to_string() } else { diff_fields(&f, &rt.root) };
            c.viol(
                &format!("{op}:{}:root-differs-from-reference:{what}", V::NAME),
                format!("{} leaves: root of the fully loaded tree differs from the rebuilt MMR ({what})", s.leaves.len()),
                replay(s, json!({"have": hexs(&V::to_bytes(d)), "want": hexs(&rt.root.ser())})),
            );
        }
        // the hash of the root record (hashChainHistoryRoot) with an own hash of own bytes
        if V::hash(d) != history_hash(s.branch, &rt.root.ser()) {
            c.viol(&format!("{op}:{}:root-hash-differs", V::NAME), "hash of the root record differs".into(), replay(s, json!({})));
        }
        if f.leaves() != s.leaves.len() as u64 {
            c.viol(&format!("{op}:{}:root-leaf-count", V::NAME), format!("root spans {} leaves, tree has {}", f.leaves(), s.leaves.len()), replay(s, json!({})));
        }
    }
    let _ = rt.peaks;
}

fn diff_fields(a: &RNode, b: &RNode) -> String {
    let mut v = vec![];
    macro_rules! d {
        ($f:ident) => {
            if a.$f != b.$f {
                v.push(stringify!($f));
            }
        };
    }
    d!(commitment);
    d!(start_time);
    d!(end_time);
    d!(start_target);
    d!(end_target);
    d!(start_sapling_root);
    d!(end_sapling_root);
    d!(work_le);
    d!(start_height);
    d!(end_height);
    d!(sapling_tx);
    for (i, (x, y)) in a.ext.iter().zip(&b.ext).enumerate() {
        let n = ["orchard", "ironwood"][i];
        if x.start_root != y.start_root {
            v.push(["start_orchard_root", "start_ironwood_root"][i]);
        }
        if x.end_root != y.end_root {
            v.push(["end_orchard_root", "end_ironwood_root"][i]);
        }
        if x.tx != y.tx {
            v.push(["orchard_tx", "ironwood_tx"][i]);
        }
        let _ = n;
    }
    if v.is_empty() {
        "serialisation".into()
    } else {
        // the commitment differs whenever anything below differs: name the other fields if any
        if v.len() > 1 {
            v.retain(|f| *f != "commitment");
        }
        v.join("+")
    }
}

fn step_append<V: Ver>(c: &mut Ctx, rng: &mut ChaCha20Rng, s: &mut Seq<V>) -> bool
where
    V::NodeData: Clone,
{
    let n = s.leaves.len() as u64;
    let viol_before = c.r.violation_count();
    let lf = leaf(rng, V::N_EXT, s.base + n, s.cap_n);
    let data = V::make(s.branch, &lf);
    let prev_root = match s.live.root_node() {
        Ok(r) => guard(|| V::to_bytes(r.data())).unwrap_or_default(),
        Err(_) => vec![],
    };
    let prev_len = s.db.len();
    s.ops.push(format!("append@{n}"));

    // (b) the same operation on fresh partial views built from the database as it is now
    let modes = [View::PeaksOnly, if rng.gen_bool(0.5) { View::PeaksSlopeAndNoise } else { View::PeaksAndSlope }];
    let mut view_results = vec![];
    for mode in modes {
        if mode != View::PeaksOnly && !rng.gen_bool(0.35) {
            continue;
        }
        match build_view::<V>(rng, s.branch, &s.db, n, mode) {
            Err(e) => {
                c.viol(&format!("view-construction:{}:{mode:?}", V::NAME), format!("cannot build the view for {n} leaves: {e}"), replay(s, json!({})));
                return false;
            }
            Ok(mut t) => {
                let r = do_append(&mut t, data.clone());
                c.r.count(&format!("append_on_view_{mode:?}"), 1);
                // (3) append then truncate on the same object restores root and length
                if let Ok(a) = &r {
                    let back = do_truncate(&mut t);
                    c.r.count("append_then_truncate_checks", 1);
                    match back {
                        Ok((cnt, root)) => {
                            if cnt as usize != a.entries.len() || root != prev_root || t.len() as usize != prev_len {
                                c.viol(
                                    &format!("append-then-truncate:{}:view:not-restored", V::NAME),
                                    format!("{n} leaves: append added {} entries, truncate removed {cnt}; len {} (was {prev_len}); root restored: {}", a.entries.len(), t.len(), root == prev_root),
                                    replay(s, json!({"view": format!("{mode:?}")})),
                                );
                            }
                        }
                        Err(e) => c.viol(
                            &format!("append-then-truncate:{}:view:{e}", V::NAME),
                            format!("{n} leaves: truncating right after an append on a {mode:?} view failed: {e}"),
                            replay(s, json!({"view": format!("{mode:?}")})),
                        ),
                    }
                }
                view_results.push((mode, r));
            }
        }
    }

    // (a) the long-lived, fully loaded tree
    let live = do_append(&mut s.live, data.clone());
    let a = match live {
        Ok(a) => a,
        Err(e) => {
            c.viol(&format!("append_leaf:{}:full-tree:{e}", V::NAME), format!("append to a fully loaded tree of {n} leaves failed: {e}"), replay(s, json!({})));
            return false;
        }
    };
    for (mode, r) in view_results {
        match r {
            Err(e) => c.viol(
                &format!("append_leaf:{}:partial-view:{e}", V::NAME),
                format!("append on a {mode:?} view of {n} leaves failed: {e}"),
                replay(s, json!({"view": format!("{mode:?}")})),
            ),
            Ok(v) => {
                if v.entries != a.entries || v.positions != a.positions || v.root != a.root {
                    let what = if v.entries.len() != a.entries.len() { "appended-count" } else if v.root != a.root { "root" } else { "appended-entries" };
                    c.viol(
                        &format!("append_leaf:{}:partial-view-differs-from-full:{what}", V::NAME),
                        format!("append on a {mode:?} view of {n} leaves: {what} differs from the fully loaded tree"),
                        replay(s, json!({"view": format!("{mode:?}")})),
                    );
                }
            }
        }
    }
    // positions must continue the array
    let want_pos: Vec<u32> = (prev_len as u32..prev_len as u32 + a.entries.len() as u32).collect();
    if a.positions != want_pos {
        c.viol(&format!("append_leaf:{}:appended-positions", V::NAME), format!("{n} leaves: appended links {:?}, array continues at {prev_len}", a.positions), replay(s, json!({})));
    }
    s.db.extend(a.entries.iter().cloned());
    s.leaves.push(lf);
    c.r.count("appended_entries", a.entries.len() as u64);
    c.r.set_max("max_entries_appended_by_one_leaf", a.entries.len() as u64);
    if s.live.len() as usize != s.db.len() {
        c.viol(&format!("append_leaf:{}:len", V::NAME), format!("Tree::len {} after append, array has {}", s.live.len(), s.db.len()), replay(s, json!({})));
    }
    // (1) compare with the from-scratch reference
    let root = s.live.root_node().ok().map(|r| r.data().clone());
    // once the array has left the reference the database is no MMR any more: positions computed
    // from the leaf count would load arbitrary entries, so the sequence stops at the first finding
    if !check_against_reference(c, s, "append_leaf", root.as_ref()) || c.r.violation_count() != viol_before {
        return false;
    }
    // (3) on the long-lived tree too, now and then (it must come back to the same state)
    if rng.gen_bool(0.15) && s.base.checked_add(n + 1).is_some() {
        let lf2 = leaf(rng, V::N_EXT, s.base + n + 1, s.cap_n);
        let before = a.root.clone();
        let len_before = s.live.len();
        match do_append(&mut s.live, V::make(s.branch, &lf2)) {
            Ok(a2) => match do_truncate(&mut s.live) {
                Ok((cnt, root)) => {
                    c.r.count("append_then_truncate_checks", 1);
                    if cnt as usize != a2.entries.len() || root != before || s.live.len() != len_before {
                        c.viol(
                            &format!("append-then-truncate:{}:full-tree:not-restored", V::NAME),
                            format!("{} leaves: append added {} entries, truncate removed {cnt}; root restored: {}", n + 1, a2.entries.len(), root == before),
                            replay(s, json!({})),
                        );
                    }
                }
                Err(e) => c.viol(&format!("append-then-truncate:{}:full-tree:{e}", V::NAME), format!("truncate after append failed: {e}"), replay(s, json!({}))),
            },
            Err(e) => c.viol(&format!("append_leaf:{}:full-tree:{e}", V::NAME), format!("append failed: {e}"), replay(s, json!({}))),
        }
    }
    c.r.violation_count() == viol_before
}

fn step_truncate<V: Ver>(c: &mut Ctx, rng: &mut ChaCha20Rng, s: &mut Seq<V>) -> bool
where
    V::NodeData: Clone,
{
    let n = s.leaves.len() as u64;
    assert!(n >= 2);
    let viol_before = c.r.violation_count();
    s.ops.push(format!("truncate@{n}"));
    // minimal view: the peaks; for an even leaf count also the right slope of the last peak
    let minimal = if n % 2 == 1 { View::PeaksOnly } else { View::PeaksAndSlope };
    let mut modes = vec![minimal];
    if rng.gen_bool(0.3) {
        modes.push(View::PeaksSlopeAndNoise);
    }
    if rng.gen_bool(0.05) {
        modes.push(View::Everything);
    }
    let mut view_results = vec![];
    for mode in modes {
        match build_view::<V>(rng, s.branch, &s.db, n, mode) {
            Err(e) => {
                c.viol(&format!("view-construction:{}:{mode:?}", V::NAME), format!("cannot build the view for {n} leaves: {e}"), replay(s, json!({})));
                return false;
            }
            Ok(mut t) => {
                c.r.count(&format!("truncate_on_view_{mode:?}"), 1);
                view_results.push((mode, do_truncate(&mut t)));
            }
        }
    }
    let (cnt, root) = match do_truncate(&mut s.live) {
        Ok(x) => x,
        Err(e) => {
            c.viol(&format!("truncate_leaf:{}:full-tree:{e}", V::NAME), format!("truncating a fully loaded tree of {n} leaves failed: {e}"), replay(s, json!({})));
            return false;
        }
    };
    for (mode, r) in view_results {
        match r {
            Err(e) => c.viol(
                &format!("truncate_leaf:{}:partial-view:{e}", V::NAME),
                format!("truncate on a {mode:?} view of {n} leaves failed: {e}"),
                replay(s, json!({"view": format!("{mode:?}")})),
            ),
            Ok((vc, vr)) => {
                if vc != cnt || vr != root {
                    let what = if vc != cnt { "removed-count" } else { "root" };
                    c.viol(
                        &format!("truncate_leaf:{}:partial-view-differs-from-full:{what}", V::NAME),
                        format!("truncate on a {mode:?} view of {n} leaves: removed {vc} (full tree {cnt}), root equal: {}", vr == root),
                        replay(s, json!({"view": format!("{mode:?}")})),
                    );
                }
            }
        }
    }
    if cnt as usize > s.db.len() {
        c.viol(&format!("truncate_leaf:{}:removed-count-exceeds-array", V::NAME), format!("{n} leaves: asked to remove {cnt} of {}", s.db.len()), replay(s, json!({})));
        return false;
    }
    s.db.truncate(s.db.len() - cnt as usize);
    s.leaves.pop();
    c.r.count("removed_entries", cnt as u64);
    c.r.set_max("max_entries_removed_by_one_truncate", cnt as u64);
    if n.is_power_of_two() {
        c.r.count("truncations_of_a_complete_tree", 1);
    }
    if s.live.len() as usize != s.db.len() {
        c.viol(&format!("truncate_leaf:{}:len", V::NAME), format!("Tree::len {} after truncate, array has {}", s.live.len(), s.db.len()), replay(s, json!({})));
    }
    let root = s.live.root_node().ok().map(|r| r.data().clone());
    check_against_reference(c, s, "truncate_leaf", root.as_ref()) && c.r.violation_count() == viol_before
}

/// `jump`: start from a large tree whose array is laid out by the reference (so that sizes far
/// beyond what per-operation rebuilding affords from a one-leaf start are reached), then do a
/// few operations around that size with all checks.
fn run_sequence<V: Ver>(c: &mut Ctx, rng: &mut ChaCha20Rng, max_leaves: u64, max_ops: u64, jump: Option<u64>)
where
    V::NodeData: Clone,
{
    let max_leaves = jump.map(|j| j + 64).unwrap_or(max_leaves);
    let branch: u32 = match rng.gen_range(0..5) {
        0 => 0,
        1 => u32::MAX,
        2 => 0xc2d6_d0b4, // NU5
        _ => rng.r#gen(),
    };
    let cap_n = (max_leaves + 2).next_power_of_two();
    // some sequences end exactly at the top of the height range: the last possible leaf has height
    // u64::MAX, and the tree can hold `top_len` leaves
    let top_len: Option<u64> = if jump.is_none() && rng.gen_range(0..8) == 0 { Some(rng.gen_range(2..=max_leaves.min(48))) } else { None };
    let max_leaves = top_len.unwrap_or(max_leaves);
    let base: u64 = match rng.gen_range(0..7) {
        _ if top_len.is_some() => u64::MAX - (top_len.unwrap() - 1),
        0 => 0,
        1 => 1,
        2 => rng.gen_range(0..3_000_000),
        3 => 0xffff_ffff - rng.gen_range(0..max_leaves),
        4 => u64::MAX - cap_n - rng.gen_range(0..5),
        5 => 0x0200_0000 - rng.gen_range(0..max_leaves),
        _ => rng.r#gen::<u64>() % (u64::MAX - cap_n),
    };
    let first = leaf(rng, V::N_EXT, base, cap_n);
    let e0 = REntry { children: None, node: first.clone() };
    let live = Tree::<V>::new(1, vec![(0, Entry::new_leaf(V::make(branch, &first)))], vec![]);
    let mut s = Seq::<V> { branch, base, cap_n, leaves: vec![first], db: vec![e0.ser()], live, ops: vec![] };
    if let Some(n0) = jump {
        while (s.leaves.len() as u64) < n0 {
            let h = base + s.leaves.len() as u64;
            s.leaves.push(leaf(rng, V::N_EXT, h, cap_n));
        }
        let rt = ref_tree(branch, &s.leaves);
        s.db = rt.arr.iter().map(|e| e.ser()).collect();
        s.ops.push(format!("start-from-reference-array@{n0}"));
        match build_view::<V>(rng, branch, &s.db, n0, View::Everything) {
            Ok(t) => s.live = t,
            Err(e) => {
                c.viol(&format!("view-construction:{}:Everything", V::NAME), format!("cannot load a {n0}-leaf array laid out by the reference: {e}"), replay(&s, json!({})));
                return;
            }
        }
        c.r.count("jump_start_sequences", 1);
        c.r.set_max("max_jump_start_leaves", n0);
        let root = s.live.root_node().ok().map(|r| r.data().clone());
        if !check_against_reference(c, &s, "load", root.as_ref()) {
            return;
        }
    }
    // the single-leaf array entry as the crate writes it
    if jump.is_none() {
        let mut b = vec![];
        let _ = guard(|| s.live.root_node().unwrap().node().write(&mut b));
        if b != s.db[0] {
            c.viol(&format!("codec:{}:leaf-entry-bytes", V::NAME), "a leaf entry does not serialise to 0x01 ‖ record".into(), replay(&s, json!({"have": hexs(&b), "want": hexs(&s.db[0])})));
        }
    }
    c.r.count("sequences", 1);
    c.r.count(&format!("sequences_{}", V::NAME), 1);
    if top_len.is_some() {
        c.r.count("sequences_ending_at_height_u64_max", 1);
    }
    // shape of the walk
    let shape = rng.gen_range(0..5);
    let target = match shape {
        0 => rng.gen_range(2..=max_leaves),
        1 => 1u64 << rng.gen_range(1..=max_leaves.ilog2()),
        2 => (1u64 << rng.gen_range(1..=max_leaves.ilog2())) - 1,
        3 => rng.gen_range(2..40),
        _ => rng.gen_range(2..=max_leaves),
    }
    .min(max_leaves);
    let target = if top_len.is_some() { max_leaves } else { target };
    let mut ops = 0u64;
    let mut phase = if jump.is_some() { 1 } else { 0 }; // 0 grow to target, 1 random walk, 2 shrink to 1
    let walk_ops = if jump.is_some() { rng.gen_range(8..24) } else { rng.gen_range(10..200) };
    let mut walked = 0;
    while ops < max_ops && c.r.time_left() {
        ops += 1;
        let n = s.leaves.len() as u64;
        let append = match phase {
            0 => {
                if n >= target {
                    phase = 1;
                    continue;
                }
                // mostly grow, sometimes step back
                n < 2 || rng.gen_bool(0.9)
            }
            1 => {
                walked += 1;
                if walked > walk_ops {
                    if jump.is_some() {
                        break;
                    }
                    phase = 2;
                    continue;
                }
                if n < 2 {
                    true
                } else if n >= max_leaves {
                    false
                } else {
                    // runs around the current size, with a pull towards powers of two
                    rng.gen_bool(0.5)
                }
            }
            _ => {
                if n <= 1 {
                    break;
                }
                // only sometimes shrink all the way
                if shape % 2 == 0 && n <= target / 2 {
                    break;
                }
                false
            }
        };
        let stepped = guard(|| if append { step_append(c, rng, &mut s) } else { step_truncate(c, rng, &mut s) });
        let ok = match stepped {
            Ok(ok) => ok,
            Err(p) => {
                let op = if append { "append_leaf" } else { "truncate_leaf" };
                c.viol(&format!("{op}:{}:panic:{}", V::NAME, panic_class(&p)), format!("{n} leaves: {p}"), json!({"version": V::NAME, "leaves": n, "last_ops": s.ops.iter().rev().take(20).collect::<Vec<_>>()}));
                false
            }
        };
        let nn = s.leaves.len() as u64;
        c.r.case(&(V::NAME, append, n), true);
        c.r.count(if append { "appends" } else { "truncations" }, 1);
        c.r.count(&format!("ops_{}", V::NAME), 1);
        c.r.set_max("max_leaves", nn);
        c.r.set_max("max_peaks", nn.count_ones() as u64);
        if !ok {
            c.r.inconclusive("sequence-abandoned-after-violation");
            return;
        }
    }
    if s.leaves.len() == 1 {
        c.r.count("sequences_shrunk_to_one_leaf", 1);
        // not part of the property: what a truncate of the last leaf does (recorded only)
        match do_truncate(&mut s.live) {
            Ok(_) => c.r.count("single_leaf_truncate_ok", 1),
            Err(e) if e.starts_with("panic") => c.r.count("single_leaf_truncate_panic", 1),
            Err(_) => c.r.count("single_leaf_truncate_error", 1),
        }
    }
    if c.r.counter("sequences") <= 3 {
        c.r.sample(
            &format!("sequence-{}", V::NAME),
            json!({"version": V::NAME, "branch_id": branch, "base_height": base.to_string(), "target_leaves": target, "ops": ops,
                   "first_ops": s.ops.iter().take(12).collect::<Vec<_>>(), "final_leaves": s.leaves.len(), "final_array_len": s.db.len()}),
        );
    }
}

// ---------------------------------------------------------------------------------------------
// record / entry codec

fn codec_record<V: Ver>(c: &mut Ctx, branch: u32, r: &RNode, why: &str)
where
    V::NodeData: Clone,
{
    let d = V::make(branch, r);
    let want = r.ser();
    c.r.case(&("codec", V::NAME, why, want.len()), true);
    c.r.count("codec_records", 1);
    let rp = json!({"version": V::NAME, "record": hexs(&want), "why": why});
    let bytes = match guard(|| V::to_bytes(&d)) {
        Ok(b) => b,
        Err(p) => {
            c.viol(&format!("codec:{}:to_bytes:panic:{}", V::NAME, panic_class(&p)), format!("to_bytes panicked: {p}"), rp);
            return;
        }
    };
    if bytes != want {
        c.viol(&format!("codec:{}:to_bytes:differs-from-reference", V::NAME), format!("{} bytes written, reference has {}", bytes.len(), want.len()), rp.clone());
    }
    if bytes.len() > zcash_history::MAX_NODE_DATA_SIZE {
        c.viol(&format!("codec:{}:exceeds-MAX_NODE_DATA_SIZE", V::NAME), format!("{} bytes", bytes.len()), rp.clone());
    }
    match guard(|| V::from_bytes(branch, &bytes)) {
        Ok(Ok(back)) => {
            let (b, f) = V::fields(&back);
            if f != *r || b != branch {
                c.viol(&format!("codec:{}:roundtrip-changed:{}", V::NAME, diff_fields(&f, r)), "from_bytes(to_bytes(x)) != x".into(), rp.clone());
            }
            if V::to_bytes(&back) != bytes {
                c.viol(&format!("codec:{}:roundtrip-bytes-changed", V::NAME), "to_bytes(from_bytes(b)) != b".into(), rp.clone());
            }
        }
        Ok(Err(e)) => c.viol(&format!("codec:{}:own-output-rejected", V::NAME), format!("from_bytes(to_bytes(x)) failed: {e:?}"), rp.clone()),
        Err(p) => c.viol(&format!("codec:{}:from_bytes:panic:{}", V::NAME, panic_class(&p)), format!("from_bytes panicked: {p}"), rp.clone()),
    }
    // as leaf entry and as node entry with extreme links
    for links in [None, Some((0u32, 1u32)), Some((u32::MAX - 1, u32::MAX))] {
        let e = match links {
            None => Entry::<V>::new_leaf(d.clone()),
            Some((l, rr)) => Entry::<V>::new(d.clone(), EntryLink::Stored(l), EntryLink::Stored(rr)),
        };
        let want_e = REntry { children: links, node: r.clone() }.ser();
        let mut b = vec![];
        let w = guard(|| e.write(&mut b));
        c.r.count("codec_entries", 1);
        if !matches!(w, Ok(Ok(()))) || b != want_e {
            c.viol(&format!("codec:{}:entry-write", V::NAME), format!("entry write: {w:?}; bytes equal reference: {}", b == want_e), rp.clone());
            continue;
        }
        if b.len() > zcash_history::MAX_ENTRY_SIZE {
            c.viol(&format!("codec:{}:exceeds-MAX_ENTRY_SIZE", V::NAME), format!("{} bytes", b.len()), rp.clone());
        }
        match guard(|| Entry::<V>::from_bytes(branch, &b)) {
            Ok(Ok(back)) => {
                let mut b2 = vec![];
                let _ = back.write(&mut b2);
                let kind_ok = match (links, back.leaf()) {
                    (None, true) => true,
                    (Some((l, rr)), false) => matches!((back.left(), back.right()), (Ok(EntryLink::Stored(a)), Ok(EntryLink::Stored(bb))) if a == l && bb == rr),
                    _ => false,
                };
                if b2 != b || !kind_ok || V::fields(back.data()).1 != *r {
                    c.viol(&format!("codec:{}:entry-roundtrip-changed", V::NAME), "Entry::from_bytes(write(e)) != e".into(), rp.clone());
                }
            }
            other => c.viol(&format!("codec:{}:entry-own-output-rejected", V::NAME), format!("{:?}", other.map(|r| r.map(|_| ()))), rp.clone()),
        }
    }
}

/// Byte strings that are *not* the serialisation of any record must not parse (so that parsing
/// and re-serialising can never change a stored record).
fn codec_malformed<V: Ver>(c: &mut Ctx, rng: &mut ChaCha20Rng, branch: u32, r: &RNode)
where
    V::NodeData: Clone,
{
    let good = r.ser();
    let rp = |b: &[u8]| json!({"version": V::NAME, "bytes": hexs(b)});
    // every strict prefix
    for cut in 0..good.len() {
        let g = guard(|| V::from_bytes(branch, &good[..cut]).is_ok());
        c.r.count("codec_truncated_inputs", 1);
        match g {
            Ok(false) => {}
            Ok(true) => c.viol(&format!("codec:{}:truncated-record-accepted", V::NAME), format!("{cut} of {} bytes parsed", good.len()), rp(&good[..cut])),
            Err(p) => c.viol(&format!("codec:{}:from_bytes:panic:{}", V::NAME, panic_class(&p)), format!("prefix of {cut} bytes: {p}"), rp(&good[..cut])),
        }
    }
    // non-minimal compact sizes in each compact field
    let fixed = 32 + 16 + 64 + 32;
    let mut fields: Vec<(usize, u64)> = vec![]; // (offset, value) of each compact-size field
    {
        let mut p = fixed;
        for _ in 0..3 {
            let o = p;
            let v = get_compact(&good, &mut p).unwrap();
            fields.push((o, v));
        }
        for _ in 0..V::N_EXT {
            p += 64;
            let o = p;
            let v = get_compact(&good, &mut p).unwrap();
            fields.push((o, v));
        }
    }
    for (fi, (off, v)) in fields.iter().enumerate() {
        let mut canon = vec![];
        put_compact(&mut canon, *v);
        let mut forms: Vec<Vec<u8>> = vec![];
        if *v <= 0xffff {
            let mut f = vec![0xfd];
            f.extend_from_slice(&(*v as u16).to_le_bytes());
            forms.push(f);
        }
        if *v <= 0xffff_ffff {
            let mut f = vec![0xfe];
            f.extend_from_slice(&(*v as u32).to_le_bytes());
            forms.push(f);
        }
        let mut f = vec![0xff];
        f.extend_from_slice(&v.to_le_bytes());
        forms.push(f);
        for f in forms {
            if f == canon {
                continue;
            }
            let mut b = good[..*off].to_vec();
            b.extend_from_slice(&f);
            b.extend_from_slice(&good[*off + canon.len()..]);
            let g = guard(|| V::from_bytes(branch, &b).map(|d| V::to_bytes(&d)));
            c.r.count("codec_noncanonical_inputs", 1);
            match g {
                Ok(Err(_)) => c.r.count("codec_noncanonical_rejected", 1),
                Ok(Ok(back)) => c.viol(
                    &format!("codec:{}:noncanonical-compact-size-accepted:field{fi}", V::NAME),
                    format!("a {}-byte encoding of {v} in compact field {fi} parsed; re-serialising gives {} bytes instead of the {} read", f.len(), back.len(), b.len()),
                    rp(&b),
                ),
                Err(p) => c.viol(&format!("codec:{}:from_bytes:panic:{}", V::NAME, panic_class(&p)), format!("non-canonical input: {p}"), rp(&b)),
            }
        }
    }
    // height ranges no record can have: descending, or more blocks than u64 can count
    for (sh, eh) in [(r.end_height.wrapping_add(1), r.end_height), (5, 4), (u64::MAX, 0), (0, u64::MAX), (rng.gen_range(1..u64::MAX), 0)] {
        if sh <= eh && !(sh == 0 && eh == u64::MAX) {
            continue;
        }
        let mut bad = r.clone();
        bad.start_height = sh;
        bad.end_height = eh;
        let b = bad.ser();
        let g = guard(|| V::from_bytes(branch, &b).is_ok());
        c.r.count("codec_impossible_height_ranges", 1);
        match g {
            Ok(false) => {}
            Ok(true) => c.viol(&format!("codec:{}:impossible-height-range-accepted", V::NAME), format!("start {sh}, end {eh} parsed"), rp(&b)),
            Err(p) => c.viol(&format!("codec:{}:from_bytes:panic:{}", V::NAME, panic_class(&p)), format!("height range {sh}..{eh}: {p}"), rp(&b)),
        }
    }
    // entry kind byte
    for kind in [2u8, 0xff, rng.gen_range(2..=255)] {
        let mut b = vec![kind];
        b.extend_from_slice(&good);
        let g = guard(|| Entry::<V>::from_bytes(branch, &b).is_ok());
        c.r.count("codec_bad_entry_kinds", 1);
        if !matches!(g, Ok(false)) {
            c.viol(&format!("codec:{}:bad-entry-kind-accepted", V::NAME), format!("kind byte {kind}: {g:?}"), rp(&b));
        }
    }
}

fn codec_combine<V: Ver>(c: &mut Ctx, branch: u32, l: &RNode, r: &RNode)
where
    V::NodeData: Clone,
{
    let Some(want) = ref_combine(branch, l, r) else { return };
    let (dl, dr) = (V::make(branch, l), V::make(branch, r));
    c.r.count("direct_combines", 1);
    c.r.case(&("combine", V::NAME, l.ser().len(), r.ser().len()), true);
    let rp = json!({"version": V::NAME, "branch_id": branch, "left": hexs(&l.ser()), "right": hexs(&r.ser())});
    match guard(|| V::combine(&dl, &dr)) {
        Ok(d) => {
            let (b, f) = V::fields(&d);
            if f != want || b != branch {
                c.viol(&format!("combine:{}:differs-from-reference:{}", V::NAME, diff_fields(&f, &want)), "combine(l, r) differs from ZIP 221 make_parent".into(), rp);
            }
        }
        Err(p) => c.viol(&format!("combine:{}:panic:{}", V::NAME, panic_class(&p)), format!("combine panicked on in-range inputs: {p}"), rp),
    }
}

fn guarded_codec<V: Ver>(c: &mut Ctx, what: &str, f: impl FnOnce(&mut Ctx))
where
    V::NodeData: Clone,
{
    if let Err(p) = guard(|| f(c)) {
        c.viol(&format!("codec:{}:{what}:panic:{}", V::NAME, panic_class(&p)), format!("{p}"), json!({"version": V::NAME}));
    }
}

fn phase_codec<V: Ver>(c: &mut Ctx, rng: &mut ChaCha20Rng, n_random: u64)
where
    V::NodeData: Clone,
{
    let branch = rng.r#gen();
    // boundary lattice: each compact field through every boundary value, others random
    let n_fields = 3 + V::N_EXT;
    for f in 0..n_fields {
        for &b in &BOUNDARY {
            let mut r = leaf(rng, V::N_EXT, 7, 1);
            match f {
                0 => {
                    r.start_height = b;
                    r.end_height = b.max(r.end_height).max(b);
                    if r.start_height == 0 && r.end_height == u64::MAX {
                        r.end_height -= 1;
                    }
                }
                1 => {
                    r.end_height = b;
                    r.start_height = if b == u64::MAX { 1 } else { 0 };
                }
                2 => r.sapling_tx = b,
                k => r.ext[k - 3].tx = b,
            }
            guarded_codec::<V>(c, "record", |c| codec_record::<V>(c, branch, &r, "boundary"));
            guarded_codec::<V>(c, "malformed", |c| codec_malformed::<V>(c, rng, branch, &r));
        }
    }
    // everything maximal / minimal
    let mut mx = leaf(rng, V::N_EXT, u64::MAX, 1);
    mx.work_le = [0xff; 32];
    mx.sapling_tx = u64::MAX;
    for e in &mut mx.ext {
        e.tx = u64::MAX;
    }
    guarded_codec::<V>(c, "record", |c| codec_record::<V>(c, u32::MAX, &mx, "all-max"));
    guarded_codec::<V>(c, "malformed", |c| codec_malformed::<V>(c, rng, u32::MAX, &mx));
    // random records (internal-node shaped: start <= end)
    for _ in 0..n_random {
        if !c.r.time_left() {
            break;
        }
        let mut r = leaf(rng, V::N_EXT, 0, 1);
        let (a, b) = (*BOUNDARY.choose(rng).unwrap(), rng.r#gen::<u64>() >> rng.gen_range(0..64));
        r.start_height = a.min(b);
        r.end_height = a.max(b);
        if r.start_height == 0 && r.end_height == u64::MAX {
            r.start_height = 1;
        }
        r.end_time = rng.r#gen();
        r.end_target = rng.r#gen();
        r.end_sapling_root = rand32(rng);
        guarded_codec::<V>(c, "record", |c| codec_record::<V>(c, branch, &r, "random"));
        if rng.gen_bool(0.1) {
            guarded_codec::<V>(c, "malformed", |c| codec_malformed::<V>(c, rng, branch, &r));
        }
        // direct combine with a right neighbour (sums kept in range)
        let mut l = leaf(rng, V::N_EXT, 0, 2);
        let mut rr = leaf(rng, V::N_EXT, 0, 2);
        l.start_height = rng.r#gen::<u64>() >> rng.gen_range(1..64);
        l.end_height = l.start_height + rng.gen_range(0..1000);
        rr.start_height = l.end_height + 1;
        rr.end_height = rr.start_height + rng.gen_range(0..1000);
        guarded_codec::<V>(c, "combine", |c| codec_combine::<V>(c, branch, &l, &rr));
    }
}

// ---------------------------------------------------------------------------------------------
// the reference against the ZIP 221 vectors shipped with the crate

#[derive(Debug)]
enum Tok {
    Num(u64),
    List(Vec<Tok>),
}

fn parse_value(s: &[u8], p: &mut usize) -> Tok {
    // skip to the first digit or '['
    while *p < s.len() && !(s[*p].is_ascii_digit() || s[*p] == b'[') {
        *p += 1;
    }
    if s[*p] == b'[' {
        *p += 1;
        let mut items = vec![];
        loop {
            while *p < s.len() && !(s[*p].is_ascii_digit() || s[*p] == b'[' || s[*p] == b']') {
                *p += 1;
            }
            if s[*p] == b']' {
                *p += 1;
                return Tok::List(items);
            }
            items.push(parse_value(s, p));
        }
    }
    let st = *p;
    while *p < s.len() && (s[*p].is_ascii_alphanumeric() || s[*p] == b'_') {
        *p += 1;
    }
    let t = std::str::from_utf8(&s[st..*p]).unwrap().replace('_', "");
    Tok::Num(if let Some(h) = t.strip_prefix("0x") { u64::from_str_radix(h, 16).unwrap() } else { t.parse().unwrap() })
}

fn tok_bytes(t: &Tok) -> Vec<u8> {
    match t {
        Tok::List(v) => v.iter().map(|x| if let Tok::Num(n) = x { *n as u8 } else { panic!("nested") }).collect(),
        _ => panic!("bytes expected"),
    }
}

fn field<'a>(blk: &'a str, name: &str) -> Tok {
    let at = blk.find(&format!("{name}:")).unwrap_or_else(|| panic!("field {name}"));
    let mut p = at + name.len() + 1;
    parse_value(blk.as_bytes(), &mut p)
}

fn reference_selftest(c: &mut Ctx) {
    for (file, n_ext) in [("zip_0221_v1.rs", 0usize), ("zip_0221_v2.rs", 1), ("zip_0221_v3.rs", 2)] {
        let path = vh_common::repo_root().join("zcash_history/src/test_vectors").join(file);
        let Ok(src) = std::fs::read_to_string(&path) else {
            c.r.note(format!("vector file {path:?} not readable"));
            c.r.count("reference_selftest_failures", 1);
            continue;
        };
        let src: String = src.lines().filter(|l| !l.trim_start().starts_with("//")).collect::<Vec<_>>().join("\n");
        let body = &src[src.find("TEST_VECTORS").unwrap()..];
        let mut leaves: Vec<RNode> = vec![];
        for blk in body.split("TestVector {").skip(1) {
            let Tok::Num(branch) = field(blk, "consensus_branch_id") else { panic!() };
            let branch = branch as u32;
            let Tok::Num(n_leaves) = field(blk, "n_leaves") else { panic!() };
            let leaf_ser = tok_bytes(&field(blk, "leaf_serialized"));
            let Tok::List(pk) = field(blk, "peaks") else { panic!() };
            let peaks: Vec<Vec<u8>> = pk.iter().map(tok_bytes).collect();
            let root_ser = tok_bytes(&field(blk, "root_serialized"));
            let root_hash = tok_bytes(&field(blk, "hash_chain_history_root"));
            let mut fail = |what: &str| {
                c.r.note(format!("reference self-test: {file} n_leaves={n_leaves}: {what}"));
                c.r.count("reference_selftest_failures", 1);
            };
            match RNode::parse(&leaf_ser, n_ext) {
                Some((l, used)) if used == leaf_ser.len() && l.ser() == leaf_ser => leaves.push(l),
                _ => {
                    fail("leaf record does not parse / re-serialise");
                    continue;
                }
            }
            if leaves.len() as u64 != n_leaves {
                fail("leaf count out of step");
                continue;
            }
            let rt = ref_tree(branch, &leaves);
            if rt.root.ser() != root_ser {
                fail("root record differs");
            }
            if history_hash(branch, &rt.root.ser())[..] != root_hash[..] {
                fail("hashChainHistoryRoot differs");
            }
            if rt.peaks.iter().map(|p| p.1.ser()).collect::<Vec<_>>() != peaks {
                fail("peaks differ");
            }
            if rt.arr.len() as u64 != 2 * n_leaves - n_leaves.count_ones() as u64 {
                fail("array length");
            }
            c.r.count("reference_vectors_checked", 1);
        }
    }
}

fn main() {
    vh_common::install_panic_hook();
    let args = Args::parse();
    let mut c = Ctx { r: Reporter::new("C20", &args) };
    let mut rng = vh_common::rng(args.shard_seed(), 20);

    reference_selftest(&mut c);
    if c.r.counter("reference_selftest_failures") > 0 {
        // a wrong oracle must not produce verdicts
        c.r.inconclusive("reference-selftest-failed");
        c.r.finish();
        return;
    }

    let n_codec = args.get_u64("codec-random", args.pick(300, 20_000));
    phase_codec::<V1>(&mut c, &mut rng, n_codec);
    phase_codec::<V2>(&mut c, &mut rng, n_codec);
    phase_codec::<V3>(&mut c, &mut rng, n_codec);

    let max_leaves = args.get_u64("max-leaves", args.pick(600, 2500));
    let max_seq = args.get_u64("max-sequences", args.pick(100_000, 10_000_000));
    let kmax = args.get_u64("jump-max-log2", args.pick(14, 17)) as u32;
    let jump_every = args.get_u64("jump-every", args.pick(40, 25));
    let jump_share = args.get_u64("jump-share-percent", 25) as f64 / 100.0;
    let mut jump_secs = 0f64;
    let mut i = 0u64;
    while i < max_seq && c.r.time_left() {
        i += 1;
        // most sequences are short (all small sizes, every peak configuration); some are long
        let ml = match rng.gen_range(0..10) {
            0..=3 => 40,
            4..=6 => 140,
            7..=8 => max_leaves.min(600),
            _ => max_leaves,
        };
        let max_ops = if args.tier == Tier::Quick { 1500 } else { 8000 };
        // now and then a large tree (sizes around 2^k up to 2^kmax), time permitting
        // (a fixed share of the elapsed time, so that a loaded machine still reaches them)
        let _ = jump_every;
        let jump = if jump_secs < jump_share * c.r.elapsed().as_secs_f64() && c.r.frac_left() > 0.1 {
            let k = rng.gen_range(10..=kmax);
            let p = 1u64 << k;
            Some(match rng.gen_range(0..7) {
                0 => p - 1,
                1 => p,
                2 => p + 1,
                3 => p + p / 2,
                4 => p + (1u64 << rng.gen_range(0..k)),
                5 => p - 2,
                _ => p + rng.gen_range(2..p),
            })
        } else {
            None
        };
        let t0 = c.r.elapsed().as_secs_f64();
        match (i + args.shard) % 3 {
            0 => run_sequence::<V1>(&mut c, &mut rng, ml, max_ops, jump),
            1 => run_sequence::<V2>(&mut c, &mut rng, ml, max_ops, jump),
            _ => run_sequence::<V3>(&mut c, &mut rng, ml, max_ops, jump),
        }
        if jump.is_some() {
            jump_secs += c.r.elapsed().as_secs_f64() - t0;
        }
    }
    c.r.finish();
}
