//! C19 — Equihash verification accepts exactly the valid solutions.
//!
//! The harness owns an independent Wagner solver (below; nothing from the crate's optional
//! `solver` feature) that produces valid solutions for several small parameter sets, its own
//! minimal encoder, and a set of index-level mutation operators. Every call of
//! `equihash::is_valid_solution` is guarded; what the shard can judge by itself it judges
//! (solver / vector solutions must be accepted, wrong lengths and invalid parameters must be
//! errors, nothing may panic); everything else (mutated index sequences, accepted bit flips,
//! right-length grid points) is written to the event log and judged by
//! `lib/pyref/equihash_ref.py`, a big-integer transcription of protocol spec §7.6.1.1.

use std::collections::BTreeSet;

use blake2b_simd::{Params as B2Params, State as B2State};
use primitive_types::{U256, U512};
use vh_common::rand::seq::SliceRandom;
use vh_common::rand::{Rng, RngCore};
use vh_common::rand_chacha::ChaCha20Rng;
use vh_common::{guard, hexs, json, panic_class, Args, Reporter, Value};

// ---------------------------------------------------------------------------------------------
// parameter arithmetic (from the specification, not from the crate)

fn spec_params_ok(n: u32, k: u32) -> bool {
    n % 8 == 0 && k >= 3 && k < n && (n as u64) % (k as u64 + 1) == 0
}

fn cbl(n: u32, k: u32) -> u32 {
    n / (k + 1)
}

/// Minimal-encoding byte length, if it is below `cap`.
fn soln_len(n: u32, k: u32, cap: u64) -> Option<usize> {
    if k >= 40 {
        return None;
    }
    let bits = (1u64 << k).checked_mul(cbl(n, k) as u64 + 1)?;
    let l = bits / 8;
    (l <= cap).then_some(l as usize)
}

/// Where the crate documents itself as usable *and* the definition is meaningful: here a
/// reference-valid solution must be accepted (completeness). Outside, `Err` is tolerated
/// (the crate may declare such parameters unsupported) but `Ok` on an invalid solution and
/// panics are not.
fn in_envelope(n: u32, k: u32) -> bool {
    let c = cbl(n, k);
    spec_params_ok(n, k) && n <= 512 && (8..=24).contains(&c) && k < 32
}

fn encode_minimal(n: u32, k: u32, idx: &[u32]) -> Vec<u8> {
    let w = cbl(n, k) + 1;
    let mut out = Vec::with_capacity(idx.len() * w as usize / 8 + 1);
    let mut acc: u64 = 0;
    let mut bits = 0u32;
    for &i in idx {
        debug_assert!(w == 32 || i < (1u32 << w));
        acc = (acc << w) | i as u64;
        bits += w;
        while bits >= 8 {
            bits -= 8;
            out.push((acc >> bits) as u8);
        }
        acc &= (1u64 << bits) - 1;
    }
    assert_eq!(bits, 0);
    out
}

fn pow_state(n: u32, k: u32, input: &[u8], nonce: &[u8]) -> B2State {
    let mut p = [0u8; 16];
    p[..8].copy_from_slice(b"ZcashPoW");
    p[8..12].copy_from_slice(&n.to_le_bytes());
    p[12..16].copy_from_slice(&k.to_le_bytes());
    let m = 512 / n;
    let mut st = B2Params::new()
        .hash_length((m * n / 8) as usize)
        .personal(&p)
        .to_state();
    st.update(input);
    st.update(nonce);
    st
}

// ---------------------------------------------------------------------------------------------
// Wagner solver

trait Hv: Copy + Send {
    fn from_be(b: &[u8]) -> Self; // left-aligned
    fn xor(self, o: Self) -> Self;
    fn shl(self, b: u32) -> Self;
    fn top(self, b: u32) -> u32; // b <= 32
    fn zero(self) -> bool;
}

impl Hv for u128 {
    fn from_be(b: &[u8]) -> Self {
        let mut w = [0u8; 16];
        w[..b.len()].copy_from_slice(b);
        u128::from_be_bytes(w)
    }
    fn xor(self, o: Self) -> Self {
        self ^ o
    }
    fn shl(self, b: u32) -> Self {
        self << b
    }
    fn top(self, b: u32) -> u32 {
        (self >> (128 - b)) as u32
    }
    fn zero(self) -> bool {
        self == 0
    }
}

#[derive(Clone, Copy)]
struct W256(U256);
impl Hv for W256 {
    fn from_be(b: &[u8]) -> Self {
        let mut w = [0u8; 32];
        w[..b.len()].copy_from_slice(b);
        W256(U256::from_big_endian(&w))
    }
    fn xor(self, o: Self) -> Self {
        W256(self.0 ^ o.0)
    }
    fn shl(self, b: u32) -> Self {
        W256(self.0 << b)
    }
    fn top(self, b: u32) -> u32 {
        (self.0 >> (256 - b as usize)).low_u32()
    }
    fn zero(self) -> bool {
        self.0.is_zero()
    }
}

#[derive(Clone, Copy)]
struct W512(U512);
impl Hv for W512 {
    fn from_be(b: &[u8]) -> Self {
        let mut w = [0u8; 64];
        w[..b.len()].copy_from_slice(b);
        W512(U512::from_big_endian(&w))
    }
    fn xor(self, o: Self) -> Self {
        W512(self.0 ^ o.0)
    }
    fn shl(self, b: u32) -> Self {
        W512(self.0 << b)
    }
    fn top(self, b: u32) -> u32 {
        (self.0 >> (512 - b as usize)).low_u32()
    }
    fn zero(self) -> bool {
        self.0.is_zero()
    }
}

struct Round<H> {
    /// hash of the item with `r * cbl` leading (zero) bits shifted out; emptied when not kept
    h: Vec<H>,
    /// children in the previous round (round 0: the index itself, twice)
    ab: Vec<(u32, u32)>,
}

struct Solved<H> {
    n: u32,
    k: u32,
    rounds: Vec<Round<H>>, // 0 ..= k-1
    kept: bool,
    sols: Vec<Vec<u32>>,
    /// all binding conditions hold, the first k chunks cancel, the last chunk does not:
    /// (indices, value of the last chunk)
    near: Vec<(Vec<u32>, u32)>,
    /// all binding conditions hold below the top level, the *last* chunk cancels at the top
    /// level but chunk k does not
    anti_near: Vec<Vec<u32>>,
    /// [A1,A2,B1,A2]: A1 and B1 are disjoint level-(k-2) blocks whose hashes agree on *all*
    /// remaining bits, A2 collides with both: every XOR and ordering condition holds, the only
    /// defect is the repeated block A2 (never in first position of both halves)
    embedded_dups: Vec<Vec<u32>>,
    /// final-round candidates (all XOR and ordering conditions hold) whose two halves share
    /// exactly one index
    single_dups: Vec<Vec<u32>>,
    dup_candidates: u64,
}

fn bucket_order<H: Hv>(h: &[H], c: u32) -> (Vec<u32>, Vec<u32>) {
    let nb = 1usize << c;
    let mut start = vec![0u32; nb + 1];
    for x in h {
        start[x.top(c) as usize + 1] += 1;
    }
    for i in 0..nb {
        start[i + 1] += start[i];
    }
    let mut fill = start.clone();
    let mut order = vec![0u32; h.len()];
    for (i, x) in h.iter().enumerate() {
        let b = x.top(c) as usize;
        order[fill[b] as usize] = i as u32;
        fill[b] += 1;
    }
    (order, start)
}

fn expand<H>(rounds: &[Round<H>], r: usize, i: u32) -> Vec<u32> {
    if r == 0 {
        return vec![i];
    }
    let (a, b) = rounds[r].ab[i as usize];
    let mut x = expand(rounds, r - 1, a);
    let mut y = expand(rounds, r - 1, b);
    if x[0] <= y[0] {
        x.extend(y);
        x
    } else {
        y.extend(x);
        y
    }
}

fn all_distinct(v: &[u32]) -> bool {
    let mut s = v.to_vec();
    s.sort_unstable();
    s.windows(2).all(|w| w[0] != w[1])
}

fn solve<H: Hv>(n: u32, k: u32, st: &B2State, keep: bool, alive: &dyn Fn() -> bool) -> Option<Solved<H>> {
    let c = cbl(n, k);
    let big_n: u64 = 1u64 << (c + 1);
    let m = (512 / n) as u64;
    let nb = (n / 8) as usize;
    let mut h0: Vec<H> = Vec::with_capacity(big_n as usize);
    let mut q = 0u64;
    while (h0.len() as u64) < big_n {
        let mut s = st.clone();
        s.update(&(q as u32).to_le_bytes());
        let d = s.finalize();
        for r in 0..m as usize {
            if (h0.len() as u64) < big_n {
                h0.push(H::from_be(&d.as_bytes()[r * nb..(r + 1) * nb]));
            }
        }
        q += 1;
    }
    let ab0 = (0..big_n as u32).map(|i| (i, i)).collect();
    let mut rounds = vec![Round { h: h0, ab: ab0 }];
    let cap = (big_n as usize) * 6;
    let mut full_coll: Vec<(u32, u32)> = vec![];
    for r in 1..k as usize {
        if !alive() {
            return None;
        }
        let prev = &rounds[r - 1];
        let (order, start) = bucket_order(&prev.h, c);
        let mut h = Vec::with_capacity(prev.h.len());
        let mut ab = Vec::with_capacity(prev.h.len());
        'outer: for b in 0..(1usize << c) {
            let (s, e) = (start[b] as usize, start[b + 1] as usize);
            for i in s..e {
                for j in i + 1..e {
                    let (a, bb) = (order[i], order[j]);
                    let x = prev.h[a as usize].xor(prev.h[bb as usize]).shl(c);
                    if x.zero() {
                        // same index set on both sides, or (tiny parameters) a genuine total collision
                        if r == k as usize - 1 && full_coll.len() < 4 {
                            let mut e = expand(&rounds, r - 1, a);
                            e.extend(expand(&rounds, r - 1, bb));
                            if all_distinct(&e) {
                                full_coll.push((a, bb));
                            }
                        }
                        continue;
                    }
                    h.push(x);
                    ab.push((a, bb));
                    if h.len() >= cap {
                        break 'outer;
                    }
                }
            }
        }
        if !keep {
            rounds[r - 1].h = Vec::new();
        }
        rounds.push(Round { h, ab });
    }
    // final round: collide on the remaining 2c bits
    let last = &rounds[k as usize - 1];
    let (order, start) = bucket_order(&last.h, c);
    let mut sols = vec![];
    let mut near: Vec<(Vec<u32>, u32)> = vec![];
    let mut near_best: Option<(u32, u32, u32)> = None;
    let mut near_seen = 0u64;
    let mut dup = 0u64;
    let mut single_dups: Vec<Vec<u32>> = vec![];
    let join = |a: u32, b: u32| -> Vec<u32> {
        let mut x = expand(&rounds, k as usize - 1, a);
        let mut y = expand(&rounds, k as usize - 1, b);
        if x[0] <= y[0] {
            x.extend(y);
            x
        } else {
            y.extend(x);
            y
        }
    };
    let mut examined = 0u64;
    for b in 0..(1usize << c) {
        if b % 4096 == 0 && !alive() {
            return None;
        }
        let (s, e) = (start[b] as usize, start[b + 1] as usize);
        for i in s..e {
            for j in i + 1..e {
                let (a, bb) = (order[i], order[j]);
                let x = last.h[a as usize].xor(last.h[bb as usize]).shl(c);
                if x.zero() {
                    examined += 1;
                    if examined > 200_000 {
                        // parameter sets whose index space is too small drown in duplicate candidates
                        continue;
                    }
                    let v = join(a, bb);
                    if all_distinct(&v) {
                        if sols.len() < 16 && !sols.contains(&v) {
                            sols.push(v);
                        }
                    } else {
                        dup += 1;
                        if single_dups.len() < 6 {
                            let mut srt = v.clone();
                            srt.sort_unstable();
                            if srt.windows(2).filter(|w| w[0] == w[1]).count() == 1 {
                                single_dups.push(v);
                            }
                        }
                    }
                } else {
                    near_seen += 1;
                    let t = x.top(c);
                    if near_best.map(|nb| t < nb.0).unwrap_or(true) {
                        near_best = Some((t, a, bb));
                    }
                    if near.len() < 3 && near_seen % 97 == 1 {
                        let v = join(a, bb);
                        if all_distinct(&v) {
                            near.push((v, t));
                        }
                    }
                }
            }
        }
    }
    if let Some((t, a, bb)) = near_best {
        let v = join(a, bb);
        if all_distinct(&v) {
            near.push((v, t));
        }
    }
    let mut embedded_dups = vec![];
    {
        let lvl = k as usize - 2;
        let src = &rounds[lvl];
        if !src.h.is_empty() {
            for &(a, bb) in &full_coll {
                let key = src.h[a as usize].top(c);
                let ea = expand(&rounds, lvl, a);
                let eb = expand(&rounds, lvl, bb);
                for (i, x) in src.h.iter().enumerate() {
                    if i as u32 == a || i as u32 == bb || x.top(c) != key {
                        continue;
                    }
                    let e2 = expand(&rounds, lvl, i as u32);
                    let mut all = ea.clone();
                    all.extend(&eb);
                    all.extend(&e2);
                    if !all_distinct(&all) {
                        continue;
                    }
                    let mut v = ea.clone();
                    v.extend(&e2);
                    v.extend(&eb);
                    v.extend(&e2);
                    canon(&mut v);
                    embedded_dups.push(v);
                    break;
                }
            }
        }
    }
    let mut anti_near = vec![];
    {
        let shifted: Vec<H> = last.h.iter().map(|x| x.shl(c)).collect();
        let (order, start) = bucket_order(&shifted, c);
        let mut seen = 0u64;
        'o: for b in 0..(1usize << c) {
            let (s, e) = (start[b] as usize, start[b + 1] as usize);
            for i in s..e {
                for j in i + 1..e {
                    let (a, bb) = (order[i], order[j]);
                    if last.h[a as usize].top(c) == last.h[bb as usize].top(c) {
                        continue;
                    }
                    seen += 1;
                    if seen % 61 == 1 {
                        let v = join(a, bb);
                        if all_distinct(&v) {
                            anti_near.push(v);
                            if anti_near.len() >= 3 {
                                break 'o;
                            }
                        }
                    }
                }
            }
        }
    }
    if !keep {
        let l = rounds.len();
        rounds[l - 1].h = Vec::new();
    }
    Some(Solved {
        n,
        k,
        rounds,
        kept: keep,
        sols,
        near,
        anti_near,
        embedded_dups,
        single_dups,
        dup_candidates: dup,
    })
}

/// Orders every sibling pair by its first index, bottom-up (the canonical arrangement of a
/// given binary tree over the leaves).
fn canon(v: &mut [u32]) {
    if v.len() < 2 {
        return;
    }
    let h = v.len() / 2;
    {
        let (a, b) = v.split_at_mut(h);
        canon(a);
        canon(b);
    }
    if v[0] > v[h] {
        let (a, b) = v.split_at_mut(h);
        a.swap_with_slice(b);
    }
}

// ---------------------------------------------------------------------------------------------
// calling the code under test

#[derive(Clone, Debug, PartialEq)]
enum Verdict {
    Ok,
    Err(&'static str),
    Panic(String),
}

impl Verdict {
    fn tag(&self) -> String {
        match self {
            Verdict::Ok => "ok".into(),
            Verdict::Err(k) => format!("err:{k}"),
            Verdict::Panic(_) => "panic".into(),
        }
    }
}

fn err_kind(s: &str) -> &'static str {
    if s.contains("invalid parameters") {
        "params"
    } else if s.contains("collision") {
        "collision"
    } else if s.contains("ordered") {
        "order"
    } else if s.contains("duplicate") {
        "duplicate"
    } else if s.contains("non-zero") {
        "nonzero-root"
    } else {
        "other"
    }
}

struct Ctx {
    r: Reporter,
    inst_id: u64,
}

impl Ctx {
    fn call(&mut self, n: u32, k: u32, input: &[u8], nonce: &[u8], soln: &[u8]) -> Verdict {
        let g = guard(|| equihash::is_valid_solution(n, k, input, nonce, soln).map_err(|e| e.to_string()));
        match g {
            Ok(Ok(())) => {
                self.r.count("rust_ok", 1);
                Verdict::Ok
            }
            Ok(Err(e)) => {
                let kd = err_kind(&e);
                self.r.count(&format!("rust_err_{kd}"), 1);
                Verdict::Err(kd)
            }
            Err(p) => {
                self.r.count("rust_panics", 1);
                let short = soln.len() <= 256;
                // F2 lives entirely in "parameters the definition allows but the crate cannot
                // represent"; a panic on supported or on invalid parameters is a different class
                let pc = if in_envelope(n, k) {
                    "supported-params"
                } else if spec_params_ok(n, k) {
                    "valid-params-outside-supported-range"
                } else {
                    "invalid-params"
                };
                self.r.count(&format!("rust_panics_{pc}"), 1);
                self.r.violation(
                    &format!("C19:is_valid_solution:panic:{pc}:{}", panic_class(&p)),
                    format!("is_valid_solution(n={n}, k={k}, input {}B, nonce {}B, soln {}B) panicked: {p}", input.len(), nonce.len(), soln.len()),
                    json!({"n": n, "k": k, "input": hexs(input), "nonce": hexs(nonce),
                           "soln_len": soln.len(), "soln": if short { hexs(soln) } else { "<long; see detail>".into() }}),
                );
                Verdict::Panic(p)
            }
        }
    }

    fn new_instance(&mut self, n: u32, k: u32, input: &[u8], nonce: &[u8]) -> u64 {
        self.inst_id += 1;
        let id = self.inst_id;
        self.r.event(&json!({"t": "inst", "id": id, "n": n, "k": k, "input": hexs(input), "nonce": hexs(nonce)}));
        id
    }

    /// A case whose verdict the Python reference decides.
    fn judged(&mut self, inst: u64, n: u32, k: u32, input: &[u8], nonce: &[u8], origin: &str, level: u32, soln: &[u8]) -> Verdict {
        let v = self.call(n, k, input, nonce, soln);
        self.r.case(&(origin, n, k, level, v.tag()), true);
        self.r.count(&format!("judged_{origin}"), 1);
        if !matches!(v, Verdict::Panic(_)) {
            self.r.event(&json!({"t": "v", "inst": inst, "origin": origin, "level": level, "soln": hexs(soln), "rust": v.tag()}));
        }
        v
    }
}

struct Instance {
    n: u32,
    k: u32,
    input: Vec<u8>,
    nonce: Vec<u8>,
}

fn flips(c: &mut Ctx, rng: &mut ChaCha20Rng, inst: u64, it: &Instance, soln: &[u8], cap: usize) {
    let (n, k) = (it.n, it.k);
    // (which, buffer length in bits)
    for which in ["soln", "input", "nonce"] {
        let len = match which {
            "soln" => soln.len(),
            "input" => it.input.len(),
            _ => it.nonce.len(),
        } * 8;
        let positions: Vec<usize> = if len <= cap {
            (0..len).collect()
        } else {
            c.r.count("bitflip_sets_sampled", 1);
            (0..cap).map(|_| rng.gen_range(0..len)).collect()
        };
        if len > 0 && len <= cap {
            c.r.count(&format!("bitflip_sets_complete_{which}"), 1);
        }
        for p in positions {
            if !c.r.time_left() {
                c.r.inconclusive("budget-exhausted-during-bitflips");
                return;
            }
            let (mut s, mut i, mut nn) = (soln.to_vec(), it.input.clone(), it.nonce.clone());
            match which {
                "soln" => s[p / 8] ^= 1 << (p % 8),
                "input" => i[p / 8] ^= 1 << (p % 8),
                _ => nn[p / 8] ^= 1 << (p % 8),
            }
            let v = c.call(n, k, &i, &nn, &s);
            c.r.case(&("flip", which, n, k, v.tag()), true);
            c.r.count(&format!("bitflips_{which}"), 1);
            if v == Verdict::Ok {
                // The statement says every flip is rejected; for tiny n a flipped string can be a
                // genuinely valid other solution, so the reference adjudicates.
                c.r.count("bitflip_accepted", 1);
                let _ = inst;
                c.r.event(&json!({"t": "flip", "n": n, "k": k, "which": which, "bit": p,
                    "input": hexs(&i), "nonce": hexs(&nn), "soln": hexs(&s)}));
            }
        }
    }
}

/// Index-level mutations of a valid solution that need nothing but the solution itself.
fn mutations_basic(c: &mut Ctx, rng: &mut ChaCha20Rng, inst: u64, it: &Instance, sol: &[u32]) {
    let (n, k) = (it.n, it.k);
    let cnt = sol.len();
    let emit = |c: &mut Ctx, origin: &str, level: u32, v: &[u32]| {
        let enc = encode_minimal(n, k, v);
        c.judged(inst, n, k, &it.input, &it.nonce, origin, level, &enc)
    };
    // very long solutions (thousands of indices): a few levels only, to keep the event log small
    let light = cnt > 1024;
    let levels: Vec<u32> = if light { vec![1, k / 2, k] } else { (1..=k).collect() };
    // swap the two halves of one block at every level (ordering rule at level r)
    for &r in &levels {
        let bs = 1usize << r;
        let w = rng.gen_range(0..cnt / bs);
        let mut v = sol.to_vec();
        let (a, b) = v[w * bs..(w + 1) * bs].split_at_mut(bs / 2);
        a.swap_with_slice(b);
        emit(c, "mut-swap-siblings", r, &v);
    }
    // swap two blocks that are not siblings (r = 0: two arbitrary leaves)
    for r in 0..k.saturating_sub(1) {
        if light && r != 0 && r != k - 2 {
            continue;
        }
        let bs = 1usize << r;
        let nblk = cnt / bs;
        let a = rng.gen_range(0..nblk);
        let mut b = rng.gen_range(0..nblk);
        if b == a || b == (a ^ 1) {
            b = (a + 2) % nblk;
        }
        let mut v = sol.to_vec();
        for t in 0..bs {
            v.swap(a * bs + t, b * bs + t);
        }
        emit(c, "mut-swap-cousins", r, &v);
        // the same, then put every pair back into canonical order: only collisions break
        canon(&mut v);
        emit(c, "mut-swap-cousins-canon", r, &v);
    }
    // duplicate an index (with and without re-canonicalising)
    {
        let a = rng.gen_range(0..cnt);
        let mut b = rng.gen_range(0..cnt);
        if a == b {
            b = (a + 1) % cnt;
        }
        let mut v = sol.to_vec();
        v[a] = v[b];
        emit(c, "mut-duplicate-index", 0, &v);
        canon(&mut v);
        emit(c, "mut-duplicate-index-canon", 0, &v);
    }
    // doubled blocks: [C1,C1,C2,C2,..] where the C are the solution's own level-(r-1) blocks:
    // every collision holds trivially, the order rule is never strictly violated, only
    // distinctness fails — and only at level r
    for &r in &levels {
        let half = 1usize << (r - 1);
        let mut blocks: Vec<&[u32]> = sol.chunks(half).collect();
        blocks.shuffle(rng);
        blocks.truncate(cnt / (2 * half));
        blocks.sort_by_key(|b| b[0]);
        let mut v = Vec::with_capacity(cnt);
        for b in blocks {
            v.extend_from_slice(b);
            v.extend_from_slice(b);
        }
        emit(c, "mut-doubled-blocks", r, &v);
    }
    // arithmetic nudges
    if !light {
        let w = cbl(n, k) + 1;
        let mask = if w == 32 { u32::MAX } else { (1u32 << w) - 1 };
        let a = rng.gen_range(0..cnt);
        let mut v = sol.to_vec();
        v[a] = (v[a] + 1) & mask;
        emit(c, "mut-index-plus-one", 0, &v);
        let mut v = sol.to_vec();
        v[a] = rng.r#gen::<u32>() & mask;
        emit(c, "mut-index-random", 0, &v);
        let mut v = sol.to_vec();
        v.sort_unstable();
        emit(c, "mut-sorted", 0, &v);
        let mut v = sol.to_vec();
        v.reverse();
        emit(c, "mut-reversed", 0, &v);
        let mut v = sol.to_vec();
        v.rotate_left(1);
        emit(c, "mut-rotated", 0, &v);
    }
    // the valid encoding with bytes appended / removed: wrong length, must be an error
    {
        let enc = encode_minimal(n, k, sol);
        let mut variants: Vec<(&str, Vec<u8>)> = vec![];
        let mut v = enc.clone();
        v.push(0);
        variants.push(("one-trailing-zero-byte", v));
        let mut v = enc.clone();
        v.push(rng.r#gen());
        variants.push(("one-trailing-byte", v));
        let mut v = enc.clone();
        v.extend_from_slice(&enc);
        variants.push(("doubled", v));
        let mut v = enc.clone();
        v.pop();
        variants.push(("last-byte-removed", v));
        let mut v = enc.clone();
        v.insert(0, 0);
        variants.push(("one-leading-zero-byte", v));
        for (what, v) in variants {
            let r = c.call(n, k, &it.input, &it.nonce, &v);
            c.r.case(&("valid-with-wrong-length", what, n, k, r.tag()), false);
            c.r.count("valid_solution_with_wrong_length_calls", 1);
            if r == Verdict::Ok {
                c.r.violation(
                    &format!("C19:is_valid_solution:accepted-wrong-length:valid-solution-{what}"),
                    format!("n={n}, k={k}: a valid solution with {what} ({} bytes instead of {}) was accepted", v.len(), enc.len()),
                    json!({"n": n, "k": k, "input": hexs(&it.input), "nonce": hexs(&it.nonce), "soln": hexs(&v)}),
                );
            }
        }
    }
    // the untouched solution under a different split of the same header bytes
    {
        let mut whole = it.input.clone();
        whole.extend_from_slice(&it.nonce);
        let cut = rng.gen_range(0..=whole.len());
        let enc = encode_minimal(n, k, sol);
        let v = c.call(n, k, &whole[..cut], &whole[cut..], &enc);
        c.r.case(&("resplit", n, k, v.tag()), true);
        c.r.count("resplit_calls", 1);
        if !matches!(v, Verdict::Ok | Verdict::Panic(_)) {
            c.r.violation(
                "C19:is_valid_solution:rejected-valid:input-nonce-resplit",
                format!("valid solution rejected ({}) when the same header bytes are split at {cut} instead of {}", v.tag(), it.input.len()),
                json!({"n": n, "k": k, "header": hexs(&whole), "cut": cut, "soln": hexs(&enc)}),
            );
        }
    }
}

/// Mutations that use the solver's lists: substitutions that keep the lower levels consistent.
fn mutations_solver<H: Hv>(c: &mut Ctx, rng: &mut ChaCha20Rng, inst: u64, it: &Instance, s: &Solved<H>, sol: &[u32]) {
    let (n, k) = (it.n, it.k);
    let cb = cbl(n, k);
    let cnt = sol.len();
    if !s.kept {
        return;
    }
    let x = &s.rounds[0].h;
    // replace one index by another whose hash agrees on chunk `ch` (1-based), keep pairs ordered
    let light = cnt > 1024;
    for ch in 1..=k + 1 {
        if light && ch != 1 && ch != k + 1 {
            continue;
        }
        let j = rng.gen_range(0..cnt);
        let target = x[sol[j] as usize].shl((ch - 1) * cb).top(cb);
        let used: BTreeSet<u32> = sol.iter().copied().collect();
        let start = rng.gen_range(0..x.len());
        let mut found = None;
        for o in 0..x.len() {
            let i = (start + o) % x.len();
            if !used.contains(&(i as u32)) && x[i].shl((ch - 1) * cb).top(cb) == target {
                found = Some(i as u32);
                break;
            }
        }
        if let Some(i2) = found {
            let mut v = sol.to_vec();
            v[j] = i2;
            canon(&mut v);
            c.r.count("mut_chunk_collider_found", 1);
            let enc = encode_minimal(n, k, &v);
            c.judged(inst, n, k, &it.input, &it.nonce, "mut-chunk-collider", ch, &enc);
        }
    }
    // replace a whole level-r block by another partial solution of the same level that still
    // collides with the block's sibling at level r+1
    for r in 1..k as usize {
        if light && r != 1 && r != k as usize - 1 {
            continue;
        }
        let bs = 1usize << r;
        let w = rng.gen_range(0..cnt / bs);
        let blk = &sol[w * bs..(w + 1) * bs];
        let mut acc = x[blk[0] as usize];
        for &i in &blk[1..] {
            acc = acc.xor(x[i as usize]);
        }
        let key = acc.shl(r as u32 * cb).top(cb);
        let used: BTreeSet<u32> = sol.iter().copied().collect();
        let lst = &s.rounds[r].h;
        if lst.is_empty() {
            continue;
        }
        let start = rng.gen_range(0..lst.len());
        for o in 0..lst.len() {
            let i = (start + o) % lst.len();
            if lst[i].top(cb) != key {
                continue;
            }
            let e = expand(&s.rounds, r, i as u32);
            if e.iter().any(|i| used.contains(i)) || !all_distinct(&e) {
                continue;
            }
            let mut v = sol.to_vec();
            v[w * bs..(w + 1) * bs].copy_from_slice(&e);
            canon(&mut v);
            c.r.count("mut_subtree_substitute_found", 1);
            let enc = encode_minimal(n, k, &v);
            c.judged(inst, n, k, &it.input, &it.nonce, "mut-subtree-substitute", r as u32, &enc);
            break;
        }
    }
}

/// Near misses taken from the solver's final round (available for every solved instance).
fn mutations_near<H: Hv>(c: &mut Ctx, inst: u64, it: &Instance, s: &Solved<H>, cnt: usize) {
    let (n, k) = (it.n, it.k);
    let cb = cbl(n, k);
    // near solutions: everything but the last chunk cancels
    for (v, t) in &s.near {
        let enc = encode_minimal(n, k, v);
        let lead = cb - (32 - t.leading_zeros()).min(cb);
        c.r.set_max("max_near_solution_leading_zero_bits_in_last_chunk", lead as u64);
        if lead >= 8 {
            c.r.count("near_solutions_last_chunk_differs_only_in_low_byte", 1);
        }
        c.judged(inst, n, k, &it.input, &it.nonce, "near-solution", k, &enc);
    }
    for v in &s.embedded_dups {
        let enc = encode_minimal(n, k, v);
        // is the repeated block away from the first position of at least one half?
        let h = v.len() / 2;
        if v[0] != v[h] {
            c.r.count("embedded_duplicate_not_in_first_position", 1);
        }
        c.judged(inst, n, k, &it.input, &it.nonce, "embedded-duplicate-subtree", k, &enc);
    }
    for v in &s.single_dups {
        let enc = encode_minimal(n, k, v);
        // positions of the repeated index, the level at which the two copies meet, and where
        // each copy sits inside its half of that block
        let mut p1 = 0;
        let mut p2 = 0;
        'f: for i in 0..v.len() {
            for j in i + 1..v.len() {
                if v[i] == v[j] {
                    (p1, p2) = (i, j);
                    break 'f;
                }
            }
        }
        let lvl = usize::BITS - (p1 ^ p2).leading_zeros(); // 1 = siblings
        let half = 1usize << (lvl - 1);
        let cls = |p: usize| if p % half == 0 { "first" } else if p % half == half - 1 { "last" } else { "inner" };
        c.r.count(&format!("single_duplicate_leaf_{}_in_left_{}_in_right", cls(p1), cls(p2)), 1);
        c.r.count(if lvl == k { "single_duplicate_leaf_meeting_at_top_level" } else { "single_duplicate_leaf_meeting_below_top_level" }, 1);
        c.judged(inst, n, k, &it.input, &it.nonce, "single-duplicate-leaf", k, &enc);
    }
    for v in &s.anti_near {
        let enc = encode_minimal(n, k, v);
        c.judged(inst, n, k, &it.input, &it.nonce, "near-solution-last-chunk-only", k, &enc);
    }
    // halves of two different solutions of the same instance
    if s.sols.len() >= 2 {
        let a = &s.sols[0];
        let b = &s.sols[1];
        let mut v = a[..cnt / 2].to_vec();
        v.extend_from_slice(&b[cnt / 2..]);
        canon(&mut v);
        let enc = encode_minimal(n, k, &v);
        c.judged(inst, n, k, &it.input, &it.nonce, "mut-spliced-solutions", k, &enc);
    }
}

fn accept_valid(c: &mut Ctx, inst: u64, it: &Instance, origin: &str, enc: &[u8]) -> bool {
    let v = c.call(it.n, it.k, &it.input, &it.nonce, enc);
    c.r.case(&(origin, it.n, it.k, v.tag()), true);
    c.r.count(&format!("valid_{origin}"), 1);
    c.r.count(&format!("valid_n{}_k{}", it.n, it.k), 1);
    // the reference confirms that the harness's "valid" really is valid (else the harness is broken)
    c.r.event(&json!({"t": "v", "inst": inst, "origin": origin, "level": 0, "soln": hexs(enc), "rust": v.tag(), "expect": "valid"}));
    match v {
        Verdict::Ok => true,
        Verdict::Err(kd) => {
            c.r.violation(
                &format!("C19:is_valid_solution:rejected-valid:{origin}:{kd}"),
                format!("valid solution ({origin}) for n={}, k={} rejected: {kd}", it.n, it.k),
                json!({"n": it.n, "k": it.k, "input": hexs(&it.input), "nonce": hexs(&it.nonce), "soln": hexs(enc)}),
            );
            false
        }
        Verdict::Panic(_) => false,
    }
}

fn solved_instance<H: Hv>(c: &mut Ctx, rng: &mut ChaCha20Rng, it: &Instance, flip_cap: usize, keep: bool) {
    let st = pow_state(it.n, it.k, &it.input, &it.nonce);
    let t0 = std::time::Instant::now();
    let deadline_ok = {
        let r = &c.r;
        // allow a running solve to finish up to 1.5x the budget; the driver's watchdog is 3x
        let start = r.elapsed();
        let budget = r.args().budget_s;
        move || start.as_secs_f64() + t0.elapsed().as_secs_f64() < budget * 1.5
    };
    let Some(s) = solve::<H>(it.n, it.k, &st, keep, &deadline_ok) else {
        c.r.inconclusive("solver-abandoned-at-budget");
        return;
    };
    c.r.count("solver_instances", 1);
    c.r.count(&format!("solver_instances_n{}_k{}", it.n, it.k), 1);
    c.r.count("solver_duplicate_candidates_discarded", s.dup_candidates);
    if s.sols.is_empty() {
        c.r.count("solver_instances_without_solution", 1);
    }
    if s.sols.len() >= 2 {
        c.r.count("solver_instances_with_several_solutions", 1);
    }
    let inst = c.new_instance(it.n, it.k, &it.input, &it.nonce);
    for (si, sol) in s.sols.iter().enumerate() {
        let enc = encode_minimal(it.n, it.k, sol);
        c.r.count("solver_solutions", 1);
        if !accept_valid(c, inst, it, "solver", &enc) {
            continue;
        }
        if si == 0 {
            c.r.sample(
                &format!("solver-solution-n{}-k{}", it.n, it.k),
                json!({"n": it.n, "k": it.k, "input": hexs(&it.input), "nonce": hexs(&it.nonce), "indices": sol.iter().take(64).collect::<Vec<_>>(), "soln_bytes": enc.len()}),
            );
        }
        if si < 2 {
            flips(c, rng, inst, it, &enc, flip_cap);
        }
        mutations_basic(c, rng, inst, it, sol);
        mutations_solver(c, rng, inst, it, &s, sol);
        if si == 0 {
            mutations_near(c, inst, it, &s, sol.len());
        }
    }
    if s.sols.is_empty() {
        // still use the near solutions of this instance
        mutations_near(c, inst, it, &s, 1usize << it.k);
    }
    let _ = (s.n, s.k);
}

/// Cheap search over many tiny instances for sequences whose only defect is a repeated subtree.
fn hunt_embedded_duplicates(c: &mut Ctx, rng: &mut ChaCha20Rng, count: u64) {
    for i in 0..count {
        if !c.r.time_left() {
            break;
        }
        let (n, k) = [(32, 3), (40, 4), (32, 3)][(i % 3) as usize];
        let it = random_instance(rng, n, k);
        let st = pow_state(n, k, &it.input, &it.nonce);
        let Some(s) = solve::<u128>(n, k, &st, true, &|| true) else { continue };
        c.r.count("embedded_duplicate_hunt_instances", 1);
        if s.embedded_dups.is_empty() && s.single_dups.is_empty() {
            continue;
        }
        let inst = c.new_instance(n, k, &it.input, &it.nonce);
        mutations_near(c, inst, &it, &s, 1usize << k);
    }
}

fn random_instance(rng: &mut ChaCha20Rng, n: u32, k: u32) -> Instance {
    let il = match rng.gen_range(0..6) {
        0 => 0,
        1 => 108,
        2 => rng.gen_range(1..8),
        3 => rng.gen_range(120..300),
        _ => rng.gen_range(8..120),
    };
    let nl = match rng.gen_range(0..5) {
        0 => 0,
        1 => rng.gen_range(1..32),
        _ => 32,
    };
    let mut input = vec![0u8; il];
    rng.fill_bytes(&mut input);
    let mut nonce = vec![0u8; nl];
    match rng.gen_range(0..4) {
        0 => {
            // small counter nonce, as miners do
            if nl > 0 {
                nonce[0] = rng.r#gen();
            }
        }
        _ => rng.fill_bytes(&mut nonce),
    }
    Instance { n, k, input, nonce }
}

// ---------------------------------------------------------------------------------------------
// phases

fn unhex(v: &Value) -> Vec<u8> {
    hex::decode(v.as_str().expect("hex string")).expect("hex")
}

fn phase_vectors(c: &mut Ctx, rng: &mut ChaCha20Rng, args: &Args, flip_cap: usize) {
    let Some(path) = args.extra.get("vectors") else {
        c.r.note("no --vectors file given: vector phase skipped");
        return;
    };
    let v: Value = serde_json::from_str(&std::fs::read_to_string(path).expect("read vectors")).expect("vectors json");
    let mut j = 0u64;
    for tv in v["valid"].as_array().unwrap() {
        j += 1;
        if j % args.nshards != args.shard {
            continue;
        }
        let it = Instance {
            n: tv["n"].as_u64().unwrap() as u32,
            k: tv["k"].as_u64().unwrap() as u32,
            input: unhex(&tv["input"]),
            nonce: unhex(&tv["nonce"]),
        };
        let inst = c.new_instance(it.n, it.k, &it.input, &it.nonce);
        let origin = tv["origin"].as_str().unwrap_or("vector");
        for (si, s) in tv["solutions"].as_array().unwrap().iter().enumerate() {
            let (enc, sol): (Vec<u8>, Option<Vec<u32>>) = if s.is_string() {
                (unhex(s), None)
            } else {
                let idx: Vec<u32> = s.as_array().unwrap().iter().map(|x| x.as_u64().unwrap() as u32).collect();
                (encode_minimal(it.n, it.k, &idx), Some(idx))
            };
            if !accept_valid(c, inst, &it, origin, &enc) {
                continue;
            }
            if si == 0 {
                flips(c, rng, inst, &it, &enc, flip_cap);
            }
            if let Some(sol) = sol {
                mutations_basic(c, rng, inst, &it, &sol);
            }
        }
    }
    for tv in v["invalid"].as_array().unwrap() {
        j += 1;
        if j % args.nshards != args.shard {
            continue;
        }
        let (n, k) = (tv["n"].as_u64().unwrap() as u32, tv["k"].as_u64().unwrap() as u32);
        let (input, nonce) = (unhex(&tv["input"]), unhex(&tv["nonce"]));
        let idx: Vec<u32> = tv["solution"].as_array().unwrap().iter().map(|x| x.as_u64().unwrap() as u32).collect();
        let enc = encode_minimal(n, k, &idx);
        let inst = c.new_instance(n, k, &input, &nonce);
        let v = c.judged(inst, n, k, &input, &nonce, "invalid-vector", 0, &enc);
        if v == Verdict::Ok {
            c.r.violation(
                "C19:is_valid_solution:accepted-invalid:shipped-invalid-vector",
                format!("invalid vector ({}) accepted", tv["error"]),
                json!({"n": n, "k": k, "input": hexs(&input), "nonce": hexs(&nonce), "soln": hexs(&enc)}),
            );
        }
    }
}

const CORE: [(u32, u32); 5] = [(48, 5), (96, 5), (96, 3), (144, 5), (200, 9)];

fn phase_random_strings(c: &mut Ctx, rng: &mut ChaCha20Rng) {
    let input = b"random string phase".to_vec();
    let nonce = vec![7u8; 32];
    let mut reject = |c: &mut Ctx, n: u32, k: u32, s: &[u8], right_len: bool| {
        let v = c.call(n, k, &input, &nonce, s);
        c.r.case(&("random-bytes", n, k, right_len, v.tag()), right_len);
        c.r.count(if right_len { "random_strings_right_length" } else { "random_strings_wrong_length" }, 1);
        if v == Verdict::Ok {
            if right_len {
                c.r.event(&json!({"t": "flip", "n": n, "k": k, "which": "random-bytes", "bit": 0,
                    "input": hexs(&input), "nonce": hexs(&nonce), "soln": hexs(s)}));
            } else {
                c.r.violation(
                    "C19:is_valid_solution:accepted-wrong-length",
                    format!("n={n}, k={k}: a {}-byte string was accepted, the encoding is {} bytes", s.len(), soln_len(n, k, u64::MAX).unwrap()),
                    json!({"n": n, "k": k, "input": hexs(&input), "nonce": hexs(&nonce), "soln": hexs(s)}),
                );
            }
        }
    };
    for len in 0..=2000usize {
        let (n, k) = CORE[len % CORE.len()];
        let mut s = vec![0u8; len];
        rng.fill_bytes(&mut s);
        let right = soln_len(n, k, u64::MAX) == Some(len);
        reject(c, n, k, &s, right);
        c.r.set_max("max_random_string_length", len as u64);
    }
    for (n, k) in CORE {
        let l = soln_len(n, k, u64::MAX).unwrap();
        for d in [-1i64, 0, 1] {
            for _ in 0..40 {
                let mut s = vec![0u8; (l as i64 + d) as usize];
                rng.fill_bytes(&mut s);
                reject(c, n, k, &s, d == 0);
            }
        }
    }
}

/// Deterministic index generators for grid points (the reference regenerates them for
/// encodings too long to log).
fn gen_index(kind: &str, j: u64, w: u32, a: u64, b: u64) -> u32 {
    let mask: u64 = (1u64 << w) - 1;
    (match kind {
        "zeros" => 0,
        "ones" => mask,
        "seq" => j & mask,
        "affine" => (a.wrapping_mul(j).wrapping_add(b)) & mask,
        _ => unreachable!(),
    }) as u32
}

fn grid_axis_n() -> Vec<u32> {
    let mut v: Vec<u32> = (0..=600).collect();
    v.extend([
        608, 640, 768, 1000, 1024, 2040, 2048, 4096, 65528, 65536, 1 << 24, 1 << 31, (1 << 31) + 8, u32::MAX - 15, u32::MAX - 7, u32::MAX - 1,
        u32::MAX,
    ]);
    v
}

fn grid_axis_k() -> Vec<u32> {
    let mut v: Vec<u32> = (0..=40).collect();
    v.extend([47, 62, 63, 64, 65, 127, 128, 255, 256, 1 << 16, 1 << 31, u32::MAX - 8, u32::MAX - 1, u32::MAX]);
    v
}

fn phase_grid(c: &mut Ctx, rng: &mut ChaCha20Rng, args: &Args) {
    let cap: u64 = args.get_u64("grid-max-soln-bytes", 64 << 20);
    let input = b"grid".to_vec();
    let nonce = vec![0u8; 32];
    let ns = grid_axis_n();
    let ks = grid_axis_k();
    let mut point = 0u64;
    let mut heavy_pairs = 0u64;
    let mut complete = true;
    for &n in &ns {
        for &k in &ks {
            point += 1;
            // pairs whose right-length call moves megabytes are dealt round-robin, everything
            // else by position, so that no shard gets all the expensive ones
            let heavy = spec_params_ok(n, k) && soln_len(n, k, cap).map(|l| l > (1 << 20)).unwrap_or(false);
            if heavy {
                heavy_pairs += 1;
                if heavy_pairs % args.nshards != args.shard {
                    continue;
                }
            } else if point % args.nshards != args.shard {
                continue;
            }
            if !c.r.time_left() {
                complete = false;
                continue;
            }
            c.r.count("grid_points", 1);
            let ok_params = spec_params_ok(n, k);
            if !ok_params {
                // any length must be an error
                let mut lens = vec![0usize, 1, 3, 68, rng.gen_range(0..200)];
                // the length the encoding "would" have if the pair were accepted
                if k < 24 && n > 0 {
                    let bits = (1u64 << k) * ((n as u64) / (k as u64 + 1) + 1);
                    for l in [bits / 8, bits.div_ceil(8)] {
                        if l <= (1 << 16) {
                            lens.push(l as usize);
                        }
                    }
                }
                for len in lens {
                    let s = vec![0x5au8; len];
                    let v = c.call(n, k, &input, &nonce, &s);
                    c.r.case(&("grid-invalid-params", v.tag()), false);
                    c.r.count("grid_calls_invalid_params", 1);
                    if v == Verdict::Ok {
                        c.r.violation(
                            "C19:is_valid_solution:accepted-invalid-params",
                            format!("n={n}, k={k} are not Equihash parameters, a {len}-byte string was accepted"),
                            json!({"n": n, "k": k, "len": len}),
                        );
                    }
                }
                continue;
            }
            c.r.count("grid_valid_param_pairs", 1);
            let l = soln_len(n, k, cap);
            // wrong lengths
            let mut wrong: Vec<usize> = vec![0, 1, 2, 3, rng.gen_range(4..3000)];
            if let Some(l) = l {
                wrong.push(l + 1);
                if l > 0 {
                    wrong.push(l - 1);
                }
                wrong.push(l * 2);
                wrong.push(l / 2);
            }
            for len in wrong {
                if Some(len) == l || len as u64 > cap {
                    continue;
                }
                let s = vec![0xa5u8; len];
                let v = c.call(n, k, &input, &nonce, &s);
                c.r.case(&("grid-wrong-length", in_envelope(n, k), v.tag()), false);
                c.r.count("grid_calls_wrong_length", 1);
                if v == Verdict::Ok {
                    c.r.violation(
                        "C19:is_valid_solution:accepted-wrong-length",
                        format!("n={n}, k={k}: a {len}-byte string was accepted, the encoding is {l:?} bytes"),
                        json!({"n": n, "k": k, "len": len}),
                    );
                }
            }
            // the right length
            let Some(l) = l else {
                c.r.count("grid_pairs_encoding_too_long_to_supply", 1);
                continue;
            };
            c.r.count("grid_pairs_right_length_supplied", 1);
            c.r.set_max("max_grid_soln_bytes", l as u64);
            let w = cbl(n, k) + 1;
            let inst = c.new_instance(n, k, &input, &nonce);
            let small = l <= 4096;
            let mut kinds: Vec<(&str, u64, u64)> = vec![("zeros", 0, 0)];
            if !heavy || in_envelope(n, k) || n > 512 {
                kinds.push(("seq", 0, 0));
            }
            if !heavy {
                kinds.push(("ones", 0, 0));
                kinds.push(("affine", rng.r#gen::<u64>() | 1, rng.r#gen()));
            }
            for (kind, a, b) in kinds {
                if w > 32 {
                    break;
                }
                let enc = if kind == "zeros" {
                    vec![0u8; l]
                } else {
                    let idx: Vec<u32> = (0..1u64 << k).map(|j| gen_index(kind, j, w, a, b)).collect();
                    encode_minimal(n, k, &idx)
                };
                assert_eq!(enc.len(), l);
                let v = c.call(n, k, &input, &nonce, &enc);
                c.r.case(&("grid-right-length", n, k, kind, v.tag()), true);
                c.r.count("grid_calls_right_length", 1);
                if !matches!(v, Verdict::Panic(_)) {
                    c.r.event(&json!({"t": "g", "inst": inst, "kind": kind, "a": a.to_string(), "b": b.to_string(), "rust": v.tag(),
                        "soln": if small { Value::String(hexs(&enc)) } else { Value::Null }}));
                }
            }
            // raw random bytes of the right length (covers index widths beyond 32 bits too)
            if l <= (1 << 16) {
                for _ in 0..if small { 3 } else { 1 } {
                    let mut s = vec![0u8; l];
                    rng.fill_bytes(&mut s);
                    let v = c.call(n, k, &input, &nonce, &s);
                    c.r.case(&("grid-right-length", n, k, "random", v.tag()), true);
                    c.r.count("grid_calls_right_length", 1);
                    if !matches!(v, Verdict::Panic(_)) {
                        c.r.event(&json!({"t": "g", "inst": inst, "kind": "raw", "rust": v.tag(), "soln": hexs(&s)}));
                    }
                }
            } else if w > 32 {
                let s = vec![0u8; l];
                let v = c.call(n, k, &input, &nonce, &s);
                c.r.case(&("grid-right-length", n, k, "zeros-wide", v.tag()), true);
                c.r.count("grid_calls_right_length", 1);
                if !matches!(v, Verdict::Panic(_)) {
                    c.r.event(&json!({"t": "g", "inst": inst, "kind": "zeros", "a": "0", "b": "0", "rust": v.tag(), "soln": Value::Null}));
                }
            }
        }
    }
    c.r.set_max("max_grid_phase_ms", c.r.elapsed().as_millis() as u64);
    if !complete {
        c.r.inconclusive("grid-not-completed-within-budget");
    } else {
        c.r.count("grid_shards_completed", 1);
    }
}

fn main() {
    vh_common::install_panic_hook();
    let args = Args::parse();
    let mut c = Ctx {
        r: Reporter::new("C19", &args),
        inst_id: args.shard * 1_000_000,
    };
    let mut rng = vh_common::rng(args.shard_seed(), 19);
    let flip_cap = args.get_u64("flip-cap", args.pick(1200, 12_000)) as usize;

    phase_grid(&mut c, &mut rng, &args);
    phase_vectors(&mut c, &mut rng, &args, flip_cap);
    phase_random_strings(&mut c, &mut rng);
    let hunt = args.get_u64("hunt-instances", args.pick(3000, 60_000));
    hunt_embedded_duplicates(&mut c, &mut rng, hunt);

    // the heavy boundary set (index width 25 = the largest the crate supports; 2^25 list entries):
    // the first `heavy-shards` shards solve one such instance each
    if args.shard < args.get_u64("heavy-shards", 0) {
        let mut tries = 0;
        while c.r.counter("valid_n96_k3") == 0 && tries < 3 && c.r.time_left() {
            tries += 1;
            let it = random_instance(&mut rng, 96, 3);
            solved_instance::<u128>(&mut c, &mut rng, &it, flip_cap, false);
        }
    }
    // the only affordable set with n > 256 (one n-bit string per BLAKE2b output): 2^23 list entries, 11 rounds
    let h1 = args.get_u64("heavy-shards", 0);
    if args.shard >= h1 && args.shard < h1 + args.get_u64("heavy2-shards", 0) {
        let mut tries = 0;
        while c.r.counter("valid_n264_k11") == 0 && tries < 2 && c.r.time_left() {
            tries += 1;
            let it = random_instance(&mut rng, 264, 11);
            solved_instance::<W512>(&mut c, &mut rng, &it, flip_cap, false);
        }
    }

    // solver-backed instances until the budget or the cap is reached: (n, k, weight).
    // Index widths 9..=21 bits (quick) / ..=23 (thorough) + 25 (heavy sets above); hash outputs holding
    // 16, 12, 10, 9, 7, 6, 5, 4, 3, 2 and 1 n-bit strings; parameter sets where 2^(2k-2) is not small
    // against the index space yield few duplicate-free solutions and are avoided.
    let mut sets: Vec<(u32, u32, u32)> = vec![
        (48, 5, 30),
        (32, 3, 4),
        (40, 4, 3),
        (56, 6, 3),
        (40, 3, 3),
        (88, 7, 2),
        (72, 5, 6),
        (48, 3, 2),
        (104, 7, 4),
        (56, 3, 2),
        (112, 7, 2),
        (120, 7, 2),
        (96, 5, 8),
        (128, 7, 2),
        (64, 3, 2),
        (160, 9, 1),
        (144, 8, 1),
        (80, 4, 2),
        (112, 6, 1),
        (136, 7, 2),
        (72, 3, 1),
        (144, 7, 1),
    ];
    if args.tier == vh_common::Tier::Thorough {
        sets.extend([(152, 7, 1), (80, 3, 1), (120, 5, 1), (160, 7, 1), (200, 9, 1), (88, 3, 1), (168, 7, 1)]);
    }
    // debugging aid: --only-n N --only-k K restricts the solver phase to one parameter set
    if let (Some(n), Some(k)) = (args.extra.get("only-n"), args.extra.get("only-k")) {
        sets = vec![(n.parse().expect("only-n"), k.parse().expect("only-k"), 1)];
    }
    let total_w: u32 = sets.iter().map(|s| s.2).sum();
    let max_inst = args.get_u64("max-instances", args.pick(100_000, 10_000_000));
    let mut i = 0u64;
    while i < max_inst && c.r.time_left() {
        i += 1;
        let mut pick = rng.gen_range(0..total_w);
        let mut sel = sets[0];
        for s in &sets {
            if pick < s.2 {
                sel = *s;
                break;
            }
            pick -= s.2;
        }
        let it = random_instance(&mut rng, sel.0, sel.1);
        if sel.0 <= 128 {
            solved_instance::<u128>(&mut c, &mut rng, &it, flip_cap, true);
        } else if sel.0 <= 256 {
            solved_instance::<W256>(&mut c, &mut rng, &it, flip_cap, true);
        } else {
            solved_instance::<W512>(&mut c, &mut rng, &it, flip_cap, true);
        }
    }
    c.r.finish();
}
