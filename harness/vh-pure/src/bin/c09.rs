//! C09 — monetary amounts never leave the valid range or wrap.
//!
//! Oracle: exact integer arithmetic in i128. Every public constructor, parser
//! and operator of `Zatoshis` / `ZatBalance` is called on (a) the full boundary
//! lattice L × L (exhaustive) and (b) random values; the result must be
//! `Ok/Some(v)` with `v` equal to the exact result and in range, or
//! `Err/None` exactly when the exact result is out of range; no panic except
//! the documented `const_from_*` ones, which must panic exactly out of range.

use std::num::NonZeroU64;

use vh_common::rand::Rng;
use vh_common::{guard, json, panic_class, Args, Reporter};
use zcash_protocol::value::{BalanceError, ZatBalance, Zatoshis, MAX_BALANCE, MAX_MONEY};

const M: i128 = MAX_MONEY as i128;

fn in_u(x: i128) -> bool {
    (0..=M).contains(&x)
}
fn in_s(x: i128) -> bool {
    (-M..=M).contains(&x)
}

fn lattice() -> Vec<i128> {
    let mut v: Vec<i128> = vec![];
    let m = M;
    for b in [0i128, 1, 2, m - 2, m - 1, m, m + 1, m + 2, m / 2, m / 2 + 1] {
        v.push(b);
        v.push(-b);
    }
    for b in [
        i64::MAX as i128,
        i64::MIN as i128,
        i64::MAX as i128 - 1,
        i64::MIN as i128 + 1,
        u64::MAX as i128,
        u64::MAX as i128 - 1,
        (i64::MAX as i128) + 1,
    ] {
        v.push(b);
    }
    for k in [31u32, 32, 53, 62] {
        for d in [-1i128, 0, 1] {
            v.push((1i128 << k) + d);
            v.push(-((1i128 << k) + d));
        }
    }
    // 2*M and neighbours: the sum of two maximal amounts.
    for d in [-1i128, 0, 1] {
        v.push(2 * m + d);
        v.push(-(2 * m + d));
    }
    v.sort();
    v.dedup();
    v
}

struct Ctx {
    r: Reporter,
}

impl Ctx {
    fn viol(&mut self, op: &str, detail: String, inputs: serde_json::Value) {
        self.r.violation(
            &format!("C09:{op}"),
            detail,
            json!({"op": op, "inputs": inputs}),
        );
    }

    /// `got`: Ok(Some(v)) = value, Ok(None) = signalled failure, Err = panic.
    fn expect(
        &mut self,
        op: &str,
        got: Result<Option<i128>, String>,
        exact: i128,
        in_range: bool,
        inputs: serde_json::Value,
    ) {
        self.r.evals(1);
        match got {
            Err(p) => self.viol(
                &format!("{op}:panic:{}", panic_class(&p)),
                format!("panicked: {p}"),
                inputs,
            ),
            Ok(Some(v)) => {
                if !in_range {
                    self.viol(
                        &format!("{op}:accepted-out-of-range"),
                        format!("returned {v}, exact result {exact} is out of range"),
                        inputs,
                    );
                } else if v != exact {
                    self.viol(
                        &format!("{op}:wrong-value"),
                        format!("returned {v}, exact result is {exact}"),
                        inputs,
                    );
                }
            }
            Ok(None) => {
                if in_range {
                    self.viol(
                        &format!("{op}:refused-in-range"),
                        format!("signalled failure, exact result {exact} is in range"),
                        inputs,
                    );
                }
            }
        }
    }
}

fn zb(v: ZatBalance) -> i128 {
    i64::from(v) as i128
}
fn zu(v: Zatoshis) -> i128 {
    v.into_u64() as i128
}

/// Unary constructors / parsers over any integer that fits the argument type.
fn unary(c: &mut Ctx, x: i128) {
    let inp = json!({"x": x.to_string()});
    if let Ok(i) = i64::try_from(x) {
        let g = guard(|| ZatBalance::from_i64(i).ok().map(zb));
        c.expect("ZatBalance::from_i64", g, x, in_s(x), inp.clone());
        // error kind must point in the right direction
        if let Ok(Err(e)) = guard(|| ZatBalance::from_i64(i)) {
            let want = if x < -M {
                BalanceError::Underflow
            } else {
                BalanceError::Overflow
            };
            if e != want {
                c.viol(
                    "ZatBalance::from_i64:error-kind",
                    format!("{e:?} for {x}"),
                    inp.clone(),
                );
            }
        }
        let g = guard(|| ZatBalance::try_from(i).ok().map(zb));
        c.expect("ZatBalance::try_from<i64>", g, x, in_s(x), inp.clone());
        let g = guard(|| ZatBalance::from_nonnegative_i64(i).ok().map(zb));
        c.expect("ZatBalance::from_nonnegative_i64", g, x, in_u(x), inp.clone());
        let g = guard(|| ZatBalance::from_i64_le_bytes(i.to_le_bytes()).ok().map(zb));
        c.expect("ZatBalance::from_i64_le_bytes", g, x, in_s(x), inp.clone());
        let g = guard(|| {
            ZatBalance::from_nonnegative_i64_le_bytes(i.to_le_bytes())
                .ok()
                .map(zb)
        });
        c.expect(
            "ZatBalance::from_nonnegative_i64_le_bytes",
            g,
            x,
            in_u(x),
            inp.clone(),
        );
        let g = guard(|| Zatoshis::from_nonnegative_i64(i).ok().map(zu));
        c.expect("Zatoshis::from_nonnegative_i64", g, x, in_u(x), inp.clone());
        let g = guard(|| {
            Zatoshis::from_nonnegative_i64_le_bytes(i.to_le_bytes())
                .ok()
                .map(zu)
        });
        c.expect(
            "Zatoshis::from_nonnegative_i64_le_bytes",
            g,
            x,
            in_u(x),
            inp.clone(),
        );
        // documented-panic constructors: must panic exactly out of range
        let g = guard(|| zb(ZatBalance::const_from_i64(i)));
        c.r.evals(1);
        match (g, in_s(x)) {
            (Ok(v), true) if v == x => {}
            (Err(_), false) => {}
            (g, _) => c.viol(
                "ZatBalance::const_from_i64:contract",
                format!("{g:?} for {x}"),
                inp.clone(),
            ),
        }
    }
    if let Ok(u) = u64::try_from(x) {
        let g = guard(|| ZatBalance::from_u64(u).ok().map(zb));
        c.expect("ZatBalance::from_u64", g, x, in_u(x), inp.clone());
        let g = guard(|| ZatBalance::from_u64_le_bytes(u.to_le_bytes()).ok().map(zb));
        c.expect("ZatBalance::from_u64_le_bytes", g, x, in_u(x), inp.clone());
        let g = guard(|| Zatoshis::from_u64(u).ok().map(zu));
        c.expect("Zatoshis::from_u64", g, x, in_u(x), inp.clone());
        let g = guard(|| Zatoshis::try_from(u).ok().map(zu));
        c.expect("Zatoshis::try_from<u64>", g, x, in_u(x), inp.clone());
        let g = guard(|| Zatoshis::from_u64_le_bytes(u.to_le_bytes()).ok().map(zu));
        c.expect("Zatoshis::from_u64_le_bytes", g, x, in_u(x), inp.clone());
        let g = guard(|| Zatoshis::read(&u.to_le_bytes()[..]).ok().map(zu));
        c.expect("Zatoshis::read", g, x, in_u(x), inp.clone());
        // short reads must be errors, never panics or values
        for cut in 0..8 {
            let b = u.to_le_bytes();
            let g = guard(|| Zatoshis::read(&b[..cut]).ok().map(zu));
            c.r.evals(1);
            if !matches!(g, Ok(None)) {
                c.viol(
                    "Zatoshis::read:short",
                    format!("{g:?} on {cut}-byte input"),
                    inp.clone(),
                );
            }
        }
        for (name, g) in [
            (
                "ZatBalance::const_from_u64:contract",
                guard(|| zb(ZatBalance::const_from_u64(u))),
            ),
            (
                "Zatoshis::const_from_u64:contract",
                guard(|| zu(Zatoshis::const_from_u64(u))),
            ),
        ] {
            c.r.evals(1);
            match (g, in_u(x)) {
                (Ok(v), true) if v == x => {}
                (Err(_), false) => {}
                (g, _) => c.viol(name, format!("{g:?} for {x}"), inp.clone()),
            }
        }
    }
}

/// Encodings and conversions of a valid value.
fn roundtrip(c: &mut Ctx, x: i128) {
    let inp = json!({"x": x.to_string()});
    if in_s(x) {
        let v = ZatBalance::from_i64(x as i64).unwrap();
        let b = v.to_i64_le_bytes();
        c.r.evals(3);
        if b != (x as i64).to_le_bytes() || ZatBalance::from_i64_le_bytes(b) != Ok(v) {
            c.viol("ZatBalance::le_bytes:roundtrip", format!("{x}"), inp.clone());
        }
        if v.is_positive() != (x > 0) || v.is_negative() != (x < 0) {
            c.viol("ZatBalance::sign", format!("{x}"), inp.clone());
        }
        let g = guard(|| zb(-v));
        if g != Ok(-x) {
            c.viol("ZatBalance::neg", format!("{g:?} for {x}"), inp.clone());
        }
        let g = guard(|| u64::try_from(v).ok().map(|u| u as i128));
        c.expect("u64::try_from<ZatBalance>", g, x, x >= 0, inp.clone());
        let g = guard(|| Zatoshis::try_from(v).ok().map(zu));
        c.expect("Zatoshis::try_from<ZatBalance>", g, x, x >= 0, inp.clone());
    }
    if in_u(x) {
        let v = Zatoshis::from_u64(x as u64).unwrap();
        c.r.evals(5);
        let ub = v.to_u64_le_bytes();
        let ib = v.to_i64_le_bytes();
        if ub != (x as u64).to_le_bytes()
            || ib != (x as i64).to_le_bytes()
            || Zatoshis::from_u64_le_bytes(ub) != Ok(v)
            || Zatoshis::from_nonnegative_i64_le_bytes(ib) != Ok(v)
        {
            c.viol("Zatoshis::le_bytes:roundtrip", format!("{x}"), inp.clone());
        }
        let mut w = vec![];
        v.write(&mut w).unwrap();
        if w != ub || Zatoshis::read(&w[..]).ok() != Some(v) {
            c.viol("Zatoshis::write-read", format!("{x}"), inp.clone());
        }
        if zb(ZatBalance::from(v)) != x || u64::from(v) as i128 != x || v.into_u64() as i128 != x
        {
            c.viol("Zatoshis::conversions", format!("{x}"), inp.clone());
        }
        if v.is_zero() != (x == 0) || v.is_positive() != (x > 0) {
            c.viol("Zatoshis::sign", format!("{x}"), inp.clone());
        }
        let g = guard(|| zb(-v));
        if g != Ok(-x) {
            c.viol("Zatoshis::neg", format!("{g:?} for {x}"), inp.clone());
        }
    }
}

/// Binary operators on two valid values (x, y need only be valid for the
/// operand types they are used with).
fn binary(c: &mut Ctx, x: i128, y: i128) {
    let inp = json!({"x": x.to_string(), "y": y.to_string()});
    if in_s(x) && in_s(y) {
        let (a, b) = (
            ZatBalance::from_i64(x as i64).unwrap(),
            ZatBalance::from_i64(y as i64).unwrap(),
        );
        c.expect("ZatBalance+ZatBalance", guard(|| (a + b).map(zb)), x + y, in_s(x + y), inp.clone());
        c.expect("ZatBalance-ZatBalance", guard(|| (a - b).map(zb)), x - y, in_s(x - y), inp.clone());
        c.expect("Some(ZatBalance)+ZatBalance", guard(|| (Some(a) + b).map(zb)), x + y, in_s(x + y), inp.clone());
        c.expect("Some(ZatBalance)-ZatBalance", guard(|| (Some(a) - b).map(zb)), x - y, in_s(x - y), inp.clone());
        c.r.evals(2);
        if guard(|| None::<ZatBalance> + b) != Ok(None) || guard(|| None::<ZatBalance> - b) != Ok(None) {
            c.viol("None<ZatBalance>±x", "None operand must stay None".into(), inp.clone());
        }
    }
    if in_s(x) && in_u(y) {
        let (a, b) = (
            ZatBalance::from_i64(x as i64).unwrap(),
            Zatoshis::from_u64(y as u64).unwrap(),
        );
        c.expect("ZatBalance+Zatoshis", guard(|| (a + b).map(zb)), x + y, in_s(x + y), inp.clone());
        c.expect("ZatBalance-Zatoshis", guard(|| (a - b).map(zb)), x - y, in_s(x - y), inp.clone());
        c.expect("Some(ZatBalance)+Zatoshis", guard(|| (Some(a) + b).map(zb)), x + y, in_s(x + y), inp.clone());
        c.expect("Some(ZatBalance)-Zatoshis", guard(|| (Some(a) - b).map(zb)), x - y, in_s(x - y), inp.clone());
    }
    if in_u(x) && in_u(y) {
        let (a, b) = (
            Zatoshis::from_u64(x as u64).unwrap(),
            Zatoshis::from_u64(y as u64).unwrap(),
        );
        c.expect("Zatoshis+Zatoshis", guard(|| (a + b).map(zu)), x + y, in_u(x + y), inp.clone());
        c.expect("Zatoshis-Zatoshis", guard(|| (a - b).map(zu)), x - y, in_u(x - y), inp.clone());
        c.expect("Some(Zatoshis)+Zatoshis", guard(|| (Some(a) + b).map(zu)), x + y, in_u(x + y), inp.clone());
        c.expect("Some(Zatoshis)-Zatoshis", guard(|| (Some(a) - b).map(zu)), x - y, in_u(x - y), inp.clone());
        c.r.evals(2);
        if guard(|| None::<Zatoshis> + b) != Ok(None) || guard(|| None::<Zatoshis> - b) != Ok(None) {
            c.viol("None<Zatoshis>±x", "None operand must stay None".into(), inp.clone());
        }
    }
}

/// Multiplication / division: value × arbitrary machine integer.
fn muldiv(c: &mut Ctx, x: i128, k: i128) {
    let inp = json!({"x": x.to_string(), "k": k.to_string()});
    if in_u(x) {
        let a = Zatoshis::from_u64(x as u64).unwrap();
        if let Ok(ku) = u64::try_from(k) {
            c.expect("Zatoshis*u64", guard(|| (a * ku).map(zu)), x * k, in_u(x * k), inp.clone());
            let ks = ku as usize; // 64-bit target: lossless
            c.expect("Zatoshis*usize", guard(|| (a * ks).map(zu)), x * k, in_u(x * k), inp.clone());
            if let Some(d) = NonZeroU64::new(ku) {
                c.expect("Zatoshis/NonZeroU64", guard(|| Some(zu(a / d))), x / k, true, inp.clone());
                let g = guard(|| {
                    let qr = a.div_with_remainder(d);
                    (zu(*qr.quotient()), zu(*qr.remainder()))
                });
                c.r.evals(1);
                match g {
                    Ok((q, r)) if q == x / k && r == x % k && q * k + r == x => {}
                    other => c.viol("Zatoshis::div_with_remainder", format!("{other:?}"), inp.clone()),
                }
            }
        }
    }
    if in_s(x) {
        let a = ZatBalance::from_i64(x as i64).unwrap();
        if let Ok(ku) = u64::try_from(k) {
            let ks = ku as usize;
            c.expect("ZatBalance*usize", guard(|| (a * ks).map(zb)), x * k, in_s(x * k), inp.clone());
        }
    }
}

fn sums(c: &mut Ctx, xs: &[i128]) {
    let inp = json!({"xs": xs.iter().map(|x| x.to_string()).collect::<Vec<_>>()});
    // Sum is a left fold that fails as soon as a prefix leaves the range.
    let fold = |rng: fn(i128) -> bool| -> Option<i128> {
        let mut acc = 0i128;
        for x in xs {
            acc += x;
            if !rng(acc) {
                return None;
            }
        }
        Some(acc)
    };
    if xs.iter().all(|x| in_s(*x)) {
        let vs: Vec<ZatBalance> = xs.iter().map(|x| ZatBalance::from_i64(*x as i64).unwrap()).collect();
        let want = fold(in_s);
        let total: i128 = xs.iter().sum();
        c.r.evals(3);
        for (name, g) in [
            ("ZatBalance::sum", guard(|| ZatBalance::sum(vs.iter().copied()).map(zb))),
            ("Sum<ZatBalance>", guard(|| vs.iter().copied().sum::<Option<ZatBalance>>().map(zb))),
            ("Sum<&ZatBalance>", guard(|| vs.iter().sum::<Option<ZatBalance>>().map(zb))),
        ] {
            match g {
                // A successful sum must be the exact total and in range; a prefix
                // that leaves the range may legitimately fail the whole sum.
                Ok(Some(v)) if v == total && in_s(total) => {}
                Ok(None) if want.is_none() => {}
                other => c.viol(name, format!("{other:?}, exact total {total}, prefix-fold {want:?}"), inp.clone()),
            }
        }
    }
    if xs.iter().all(|x| in_u(*x)) {
        let vs: Vec<Zatoshis> = xs.iter().map(|x| Zatoshis::from_u64(*x as u64).unwrap()).collect();
        let want = fold(in_u);
        let total: i128 = xs.iter().sum();
        c.r.evals(2);
        for (name, g) in [
            ("Sum<Zatoshis>", guard(|| vs.iter().copied().sum::<Option<Zatoshis>>().map(zu))),
            ("Sum<&Zatoshis>", guard(|| vs.iter().sum::<Option<Zatoshis>>().map(zu))),
        ] {
            match g {
                Ok(Some(v)) if v == total && in_u(total) => {}
                Ok(None) if want.is_none() => {}
                other => c.viol(name, format!("{other:?}, exact total {total}, prefix-fold {want:?}"), inp.clone()),
            }
        }
    }
}

/// Long sums: the exact total of thousands of large amounts exceeds 2^64 (8785 x MAX_MONEY is the
/// first multiple that does), so an implementation that accumulates in a machine word before checking
/// the range wraps or overflows where the checked fold must answer `None`.
fn long_sums(c: &mut Ctx, n: usize, v: i128, jitter: i128) {
    let xs: Vec<i128> = (0..n).map(|i| (v - (i as i128 % (jitter + 1))).max(0)).collect();
    let inp = json!({"n": n, "each": v.to_string(), "jitter": jitter.to_string()});
    let total: i128 = xs.iter().sum();
    let prefix_ok = {
        let mut acc = 0i128;
        xs.iter().all(|x| {
            acc += x;
            in_u(acc)
        })
    };
    let vs: Vec<Zatoshis> = xs.iter().map(|x| Zatoshis::from_u64(*x as u64).unwrap()).collect();
    let bs: Vec<ZatBalance> = xs.iter().map(|x| ZatBalance::from_i64(*x as i64).unwrap()).collect();
    c.r.evals(5);
    c.r.count("long_sums", 1);
    if total >= 1i128 << 64 {
        c.r.count("long_sums_with_exact_total_beyond_u64", 1);
    }
    for (name, g) in [
        ("Sum<Zatoshis>:long", guard(|| vs.iter().copied().sum::<Option<Zatoshis>>().map(zu))),
        ("Sum<&Zatoshis>:long", guard(|| vs.iter().sum::<Option<Zatoshis>>().map(zu))),
        ("ZatBalance::sum:long", guard(|| ZatBalance::sum(bs.iter().copied()).map(zb))),
        ("Sum<ZatBalance>:long", guard(|| bs.iter().copied().sum::<Option<ZatBalance>>().map(zb))),
        ("Sum<&ZatBalance>:long", guard(|| bs.iter().sum::<Option<ZatBalance>>().map(zb))),
    ] {
        match g {
            Ok(Some(t)) if t == total && in_u(total) => {}
            Ok(None) if !prefix_ok => {}
            other => c.viol(name, format!("{other:?}, exact total {total}, every prefix in range: {prefix_ok}"), inp.clone()),
        }
    }
}

fn main() {
    vh_common::install_panic_hook();
    let args = Args::parse();
    let mut c = Ctx {
        r: Reporter::new("C09", &args),
    };
    {
        let m = M;
        let mut rng = vh_common::rng(args.shard_seed(), 909);
        for (n, v, j) in [(8784usize, m, 0i128), (8785, m, 0), (8786, m, 0), (9000, m, 0), (20_000, m, 3), (8785 * 2, m / 2 + 1, 0), (17_570, m / 2, 1), (300, 7, 2), (5000, 1_000_000, 0)] {
            long_sums(&mut c, n, v, j);
        }
        for _ in 0..6 {
            let n = rng.gen_range(8_000..30_000);
            let v = m - rng.gen_range(0..1_000_000);
            long_sums(&mut c, n, v, rng.gen_range(0..5));
        }
    }
    let l = lattice();
    let _ = MAX_BALANCE;

    // (a) exhaustive over the lattice (shard 0 only does the whole lattice: it is small)
    if args.shard == 0 {
        for &x in &l {
            unary(&mut c, x);
            roundtrip(&mut c, x);
            c.r.sig(&("unary", x));
        }
        let mut pairs = 0u64;
        for &x in &l {
            for &y in &l {
                binary(&mut c, x, y);
                muldiv(&mut c, x, y);
                pairs += 1;
                if in_s(x) && in_s(y) {
                    c.r.sig(&("pair", x, y));
                }
            }
        }
        for &x in &l {
            for &y in &l {
                for &z in &[0i128, 1, -1, M, -M, M - 1] {
                    sums(&mut c, &[x, y, z]);
                    sums(&mut c, &[z, x, y]);
                }
            }
        }
        c.r.count("lattice_points", l.len() as u64);
        c.r.count("lattice_pairs", pairs);
        c.r.set_exhaustive(true);
        c.r.sample("lattice", json!({"L": l.iter().map(|x| x.to_string()).collect::<Vec<_>>()}));
    }

    // (b) random elsewhere
    let mut rng = vh_common::rng(args.shard_seed(), 9);
    let n = args.pick(300_000u64, 20_000_000u64);
    let mut i = 0u64;
    while i < n && c.r.time_left() {
        i += 1;
        let pick = |rng: &mut vh_common::rand_chacha::ChaCha20Rng| -> i128 {
            match rng.gen_range(0..6) {
                0 => rng.gen_range(-M..=M),
                1 => rng.gen_range(0..=M),
                2 => rng.r#gen::<i64>() as i128,
                3 => rng.r#gen::<u64>() as i128,
                4 => l[rng.gen_range(0..l.len())] + rng.gen_range(-3..=3),
                _ => rng.gen_range(-100_000..100_000i128),
            }
        };
        let (x, y) = (pick(&mut rng), pick(&mut rng));
        unary(&mut c, x);
        roundtrip(&mut c, x);
        binary(&mut c, x, y);
        muldiv(&mut c, x, y);
        let k = rng.gen_range(0..6);
        let xs: Vec<i128> = (0..k).map(|_| pick(&mut rng)).collect();
        sums(&mut c, &xs);
        // distinctness bucket: signs, range class and magnitude bucket of both operands
        let cls = |v: i128| (v.signum(), in_u(v), in_s(v), (v.unsigned_abs().max(1)).ilog2() / 4);
        c.r.sig(&("rand", cls(x), cls(y), k));
        if i == 1 {
            c.r.sample("random", json!({"x": x.to_string(), "y": y.to_string(), "sum_list": xs.iter().map(|v| v.to_string()).collect::<Vec<_>>()}));
        }
    }
    c.r.count("random_tuples", i);
    c.r.finish();
}
