//! C16 — pool-migration denomination plans are canonical and conserve value.
//!
//! The oracle is an independent model of the ZIP 318 greedy split, written from the strategy's doc
//! comment in u128 arithmetic: "at each step take the largest {1,2,5}*10^k denomination (0.01 ZEC ..
//! 10,000 ZEC) the remaining budget can fund, reserving one preparation fee per 14 prepared notes
//! as the split grows; except that a balance of exactly one denomination plus its buffer held as a
//! single note is that denomination with no fee reserve". For the fee-free case a second,
//! structurally different oracle (decimal-digit {5,2,1} expansion) is compared as well.
//!
//! `plan_denominations` / `CanonicalOneTwoFive::plan` are driven with honest and hostile
//! preparation-cost oracles; `engine::plan_migration*` with `MockBackend` wallets.

use std::cell::RefCell;
use std::num::NonZeroUsize;

use vh_common::rand::{Rng, RngCore};
use vh_common::rand_chacha::ChaCha20Rng;
use vh_common::{guard, json, panic_class, Args, Reporter, Value};

use zcash_pool_migration::denomination::{
    plan_denominations, CanonicalOneTwoFive, DenominationPlan, DenominationStrategy,
};
use zcash_pool_migration::engine::{plan_migration, plan_migration_with, MigrationError};
use zcash_pool_migration::preparation::{default_portfolio, plan_preparation};
use zcash_pool_migration::testing::{generate_notes, WalletShape};
use zcash_pool_migration_memory::{regtest_network, MockBackend};
use zcash_protocol::value::Zatoshis;

// ---------------------------------------------------------------------------------------------
// Independent model (specification constants restated here on purpose, not imported)
// ---------------------------------------------------------------------------------------------

const COIN: u128 = 100_000_000;
const MAX_MONEY: u128 = 21_000_000 * COIN;
/// 0.01 ZEC: the smallest denomination.
const MIN_DENOM: u128 = COIN / 100;
/// 10,000 ZEC: the largest denomination.
const MAX_DENOM: u128 = 10_000 * COIN;
/// Prepared notes per (optimistically assumed) preparation transaction: a 16-action transaction
/// less one input and one change output.
const PER_TX: u128 = 14;
/// ZIP 317: 5000 zat per logical action (all canonical shapes exceed the grace allowance).
const ZIP317_MARGINAL: u128 = 5_000;
/// The engine's canonical fees: a 16-action preparation transaction and a 2+1-action crossing.
const ENGINE_PREP_FEE: u128 = 16 * ZIP317_MARGINAL;
const ENGINE_BUFFER: u128 = 3 * ZIP317_MARGINAL;

/// All canonical denominations, ascending: {1,2,5} * 10^k zatoshi within [0.01, 10 000] ZEC.
fn denoms() -> Vec<u128> {
    let mut v = vec![];
    let mut p = 1u128;
    while p <= MAX_DENOM {
        for m in [1u128, 2, 5] {
            let d = m * p;
            if (MIN_DENOM..=MAX_DENOM).contains(&d) {
                v.push(d);
            }
        }
        p *= 10;
    }
    v.sort();
    v
}

/// The whole {1,2,5}*10^k series up to MAX_MONEY, including the members below 0.01 ZEC and above
/// 10,000 ZEC that are NOT canonical denominations (boundaries of the range clause).
fn extended_series() -> Vec<u128> {
    let mut v = vec![];
    let mut p = 1u128;
    while p <= MAX_MONEY {
        for m in [1u128, 2, 5] {
            if m * p <= MAX_MONEY {
                v.push(m * p);
            }
        }
        p *= 10;
    }
    v.sort();
    v
}

fn is_canon(v: u128) -> bool {
    if !(MIN_DENOM..=MAX_DENOM).contains(&v) {
        return false;
    }
    let mut n = v;
    while n % 10 == 0 {
        n /= 10;
    }
    n == 1 || n == 2 || n == 5
}

fn ceil_div(a: u128, b: u128) -> u128 {
    a.div_ceil(b)
}

/// The canonical split fixed by the balance and by whether a single note holds it.
fn model_split(ds: &[u128], total: u128, single: bool, cap: usize, buffer: u128, fee: u128) -> Vec<u128> {
    if single && cap > 0 && total >= buffer && is_canon(total - buffer) {
        return vec![total - buffer];
    }
    let mut out: Vec<u128> = vec![];
    let mut notes = 0u128; // sum of (crossing + buffer) chosen so far
    while out.len() < cap {
        let k = out.len() as u128 + 1;
        let fees = ceil_div(k, PER_TX) * fee;
        // largest denomination the remaining budget can fund together with its buffer and the
        // fee reserve the grown split needs
        let pick = ds.iter().rev().copied().find(|d| notes + d + buffer + fees <= total);
        match pick {
            Some(d) => {
                notes += d + buffer;
                out.push(d);
            }
            None => break,
        }
    }
    out
}

/// Fee-free decimal-digit expansion (ZIP 318 worked examples): whole 10,000 ZEC parts first, then
/// each decimal digit of the remainder expands into {5,2,1} times its place value.
fn digit_expansion(total: u128, cap: usize) -> Vec<u128> {
    let mut out = vec![];
    let units = total / MIN_DENOM; // in 0.01 ZEC
    let cap_units = MAX_DENOM / MIN_DENOM; // 10^6
    for _ in 0..(units / cap_units) {
        if out.len() >= cap {
            return out;
        }
        out.push(MAX_DENOM);
    }
    let rest = units % cap_units;
    let mut place = cap_units / 10;
    while place >= 1 {
        let digit = (rest / place) % 10;
        let parts: &[u128] = match digit {
            0 => &[],
            1 => &[1],
            2 => &[2],
            3 => &[2, 1],
            4 => &[2, 2],
            5 => &[5],
            6 => &[5, 1],
            7 => &[5, 2],
            8 => &[5, 2, 1],
            _ => &[5, 2, 2],
        };
        for p in parts {
            if out.len() >= cap {
                return out;
            }
            out.push(p * place * MIN_DENOM);
        }
        place /= 10;
    }
    out
}

// ---------------------------------------------------------------------------------------------
// Preparation-cost oracles
// ---------------------------------------------------------------------------------------------

#[derive(Clone, Debug)]
enum Kind {
    /// Costs exactly what the planner assumed: nothing for a single note that funds its crossing
    /// directly, else one transaction per 14 prepared notes.
    Assumed,
    /// The repository's count-only stub: ceil(n/14), also for the exact single note.
    CountStub,
    AlwaysNone,
    /// `None` until at most k parts remain, then the count stub.
    NoneUntil(usize),
    /// Over-charging by a factor.
    Over(usize),
    /// A fresh pseudo-random answer on every call (inconsistent between calls).
    Inconsistent(u64),
    UsizeMax,
    /// A fixed absurd count.
    Absurd(usize),
    /// The smallest count whose exact product with the fee exceeds u64::MAX (wraps to < fee).
    WrapTarget,
    Zero,
    /// The real preparation planner over a concrete wallet.
    Real(Vec<Zatoshis>),
    /// Non-monotone: cheaper for longer lists.
    NonMonotone,
}

impl Kind {
    fn idx(&self) -> u8 {
        match self {
            Kind::Assumed => 0,
            Kind::CountStub => 1,
            Kind::AlwaysNone => 2,
            Kind::NoneUntil(_) => 3,
            Kind::Over(_) => 4,
            Kind::Inconsistent(_) => 5,
            Kind::UsizeMax => 6,
            Kind::Absurd(_) => 7,
            Kind::WrapTarget => 8,
            Kind::Zero => 9,
            Kind::Real(_) => 10,
            Kind::NonMonotone => 11,
        }
    }
    fn name(&self) -> String {
        match self {
            Kind::Real(a) => format!("Real({} notes)", a.len()),
            k => format!("{k:?}"),
        }
    }
}

struct Call {
    args: Vec<u64>,
    answer: Option<usize>,
}

struct Oracle<'a> {
    kind: &'a Kind,
    single_exact: bool,
    fee: u64,
    calls: RefCell<Vec<Call>>,
    state: RefCell<u64>,
}

impl Oracle<'_> {
    fn answer(&self, notes: &[Zatoshis]) -> Option<usize> {
        let n = notes.len();
        let stub = n.div_ceil(PER_TX as usize);
        let a = match self.kind {
            Kind::Assumed => {
                if self.single_exact && n == 1 {
                    Some(0)
                } else {
                    Some(stub)
                }
            }
            Kind::CountStub => Some(stub),
            Kind::AlwaysNone => None,
            Kind::NoneUntil(k) => (n <= *k).then_some(stub),
            Kind::Over(m) => Some(stub * m),
            Kind::Inconsistent(_) => {
                let mut s = self.state.borrow_mut();
                // splitmix64
                *s = s.wrapping_add(0x9E3779B97F4A7C15);
                let mut z = *s;
                z = (z ^ (z >> 30)).wrapping_mul(0xBF58476D1CE4E5B9);
                z = (z ^ (z >> 27)).wrapping_mul(0x94D049BB133111EB);
                z ^= z >> 31;
                match z % 7 {
                    0 => None,
                    1 => Some(0),
                    2 => Some(stub),
                    3 => Some((z >> 8) as usize % 8),
                    4 => Some((z >> 8) as usize % 1000),
                    5 => Some(stub + 1),
                    _ => Some((z >> 8) as usize % 100_000),
                }
            }
            Kind::UsizeMax => Some(usize::MAX),
            Kind::Absurd(x) => Some(*x),
            Kind::WrapTarget => {
                if self.fee >= 2 {
                    Some(((1u128 << 64).div_ceil(self.fee as u128)) as usize)
                } else {
                    Some(usize::MAX)
                }
            }
            Kind::Zero => Some(0),
            Kind::Real(avail) => plan_preparation(avail, notes, Zatoshis::from_u64(self.fee).unwrap())
                .ok()
                .map(|p| p.transaction_count()),
            Kind::NonMonotone => Some(if n % 2 == 0 { 0 } else { 5 * n }),
        };
        self.calls.borrow_mut().push(Call {
            args: notes.iter().map(|z| z.into_u64()).collect(),
            answer: a,
        });
        a
    }
}

// ---------------------------------------------------------------------------------------------
// Adversarial "CryptoRng": the planner must ignore it
// ---------------------------------------------------------------------------------------------

struct ConstRng(u64);
impl RngCore for ConstRng {
    fn next_u32(&mut self) -> u32 {
        self.0 as u32
    }
    fn next_u64(&mut self) -> u64 {
        self.0
    }
    fn fill_bytes(&mut self, dest: &mut [u8]) {
        for b in dest {
            *b = self.0 as u8;
        }
    }
    fn try_fill_bytes(&mut self, dest: &mut [u8]) -> Result<(), vh_common::rand_core::Error> {
        self.fill_bytes(dest);
        Ok(())
    }
}
impl vh_common::rand_core::CryptoRng for ConstRng {}

// ---------------------------------------------------------------------------------------------

#[derive(Clone, Debug)]
struct Case {
    total: u64,
    count: usize,
    cap: usize,
    buffer: u64,
    fee: u64,
    kind: Kind,
    /// 0 = plan_denominations, 1 = CanonicalOneTwoFive::with_max_notes, 2 = ::new with the
    /// normative bounds, 3 = ::recommended (cap forced to 50)
    entry: u8,
}

impl Case {
    fn replay(&self, calls: &[Call]) -> Value {
        json!({
            "total_input_zat": self.total, "spendable_note_count": self.count, "max_notes": self.cap,
            "transfer_fee_buffer_zat": self.buffer, "prep_tx_fee_zat": self.fee,
            "oracle": self.kind.name(), "entry": self.entry,
            "wallet_notes": match &self.kind { Kind::Real(a) => json!(a.iter().map(|z| z.into_u64()).collect::<Vec<_>>()), _ => Value::Null },
            "oracle_calls": calls.iter().rev().take(4).map(|c| json!({"n_notes": c.args.len(), "answer": c.answer.map(|a| a.to_string())})).collect::<Vec<_>>(),
        })
    }
}

struct Ctx {
    r: Reporter,
    ds: Vec<u128>,
    n: u64,
}

fn z(v: u64) -> Zatoshis {
    Zatoshis::from_u64(v).expect("harness amounts are valid")
}

fn zu(v: Zatoshis) -> u128 {
    v.into_u64() as u128
}

fn call_plan(case: &Case, oracle: &Oracle, rng_sel: u8) -> Result<DenominationPlan, String> {
    let f = |n: &[Zatoshis]| oracle.answer(n);
    let cap = NonZeroUsize::new(case.cap).unwrap();
    macro_rules! go {
        ($rng:expr) => {{
            let rng = $rng;
            match case.entry {
                0 => plan_denominations(z(case.total), case.count, cap, z(case.buffer), z(case.fee), &f, rng),
                1 => CanonicalOneTwoFive::with_max_notes(cap, z(case.buffer)).plan(z(case.total), case.count, z(case.fee), &f, rng),
                2 => CanonicalOneTwoFive::new(case.cap, z(MAX_DENOM as u64), z(MIN_DENOM as u64), z(case.buffer))
                    .plan(z(case.total), case.count, z(case.fee), &f, rng),
                _ => CanonicalOneTwoFive::recommended(z(case.buffer)).plan(z(case.total), case.count, z(case.fee), &f, rng),
            }
        }};
    }
    guard(|| match rng_sel {
        0 => go!(&mut vh_common::rng(1, 16)),
        1 => go!(&mut vh_common::rng(0xdead_beef, 17)),
        2 => go!(&mut ConstRng(0)),
        _ => go!(&mut ConstRng(u64::MAX)),
    })
}

impl Ctx {
    fn viol(&mut self, class: &str, detail: String, case: &Case, calls: &[Call]) {
        self.r.violation(&format!("C16:{class}"), detail, case.replay(calls));
    }

    /// Runs one plan and checks every clause of the property on it. Returns (plan len, split len).
    fn check(&mut self, case: &Case, lattice: bool) {
        let total = case.total as u128;
        let buffer = case.buffer as u128;
        let fee = case.fee as u128;
        let cap = if case.entry == 3 { 50 } else { case.cap };
        let single = case.count == 1;
        let split = model_split(&self.ds, total, single, cap, buffer, fee);
        let single_exact = single && total >= buffer && is_canon(total - buffer);

        let mk = || Oracle {
            kind: &case.kind,
            single_exact,
            fee: case.fee,
            calls: RefCell::new(vec![]),
            state: RefCell::new(match case.kind {
                Kind::Inconsistent(s) => s,
                _ => 0,
            }),
        };
        let o1 = mk();
        let res = call_plan(case, &o1, 0);
        let calls = o1.calls.into_inner();

        // did the oracle ever answer a count whose exact product with the fee exceeds u64?
        let overflow_answer = calls
            .iter()
            .any(|c| c.answer.is_some_and(|n| (n as u128) * fee > u64::MAX as u128));
        if overflow_answer {
            self.r.count("oracle_answers_with_product_above_u64", 1);
        }

        let plan = match res {
            Err(p) => {
                self.r.evals(1);
                self.r.count("plan_panics", 1);
                let cls = panic_class(&p);
                self.viol(
                    &format!("plan:panic:{cls}"),
                    format!(
                        "plan panicked: {p}; total={} count={} cap={} buffer={} fee={} oracle={} last answers={:?}",
                        case.total, case.count, cap, case.buffer, case.fee, case.kind.name(),
                        calls.iter().rev().take(2).map(|c| c.answer).collect::<Vec<_>>()
                    ),
                    case,
                    &calls,
                );
                return;
            }
            Ok(p) => p,
        };

        let cv: Vec<u128> = plan.crossing_values().iter().map(|&v| zu(v)).collect();
        let outs: Vec<u128> = match guard(|| plan.migration_outputs()) {
            Ok(o) => o.iter().map(|&v| zu(v)).collect(),
            Err(p) => {
                self.viol(&format!("migration_outputs:panic:{}", panic_class(&p)), p, case, &calls);
                return;
            }
        };
        let change = plan.change().map(zu).unwrap_or(0);
        let prep_fees = zu(plan.prep_fees());
        let dropped = split.len().saturating_sub(cv.len());

        // --- canonical, ordered, capped, prefix --------------------------------------------
        if let Some(bad) = cv.iter().find(|v| !is_canon(**v)) {
            self.viol("plan:non-canonical-crossing", format!("crossing {bad} is not a {{1,2,5}}*10^k value in [0.01,10000] ZEC; crossings {cv:?}"), case, &calls);
        }
        if cv.windows(2).any(|w| w[0] < w[1]) {
            self.viol("plan:crossings-increase", format!("crossings {cv:?}"), case, &calls);
        }
        if cv.len() > cap {
            self.viol("plan:cap-exceeded", format!("{} crossings, cap {cap}", cv.len()), case, &calls);
        }
        if cv.len() > split.len() || cv[..] != split[..cv.len()] {
            self.viol(
                "plan:not-a-prefix-of-canonical-split",
                format!("crossings {cv:?} vs canonical split {split:?} (total {total}, single {single}, cap {cap}, buffer {buffer}, fee {fee})"),
                case,
                &calls,
            );
        }
        if buffer == 0 && fee == 0 {
            // second oracle for the model itself (fee-free digit expansion)
            let de = digit_expansion(total, cap);
            if de != split {
                // a defect of the harness model, not of the code under test
                self.r.inconclusive("model-self-check-failed");
                self.r.note(format!("digit expansion {de:?} != greedy model {split:?} for total {total} cap {cap}"));
            } else {
                self.r.count("fee_free_digit_expansion_checked", 1);
            }
        }

        // --- conservation --------------------------------------------------------------------
        if outs.len() != cv.len() || outs.iter().zip(&cv).any(|(o, c)| *o != c + buffer) {
            self.viol("plan:prepared-note-not-crossing-plus-buffer", format!("outputs {outs:?} crossings {cv:?} buffer {buffer}"), case, &calls);
        }
        let notes_sum: u128 = cv.iter().map(|c| c + buffer).sum();
        if notes_sum + prep_fees + change != total {
            self.viol(
                "plan:value-not-conserved",
                format!("notes {notes_sum} + prep_fees {prep_fees} + change {change} = {} != total {total}", notes_sum + prep_fees + change),
                case,
                &calls,
            );
        }
        if zu(plan.total_input()) != total || zu(plan.total_migratable()) != cv.iter().sum::<u128>() || zu(plan.note_fee_buffer()) != buffer {
            self.viol("plan:totals-misreported", format!("total_input {:?} total_migratable {:?} buffer {:?}", plan.total_input(), plan.total_migratable(), plan.note_fee_buffer()), case, &calls);
        }

        // --- reserved fees are what the oracle said, exactly ---------------------------------
        if cv.is_empty() {
            if prep_fees != 0 {
                self.viol("plan:fees-reserved-for-empty-plan", format!("prep_fees {prep_fees}"), case, &calls);
            }
        } else {
            match calls.last() {
                Some(last) if last.args.iter().map(|a| *a as u128).eq(outs.iter().copied()) => match last.answer {
                    Some(n) => {
                        let exact = n as u128 * fee;
                        if exact != prep_fees {
                            let class = if exact > u64::MAX as u128 {
                                "plan:prep-fees-wrapped:oracle-count-times-fee-exceeds-u64"
                            } else {
                                "plan:prep-fees-not-oracle-count-times-fee"
                            };
                            self.viol(
                                class,
                                format!("oracle answered {n} transactions for the final {} notes, fee {fee} each = {exact}; plan reserves {prep_fees} (total {total})", outs.len()),
                                case,
                                &calls,
                            );
                        } else if notes_sum + exact > total {
                            self.viol("plan:accepted-unaffordable-fees", format!("notes {notes_sum} + fees {exact} > total {total}"), case, &calls);
                        }
                    }
                    None => self.viol("plan:kept-parts-the-oracle-refused", format!("{} crossings kept although the oracle answered None for them", cv.len()), case, &calls),
                },
                _ => self.viol(
                    "plan:final-notes-never-priced",
                    format!("the last oracle query {:?} is not the final note list {outs:?}", calls.last().map(|c| &c.args)),
                    case,
                    &calls,
                ),
            }
        }

        // --- residual bound when the cap is not reached and preparation costs what was assumed --
        // "costs what the planner assumed": asked about the full canonical split, the oracle answered
        // exactly the optimistic count the split was sized with (any oracle behaviour may do so).
        let assumed_txs = if single_exact { 0 } else { ceil_div(split.len() as u128, PER_TX) as usize };
        let costs_as_assumed = !split.is_empty()
            && calls.first().is_some_and(|c0| c0.answer == Some(assumed_txs) && c0.args.iter().map(|a| *a as u128).eq(split.iter().map(|c| c + buffer)));
        // The `Assumed` oracle answers the optimistic count for WHATEVER list it is asked about, so
        // with it preparation costs what the planner assumed by construction - also when the planner
        // (wrongly) starts from something else than the full canonical split for the caller's cap.
        let always_optimistic = matches!(case.kind, Kind::Assumed) && !split.is_empty();
        if always_optimistic && !costs_as_assumed {
            self.r.count("assumed_oracle_first_query_differs_from_canonical_split", 1);
        }
        if (costs_as_assumed || always_optimistic || split.is_empty()) && cv.len() < cap {
            self.r.count("residual_bound_checked", 1);
            if !matches!(case.kind, Kind::Assumed) {
                self.r.count("residual_bound_checked_other_oracles", 1);
            }
            if change >= MIN_DENOM + buffer + fee {
                self.viol(
                    "plan:residual-too-large",
                    format!("change {change} >= smallest self-funding note {} + one preparation fee {fee}; {} crossings < cap {cap}", MIN_DENOM + buffer, cv.len()),
                    case,
                    &calls,
                );
            }
        }

        // --- model divergence (diagnostic): which prefix, for function-like oracles ------------
        if !matches!(case.kind, Kind::Inconsistent(_)) && !overflow_answer {
            // first prefix, longest first, the oracle prices affordably
            let mut want = 0;
            for k in (1..=split.len()).rev() {
                let ans = calls.iter().find(|c| c.args.len() == k).map(|c| c.answer);
                match ans {
                    Some(Some(n)) => {
                        let s: u128 = split[..k].iter().map(|c| c + buffer).sum();
                        if s + n as u128 * fee <= total {
                            want = k;
                            break;
                        }
                    }
                    Some(None) => {}
                    None => break, // never asked: cannot tell
                }
            }
            if want != cv.len() {
                self.r.count("model_divergence_reconcile_length", 1);
            }
        }

        // --- RNG independence ---------------------------------------------------------------
        self.n += 1;
        let sel = 1 + (self.n % 3) as u8;
        let o2 = mk();
        match call_plan(case, &o2, sel) {
            Ok(p2) if p2 == plan => {}
            Ok(p2) => self.viol("plan:depends-on-rng", format!("{:?} vs {:?}", plan.crossing_values(), p2.crossing_values()), case, &calls),
            Err(p) => self.viol(&format!("plan:panic:{}", panic_class(&p)), format!("second run panicked: {p}"), case, &calls),
        }

        // --- stored-parts round trip ---------------------------------------------------------
        match guard(|| {
            DenominationPlan::from_stored_parts(
                plan.crossing_values().to_vec(),
                plan.note_fee_buffer(),
                plan.change(),
                plan.prep_fees(),
                plan.total_input(),
                plan.total_migratable(),
            )
        }) {
            Ok(Ok(p)) if p == plan => {}
            other => self.viol("from_stored_parts:round-trip", format!("{other:?}"), case, &calls),
        }

        // --- bookkeeping -----------------------------------------------------------------------
        let nontrivial = !split.is_empty();
        let sig = (
            case.kind.idx(),
            case.entry,
            single,
            single_exact,
            split.len().min(20),
            cv.len().min(20),
            cv.len() == cap,
            (case.fee == 0, case.buffer == 0, case.fee > 1_000_000, case.buffer > 1_000_000),
            if lattice { 99 } else { (case.total.max(1)).ilog10() },
            cv.first().map(|c| c.ilog10()),
        );
        self.r.case(&sig, nontrivial);
        self.r.count(&format!("plans_oracle_{}", case.kind.idx()), 1);
        if dropped > 0 {
            self.r.count("plans_where_reconcile_dropped_parts", 1);
        }
        if cv.is_empty() && !split.is_empty() {
            self.r.count("plans_reconciled_to_empty", 1);
        }
        if single_exact {
            self.r.count("single_note_exact_funding_cases", 1);
        }
        if cv.len() == cap {
            self.r.count("plans_reaching_cap", 1);
        }
        if cv.len() > PER_TX as usize {
            self.r.count("plans_crossing_fee_step", 1);
        }
        if !cv.is_empty() {
            self.r.count("nonempty_plans", 1);
        }
        if case.buffer as u128 > MAX_DENOM || case.fee as u128 > MAX_DENOM {
            self.r.count("max_money_scale_fee_or_buffer", 1);
        }
        if !cv.is_empty() {
            self.r.sample(
                &format!("oracle-{}", case.kind.idx()),
                json!({"inputs": case.replay(&calls), "crossings_zat": cv.iter().map(|c| c.to_string()).collect::<Vec<_>>(),
                       "canonical_split_len": split.len(), "prep_fees": prep_fees.to_string(), "change": change.to_string()}),
            );
        }
    }

}

// ---------------------------------------------------------------------------------------------
// Workloads
// ---------------------------------------------------------------------------------------------

const FEE_PAIRS: &[(u64, u64)] = &[
    // (buffer, prep fee)
    (0, 0),
    (15_000, 80_000), // the engine's canonical ZIP 317 fees
    (15_000, 0),
    (0, 80_000),
    (1, 1),
    (1_000_000, 1_000_000),
    (999_999, 1),
    (10_000, 1_000_000),
    (1_000_000_000_000, 1_000_000_000_000), // 10 000 ZEC each
    (MAX_MONEY as u64, MAX_MONEY as u64),
];
const CAPS: &[usize] = &[1, 2, 14, 15, 16, 29, 50, 51, 64];
const COUNTS: &[usize] = &[0, 1, 2];

fn lattice_kinds(salt: u64) -> Vec<Kind> {
    vec![
        Kind::Assumed,
        Kind::CountStub,
        Kind::AlwaysNone,
        Kind::NoneUntil(1),
        Kind::NoneUntil(3),
        Kind::Over(2),
        Kind::Over(50),
        Kind::Inconsistent(salt),
        Kind::UsizeMax,
        Kind::Absurd(1 << 61),
        Kind::WrapTarget,
        Kind::Zero,
        Kind::NonMonotone,
    ]
}

/// Balances at and around every boundary the split can have for the given fees.
fn lattice_balances(ds: &[u128], buffer: u128, fee: u128) -> Vec<u64> {
    let mut v: Vec<u128> = vec![0, 1, 2, MAX_MONEY, MAX_MONEY - 1, MAX_MONEY / 2];
    let deltas: Vec<u128> = {
        let mut d = vec![0u128, 1, 2];
        for base in [buffer, fee, buffer + fee, 2 * buffer, 2 * buffer + fee, 2 * (buffer + fee), MIN_DENOM, MIN_DENOM + buffer, MIN_DENOM + buffer + fee] {
            for e in [0u128, 1] {
                d.push(base + e);
                d.push(base.saturating_sub(e));
            }
        }
        d.sort();
        d.dedup();
        d
    };
    for &d in &extended_series() {
        for &x in &deltas {
            v.push(d + x);
            v.push(d.saturating_sub(x));
        }
    }
    // two-part exact fits
    for &a in ds {
        for &b in ds {
            if b <= a {
                let t = a + b + 2 * buffer + fee;
                v.extend([t.saturating_sub(1), t, t + 1]);
            }
        }
    }
    // k-part exact fits along the all-nines expansion (crosses the 14/15 and 28/29 fee steps)
    let nines = digit_expansion(99_999_99 * MIN_DENOM + 3 * MAX_DENOM, 64);
    for k in 1..=nines.len() {
        let s: u128 = nines[..k].iter().sum::<u128>() + k as u128 * buffer + ceil_div(k as u128, PER_TX) * fee;
        v.extend([s.saturating_sub(1), s, s + 1]);
    }
    v.retain(|x| *x <= MAX_MONEY);
    v.sort();
    v.dedup();
    v.into_iter().map(|x| x as u64).collect()
}

fn run_lattice(c: &mut Ctx, args: &Args) -> bool {
    let ds = c.ds.clone();
    let mut idx = 0u64;
    let mut points = 0u64;
    for &(buffer, fee) in FEE_PAIRS {
        let balances = lattice_balances(&ds, buffer as u128, fee as u128);
        for &total in &balances {
            // shard by balance: each shard owns whole balances (all configurations of them)
            idx += 1;
            if idx % args.nshards != args.shard {
                continue;
            }
            if !c.r.time_left() {
                return false;
            }
            for &cap in CAPS {
                for &count in COUNTS {
                    for kind in lattice_kinds(total ^ (cap as u64) << 48) {
                        let case = Case { total, count, cap, buffer, fee, kind, entry: 0 };
                        c.check(&case, true);
                        points += 1;
                    }
                }
            }
        }
    }
    c.r.count("lattice_points", points);
    c.r.count("lattice_balances_total", idx / args.nshards.max(1));
    true
}

fn pick_balance(rng: &mut ChaCha20Rng, ds: &[u128], buffer: u128, fee: u128) -> u64 {
    let t: u128 = match rng.gen_range(0..8) {
        0 => rng.gen_range(0..=MAX_MONEY),
        1 => {
            // log-uniform
            let e = rng.gen_range(0.0..(MAX_MONEY as f64).ln());
            e.exp() as u128
        }
        2 => {
            // a boundary +- a fee-ish delta
            let ext = extended_series();
            let d = if rng.gen_bool(0.7) { ds[rng.gen_range(0..ds.len())] } else { ext[rng.gen_range(0..ext.len())] };
            let delta = [0, 1, buffer, fee, buffer + fee, buffer + 1, fee + 1, rng.gen_range(0..=2_000_000)][rng.gen_range(0..8)];
            if rng.r#gen() { d + delta } else { d.saturating_sub(delta) }
        }
        3 => {
            // exact fit of a random greedy-stable multiset
            let seed: u128 = rng.gen_range(0..=MAX_MONEY / 3);
            let k = rng.gen_range(1..=40);
            let parts = digit_expansion(seed, k);
            let k = parts.len() as u128;
            parts.iter().sum::<u128>() + k * buffer + ceil_div(k, PER_TX) * fee + rng.gen_range(0..3) - 1
        }
        4 => {
            // many whole caps
            rng.gen_range(1..=200u128) * MAX_DENOM + rng.gen_range(0..=3 * (buffer + fee + 1))
        }
        5 => rng.gen_range(0..=5 * MIN_DENOM + 3 * buffer + 2 * fee),
        6 => MAX_MONEY - rng.gen_range(0..=1_000_000),
        _ => {
            // decimal strings of a single repeated digit (all 9s, all 4s, ...)
            let dig = rng.gen_range(1..=9u128);
            let places = rng.gen_range(1..=9u32);
            let mut x = 0u128;
            for _ in 0..places {
                x = x * 10 + dig;
            }
            x * MIN_DENOM * 10u128.pow(rng.gen_range(0..3)) + rng.gen_range(0..=buffer + fee + 1)
        }
    };
    t.min(MAX_MONEY) as u64
}

fn pick_fee(rng: &mut ChaCha20Rng) -> u64 {
    match rng.gen_range(0..8) {
        0 => 0,
        1 => [1, 2, 5_000, 10_000, 15_000, 80_000][rng.gen_range(0..6)],
        2 | 3 => rng.gen_range(0..=1_000_000),
        4 => rng.gen_range(0..=100_000),
        5 => rng.gen_range(0..=MAX_MONEY as u64),
        6 => (MAX_MONEY as u64) - rng.gen_range(0..=1_000_000),
        _ => 1u64 << rng.gen_range(0..50),
    }
}

fn pick_kind(rng: &mut ChaCha20Rng) -> Kind {
    match rng.gen_range(0..14) {
        0 | 1 => Kind::Assumed,
        2 => Kind::CountStub,
        3 => Kind::AlwaysNone,
        4 => Kind::NoneUntil(rng.gen_range(0..20)),
        5 => Kind::Over(rng.gen_range(1..=50)),
        6 | 7 => Kind::Inconsistent(rng.r#gen()),
        8 => Kind::UsizeMax,
        9 => Kind::Absurd(match rng.gen_range(0..4) {
            0 => 1usize << rng.gen_range(32..64),
            1 => rng.r#gen::<usize>(),
            2 => usize::MAX - rng.gen_range(0..4),
            _ => rng.gen_range(0..1_000_000),
        }),
        10 => Kind::WrapTarget,
        11 => Kind::Zero,
        12 => Kind::NonMonotone,
        _ => Kind::Over(1),
    }
}

fn run_random(c: &mut Ctx, args: &Args, rng: &mut ChaCha20Rng, n: u64, until_frac: f64) {
    let ds = c.ds.clone();
    let mut i = 0;
    while i < n && c.r.time_left() && c.r.frac_left() > until_frac {
        i += 1;
        let buffer = pick_fee(rng);
        let fee = pick_fee(rng);
        let total = pick_balance(rng, &ds, buffer as u128, fee as u128);
        let case = Case {
            total,
            count: match rng.gen_range(0..6) {
                0 => 0,
                1 | 2 => 1,
                3 => 2,
                4 => rng.gen_range(3..2000),
                _ => usize::MAX - rng.gen_range(0..2),
            },
            cap: rng.gen_range(1..=64),
            buffer,
            fee,
            kind: pick_kind(rng),
            entry: rng.gen_range(0..4),
        };
        c.check(&case, false);
    }
    c.r.count("random_plans", i);
    let _ = args;

    // `from_stored_parts` validation: refuses exactly the crossing/buffer pairs whose prepared note
    // is not a representable amount, and never lets `migration_outputs` panic on what it accepted
    let mut k = 0;
    while k < 20_000 && c.r.time_left() {
        k += 1;
        let near = |rng: &mut ChaCha20Rng| match rng.gen_range(0..4) {
            0 => MAX_MONEY as u64 - rng.gen_range(0..3),
            1 => rng.gen_range(0..=MAX_MONEY as u64),
            2 => rng.gen_range(0..3),
            _ => (MAX_MONEY / 2) as u64 + rng.gen_range(0..3) - 1,
        };
        let buffer = near(rng);
        let crossings: Vec<u64> = (0..rng.gen_range(0..4)).map(|_| near(rng)).collect();
        let fits = crossings.iter().all(|c| *c as u128 + buffer as u128 <= MAX_MONEY);
        let got = guard(|| {
            DenominationPlan::from_stored_parts(crossings.iter().map(|c| z(*c)).collect(), z(buffer), None, Zatoshis::ZERO, z(MAX_MONEY as u64), Zatoshis::ZERO)
                .map(|p| p.migration_outputs().iter().map(|v| v.into_u64()).collect::<Vec<_>>())
        });
        c.r.evals(1);
        c.r.count("stored_parts_validations", 1);
        let ok = match &got {
            Ok(Ok(outs)) => fits && outs.iter().zip(&crossings).all(|(o, c)| *o == c + buffer),
            Ok(Err(_)) => !fits,
            Err(_) => false,
        };
        if !ok {
            c.r.violation(
                "C16:from_stored_parts:validation",
                format!("crossings {crossings:?} buffer {buffer}: {got:?}, representable = {fits}"),
                json!({"op": "from_stored_parts", "crossings": crossings, "buffer": buffer}),
            );
        }
    }
}

/// Concrete wallets: the real preparation planner as the oracle, through `plan_denominations`
/// directly (arbitrary fees/caps) and through `engine::plan_migration*` (canonical fees).
fn wallet(rng: &mut ChaCha20Rng, ds: &[u128]) -> (Vec<u64>, &'static str) {
    match rng.gen_range(0..11) {
        10 => {
            // dust whose balance quantizes to something, but whose consolidation fees eat it
            let n = rng.gen_range(60..=220u64);
            let total = rng.gen_range(1_095_000..=1_600_000u64);
            (vec![total / n + 1; n as usize], "dust-unfundable")
        }
        0 => {
            // one note holding exactly a denomination plus the engine's buffer
            let d = ds[rng.gen_range(0..ds.len())];
            (vec![(d + ENGINE_BUFFER) as u64], "single-exact")
        }
        1 => {
            let d = ds[rng.gen_range(0..ds.len())];
            let t = (d + ENGINE_BUFFER) as u64;
            let a = rng.gen_range(1..t);
            (vec![a, t - a], "two-notes-summing-to-exact")
        }
        2 => {
            if rng.gen_bool(0.5) {
                (vec![rng.gen_range(1..=MAX_DENOM as u64 * 3)], "single-random")
            } else {
                // a single note holding an on-series value outside the canonical range, plus the buffer
                let ext = extended_series();
                (vec![(ext[rng.gen_range(0..ext.len())] + ENGINE_BUFFER) as u64], "single-on-series")
            }
        }
        3 => {
            let n = rng.gen_range(2..=60);
            (vec![MAX_DENOM as u64; n], "equal-caps")
        }
        4 => {
            let n = rng.gen_range(20..=400);
            (vec![MIN_DENOM as u64; n], "min-denomination-dust")
        }
        5 => {
            // notes that are already self-funding denominations (direct funding, no preparation)
            let n = rng.gen_range(1..=20);
            ((0..n).map(|_| (ds[rng.gen_range(0..ds.len().min(12))] + ENGINE_BUFFER) as u64).collect(), "pre-denominated")
        }
        k => {
            let shape = WalletShape::ALL[(k as usize) % WalletShape::ALL.len()];
            let n = [1usize, 2, 3, 5, 14, 15, 16, 30, 60, 120, 300][rng.gen_range(0..11)];
            (generate_notes(shape, n, rng), shape.label())
        }
    }
}

fn run_wallets(c: &mut Ctx, rng: &mut ChaCha20Rng, n: u64) {
    let ds = c.ds.clone();
    let net = regtest_network(true);
    let mut i = 0;
    while i < n && c.r.time_left() {
        i += 1;
        let (notes, label) = wallet(rng, &ds);
        let total: u128 = notes.iter().map(|v| *v as u128).sum();
        if total > MAX_MONEY {
            c.r.inconclusive("generated wallet exceeds MAX_MONEY");
            continue;
        }
        let avail: Vec<Zatoshis> = notes.iter().map(|v| z(*v)).collect();

        // (1) the strategy with the real planner as the oracle, arbitrary cap, canonical or random fees
        let (buffer, fee) = if rng.gen_bool(0.7) { (ENGINE_BUFFER as u64, ENGINE_PREP_FEE as u64) } else { (rng.gen_range(0..=100_000), rng.gen_range(0..=200_000)) };
        let case = Case { total: total as u64, count: notes.len(), cap: rng.gen_range(1..=64), buffer, fee, kind: Kind::Real(avail.clone()), entry: rng.gen_range(0..3) };
        c.check(&case, false);

        // (2) the engine preview
        let tip = rng.gen_range(200..3_000_000u32);
        let cap = if rng.gen_bool(0.5) { 50 } else { rng.gen_range(1..=64) };
        let engine_case = Case { total: total as u64, count: notes.len(), cap, buffer: ENGINE_BUFFER as u64, fee: ENGINE_PREP_FEE as u64, kind: Kind::Real(avail.clone()), entry: 9 };
        let run = |seed: u64| {
            let backend = MockBackend::new(notes.clone(), tip);
            let mut r = vh_common::rng(seed, 160);
            guard(|| {
                if cap == 50 {
                    plan_migration(&net, &backend, &mut r)
                } else {
                    plan_migration_with(&default_portfolio(), NonZeroUsize::new(cap).unwrap(), &net, &backend, &mut r)
                }
            })
        };
        let split = model_split(&ds, total, notes.len() == 1, cap, ENGINE_BUFFER, ENGINE_PREP_FEE);
        // does preparing the full canonical split cost this wallet what the planner assumed?
        let single_exact = notes.len() == 1 && total >= ENGINE_BUFFER && is_canon(total - ENGINE_BUFFER);
        let assumed_txs = if single_exact { 0 } else { ceil_div(split.len() as u128, PER_TX) as usize };
        let full: Vec<Zatoshis> = split.iter().map(|c| z((c + ENGINE_BUFFER) as u64)).collect();
        let costs_as_assumed = !split.is_empty()
            && plan_preparation(&avail, &full, z(ENGINE_PREP_FEE as u64)).ok().map(|p| p.transaction_count()) == Some(assumed_txs);
        let bound = MIN_DENOM + ENGINE_BUFFER + ENGINE_PREP_FEE;
        c.r.evals(1);
        c.r.count("engine_plans", 1);
        if costs_as_assumed {
            c.r.count("engine_wallets_where_preparation_costs_as_assumed", 1);
        }
        match run(i) {
            Err(p) => c.viol(&format!("engine:panic:{}", panic_class(&p)), p, &engine_case, &[]),
            Ok(Err(e)) => {
                let (name, ok) = match &e {
                    MigrationError::NothingToMigrate => ("nothing-to-migrate", total == 0 || split.is_empty()),
                    MigrationError::UnfundableSplit => ("unfundable-split", !split.is_empty()),
                    _ => ("other-error", false),
                };
                c.r.count(&format!("engine_{}", name.replace('-', "_")), 1);
                c.r.sig(&("engine", name, label, notes.len().min(20)));
                if costs_as_assumed && total >= bound {
                    c.viol(
                        &format!("engine:{name}:although-preparation-costs-as-assumed"),
                        format!("{e:?}: the whole balance {total} stays behind although the wallet mints the canonical split {split:?} in the assumed {assumed_txs} transactions"),
                        &engine_case,
                        &[],
                    );
                }
                if !ok {
                    c.viol(&format!("engine:{name}:contradicts-canonical-split"), format!("{e:?} but the canonical split of balance {total} is {split:?}"), &engine_case, &[]);
                }
            }
            Ok(Ok(plan)) => {
                c.r.count("engine_previews_ok", 1);
                let cv: Vec<u128> = plan.crossing_values().iter().map(|&v| zu(v)).collect();
                let funding: Vec<u128> = plan.funding_notes().iter().map(|&v| zu(v)).collect();
                let residual = zu(plan.residual());
                let prep_fees = zu(plan.denominations().prep_fees());
                let ntx = plan.preparation_tx_count() as u128;
                c.r.sig(&("engine", "ok", label, cv.len().min(25), split.len().min(25), plan.preparation_layer_count().min(6), cv.len() == cap));
                if cv.len() < split.len() {
                    c.r.count("engine_previews_truncated_by_wallet_shape", 1);
                }
                if plan.preparation().direct_funding_notes().len() > 0 {
                    c.r.count("engine_previews_with_direct_funding", 1);
                }
                if cv.iter().any(|v| !is_canon(*v)) || cv.windows(2).any(|w| w[0] < w[1]) || cv.len() > cap {
                    c.viol("engine:preview-not-canonical", format!("crossings {cv:?} cap {cap}"), &engine_case, &[]);
                }
                if cv.is_empty() || cv.len() > split.len() || cv[..] != split[..cv.len()] {
                    c.viol("engine:preview-not-a-prefix-of-canonical-split", format!("crossings {cv:?} vs split {split:?} for balance {total} held as {} notes", notes.len()), &engine_case, &[]);
                }
                if costs_as_assumed && cv.len() < cap && residual >= bound {
                    c.viol("engine:residual-too-large", format!("residual {residual} >= {bound} with {} crossings < cap {cap}, although preparation costs as assumed", cv.len()), &engine_case, &[]);
                }
                if funding.len() != cv.len() || funding.iter().zip(&cv).any(|(f, v)| *f != v + ENGINE_BUFFER) {
                    c.viol("engine:funding-note-not-crossing-plus-buffer", format!("funding {funding:?} crossings {cv:?}"), &engine_case, &[]);
                }
                if zu(plan.value_migrated()) != cv.iter().sum::<u128>() {
                    c.viol("engine:value-migrated-misreported", format!("{:?} vs {cv:?}", plan.value_migrated()), &engine_case, &[]);
                }
                if funding.iter().sum::<u128>() + prep_fees + residual != total {
                    c.viol("engine:value-not-conserved", format!("funding {} + prep_fees {prep_fees} + residual {residual} != balance {total}", funding.iter().sum::<u128>()), &engine_case, &[]);
                }
                if prep_fees != ntx * ENGINE_PREP_FEE {
                    c.viol("engine:prep-fees-not-tx-count-times-fee", format!("prep_fees {prep_fees}, {ntx} preparation transactions at {ENGINE_PREP_FEE}"), &engine_case, &[]);
                }
                let mut minted: Vec<u128> = plan.preparation().funding_notes().iter().map(|&v| zu(v)).collect();
                let mut want = funding.clone();
                minted.sort();
                want.sort();
                if minted != want {
                    c.viol("engine:preparation-mints-other-notes", format!("minted {minted:?} wanted {want:?}"), &engine_case, &[]);
                }
                // denominations do not depend on the RNG (the schedule does)
                match run(i ^ 0x5555_0000) {
                    Ok(Ok(p2)) if p2.denominations() == plan.denominations() => {}
                    other => c.viol("engine:preview-depends-on-rng", format!("{:?}", other.map(|r| r.map(|p| p.crossing_values().to_vec()))), &engine_case, &[]),
                }
                c.r.sample(&format!("engine-{label}"), json!({"wallet_notes": notes.len(), "balance": total.to_string(), "cap": cap,
                    "crossings": cv.iter().map(|v| v.to_string()).collect::<Vec<_>>(), "prep_txs": ntx as u64, "residual": residual.to_string()}));
            }
        }
    }
    c.r.count("wallets", i);
}

fn main() {
    vh_common::install_panic_hook();
    let args = Args::parse();
    let mut c = Ctx { r: Reporter::new("C16", &args), ds: denoms(), n: 0 };
    let mut rng = vh_common::rng(args.shard_seed(), 16);

    // model self-test against the ZIP's worked examples (harness sanity, not a verdict)
    {
        let zec = |v: &[u128]| v.iter().map(|x| x * COIN).collect::<Vec<_>>();
        assert_eq!(model_split(&c.ds, 540 * COIN, false, 64, 0, 0), zec(&[500, 20, 20]));
        assert_eq!(model_split(&c.ds, 25_000 * COIN, false, 64, 0, 0), zec(&[10_000, 10_000, 5_000]));
        assert_eq!(model_split(&c.ds, 12_345 * (COIN / 100), false, 64, 0, 0), vec![100 * COIN, 20 * COIN, 2 * COIN, COIN, COIN / 5, COIN / 5, COIN / 20]);
        assert_eq!(model_split(&c.ds, 711_010_000, false, 50, 15_000, 0), vec![5 * COIN, 2 * COIN, COIN / 10]);
        assert_eq!(c.ds.len(), 19);
    }

    // (a) wallets first (they are the slowest per case and must not be starved): a fixed number
    let n_wallets = args.get_u64("wallets", args.pick(150, 4_000));
    run_wallets(&mut c, &mut rng, n_wallets);

    // (b) the boundary lattice, sharded by balance
    let done = run_lattice(&mut c, &args);
    c.r.set_exhaustive(done);
    if !done {
        c.r.inconclusive("boundary lattice not completed within the budget");
    }

    // (c) random plans (operation cap and the remaining budget)
    let n_random = args.get_u64("random", args.pick(300_000, 3_000_000));
    run_random(&mut c, &args, &mut rng, n_random, 0.0);
    c.r.finish();
}
