//! C17 — pool-migration schedules, anchors, expiries, wake-ups and ZIP 318 labels stay canonical.
//!
//! Every public function of `zcash_pool_migration::scheduling` and the classification / expiry /
//! grid functions of `zcash_protocol::zip318` are called under ChaCha streams and under adversarial
//! `RngCore` implementations (constant words, alternating words, counters, k zero/one words then
//! random, low-entropy words, scripted boundary-targeting words). Each call runs under an RNG-word
//! budget: exhausting it is *inconclusive* (rejection sampling need not terminate under a hostile
//! stream), never a violation.
//!
//! Oracles (all independent of the code under test): closed-form expiry; brute-force candidate
//! anchor set; exact minimum piercing number by two bounding enumerations (hitting sets over right
//! endpoints >= tau >= maximum pairwise-disjoint subfamily; equality proves both exact); the
//! evidence lattice of `classify` enumerated in full with a clause-wise "can still conform"
//! predicate written from the documentation of the two ZIP 318 shapes.

use std::num::NonZeroU32;

use vh_common::rand::{Rng, RngCore};
use vh_common::rand_chacha::ChaCha20Rng;
use vh_common::{guard, json, panic_class, Args, Reporter, Tier, Value};

use zcash_pool_migration::scheduling::{
    draw_anchor_boundary, earliest_broadcast_height, redraw_anchor_boundary, schedule,
    schedule_broadcast_heights, schedule_prep_broadcast_heights, schedule_sync_wakeups, shuffle_in_place,
    shuffle_indices, DelayDistribution, SchedulingParams, WakeupParams, WakeupScheduleError,
};
use zcash_protocol::consensus::BlockHeight;
use zcash_protocol::value::Zatoshis;
use zcash_protocol::zip318::{
    classify, expiry_height, AnchorBucketInterval, PoolMigrationConstants, Zip318Classification, Zip318Evidence,
    Zip318TxKind,
};

// ---------------------------------------------------------------------------------------------
// Specification constants, restated (not imported) so that a changed constant is a disagreement
// ---------------------------------------------------------------------------------------------

const EXPIRY_MODULUS: u64 = 34_560;
const EXPIRY_WINDOW: u64 = 69_120;
const AGE_CAP: u64 = 4;
const COIN: u64 = 100_000_000;
const PREP_ACTIONS: usize = 16;
const XFER_SRC_ACTIONS: usize = 2;
const XFER_DST_ACTIONS: usize = 1;
const M: u32 = u32::MAX;

// ---------------------------------------------------------------------------------------------
// RNG streams
// ---------------------------------------------------------------------------------------------

const BUDGET_MARK: &str = "VH-RNG-WORD-BUDGET-EXHAUSTED";

#[derive(Clone)]
enum Stream {
    ChaCha,
    Const(u64),
    Alt(u64, u64),
    Counter(u64, u64),
    /// k constant words, then random
    Prefix(u64, u32),
    /// only the low `b` bits of every word are random
    LowBits(u32),
    /// only the high `b` bits of every word are random
    HighBits(u32),
    /// scripted words, then random
    Script(Vec<u64>),
}

impl Stream {
    fn kind(&self) -> &'static str {
        match self {
            Stream::ChaCha => "chacha",
            Stream::Const(_) => "const",
            Stream::Alt(..) => "alternating",
            Stream::Counter(..) => "counter",
            Stream::Prefix(..) => "k-const-then-random",
            Stream::LowBits(_) => "low-bits",
            Stream::HighBits(_) => "high-bits",
            Stream::Script(_) => "scripted",
        }
    }
    fn describe(&self) -> Value {
        match self {
            Stream::ChaCha => json!("chacha"),
            Stream::Const(w) => json!({"const": format!("{w:#018x}")}),
            Stream::Alt(a, b) => json!({"alternating": [format!("{a:#018x}"), format!("{b:#018x}")]}),
            Stream::Counter(s, d) => json!({"counter_from": format!("{s:#018x}"), "step": format!("{d:#018x}")}),
            Stream::Prefix(w, k) => json!({"const": format!("{w:#018x}"), "repeat": k, "then": "chacha"}),
            Stream::LowBits(b) => json!({"random_low_bits": b}),
            Stream::HighBits(b) => json!({"random_high_bits": b}),
            Stream::Script(v) => json!({"script": v.iter().map(|w| format!("{w:#018x}")).collect::<Vec<_>>(), "then": "chacha"}),
        }
    }
}

struct AdvRng {
    s: Stream,
    inner: ChaCha20Rng,
    used: u64,
    budget: u64,
}

impl AdvRng {
    fn new(s: Stream, seed: u64, budget: u64) -> Self {
        AdvRng { s, inner: vh_common::rng(seed, 1717), used: 0, budget }
    }
}

impl RngCore for AdvRng {
    fn next_u32(&mut self) -> u32 {
        self.next_u64() as u32
    }
    fn next_u64(&mut self) -> u64 {
        if self.used >= self.budget {
            panic!("{BUDGET_MARK}");
        }
        let i = self.used;
        self.used += 1;
        match &self.s {
            Stream::ChaCha => self.inner.next_u64(),
            Stream::Const(w) => *w,
            Stream::Alt(a, b) => {
                if i % 2 == 0 {
                    *a
                } else {
                    *b
                }
            }
            Stream::Counter(s, d) => s.wrapping_add(d.wrapping_mul(i)),
            Stream::Prefix(w, k) => {
                if i < *k as u64 {
                    *w
                } else {
                    self.inner.next_u64()
                }
            }
            Stream::LowBits(b) => self.inner.next_u64() & ((1u64 << b) - 1),
            Stream::HighBits(b) => self.inner.next_u64() & !((1u64 << (64 - b)) - 1),
            Stream::Script(v) => {
                if (i as usize) < v.len() {
                    v[i as usize]
                } else {
                    self.inner.next_u64()
                }
            }
        }
    }
    fn fill_bytes(&mut self, dest: &mut [u8]) {
        for chunk in dest.chunks_mut(8) {
            let w = self.next_u64().to_le_bytes();
            chunk.copy_from_slice(&w[..chunk.len()]);
        }
    }
    fn try_fill_bytes(&mut self, dest: &mut [u8]) -> Result<(), vh_common::rand_core::Error> {
        self.fill_bytes(dest);
        Ok(())
    }
}
impl vh_common::rand_core::CryptoRng for AdvRng {}

fn pick_stream(g: &mut ChaCha20Rng) -> Stream {
    match g.gen_range(0..16) {
        0..=5 => Stream::ChaCha,
        6 => Stream::Const([0, 1, u64::MAX, 0x0000_0000_0000_0001, 0x8000_0000_0000_0000, 0x0101_0101_0101_0101, 1 << 11, (1 << 11) - 1, u64::MAX << 11][g.gen_range(0..9)]),
        7 => Stream::Const(g.r#gen()),
        8 => Stream::Alt(if g.r#gen() { 0 } else { u64::MAX }, g.r#gen()),
        9 => Stream::Alt(g.r#gen(), g.r#gen()),
        10 => Stream::Counter(g.gen_range(0..4), [1, 2, 1 << 11, 1 << 32, 0x9E37_79B9_7F4A_7C15][g.gen_range(0..5)]),
        11 => Stream::Prefix(0, g.gen_range(1..200)),
        12 => Stream::Prefix(u64::MAX, g.gen_range(1..200)),
        13 => Stream::LowBits(g.gen_range(1..40)),
        14 => Stream::HighBits(g.gen_range(1..40)),
        _ => Stream::Prefix(g.r#gen(), g.gen_range(1..50)),
    }
}

/// The word whose top 53 bits make the inverse-CDF sample come out at `t` blocks for mean `mean`:
/// u = exp(-t/mean) = 1 - (w >> 11) / 2^53.
fn word_for_delay(t: f64, mean: f64) -> u64 {
    let u = (-t / mean).exp();
    let k = ((1.0 - u) * (1u64 << 53) as f64) as u64;
    k.min((1u64 << 53) - 1) << 11
}

// ---------------------------------------------------------------------------------------------

struct Ctx {
    r: Reporter,
    g: ChaCha20Rng,
    seed_ctr: u64,
    adv_budget: u64,
    chacha_budget: u64,
}

enum Outcome<T> {
    Done(T, u64), // value, words consumed
    Budget,
    Panic(String),
}

impl Ctx {
    fn rng_for(&mut self, s: &Stream) -> AdvRng {
        self.seed_ctr += 1;
        let budget = if matches!(s, Stream::ChaCha) { self.chacha_budget } else { self.adv_budget };
        AdvRng::new(s.clone(), self.r.args().shard_seed().wrapping_mul(0x1_0000_0001).wrapping_add(self.seed_ctr), budget)
    }

    /// Runs `f` with a fresh budgeted RNG over stream `s`.
    fn run<T>(&mut self, op: &str, s: &Stream, f: impl FnOnce(&mut AdvRng) -> T) -> Outcome<T> {
        let mut rng = self.rng_for(s);
        let res = guard(|| f(&mut rng));
        match res {
            Ok(v) => Outcome::Done(v, rng.used),
            Err(p) if p.contains(BUDGET_MARK) => {
                self.r.inconclusive(&format!("rng word budget exhausted: {op} under {} stream", s.kind()));
                self.r.count("calls_stopped_by_rng_budget", 1);
                if matches!(s, Stream::ChaCha) {
                    self.r.count("chacha_calls_stopped_by_rng_budget", 1);
                }
                Outcome::Budget
            }
            Err(p) => Outcome::Panic(p),
        }
    }

    fn viol(&mut self, class: &str, detail: String, replay: Value) {
        self.r.violation(&format!("C17:{class}"), detail, replay);
    }
}

fn bh(h: u32) -> BlockHeight {
    BlockHeight::from_u32(h)
}
fn hu(h: BlockHeight) -> u32 {
    u32::from(h)
}

// ---------------------------------------------------------------------------------------------
// Expiry
// ---------------------------------------------------------------------------------------------

fn model_expiry(h: u32) -> u32 {
    let h = h as u64;
    (h - h % EXPIRY_MODULUS + EXPIRY_WINDOW).min(M as u64) as u32
}

fn check_expiry_at(c: &mut Ctx, h: u32) {
    match guard(|| hu(expiry_height(bh(h)))) {
        Ok(e) if e == model_expiry(h) => {}
        Ok(e) => c.viol(
            "expiry_height:not-canonical",
            format!("expiry_height({h}) = {e}, canonical rolling expiry is {}", model_expiry(h)),
            json!({"op": "expiry_height", "height": h}),
        ),
        Err(p) => c.viol(&format!("expiry_height:panic:{}", panic_class(&p)), format!("{p} at height {h}"), json!({"op": "expiry_height", "height": h})),
    }
}

/// Fast path over a contiguous range: compares without catching per call; on any problem falls
/// back to the guarded per-height check to produce the witness.
fn expiry_range(c: &mut Ctx, lo: u64, hi: u64) {
    // [lo, hi) in u64 to allow hi = 2^32
    let ok = guard(|| {
        let mut bad = None;
        let mut h = lo;
        while h < hi {
            let hh = h as u32;
            if hu(expiry_height(bh(hh))) != model_expiry(hh) {
                bad = Some(hh);
                break;
            }
            h += 1;
        }
        bad
    });
    c.r.evals(hi - lo);
    c.r.count("expiry_heights_checked", hi - lo);
    match ok {
        Ok(None) => {}
        Ok(Some(h)) => check_expiry_at(c, h),
        Err(_) => {
            let mut h = lo;
            while h < hi && c.r.violation_count() < 3 {
                check_expiry_at(c, h as u32);
                h += 1;
            }
        }
    }
}

fn part_expiry(c: &mut Ctx, args: &Args) {
    let shard = args.shard;
    let n = args.nshards;
    // every height within +-3 of every multiple of the modulus (striped over shards)
    let mut k = shard;
    let max_k = (M as u64) / EXPIRY_MODULUS;
    while k <= max_k + 1 {
        let b = k * EXPIRY_MODULUS;
        let lo = b.saturating_sub(3);
        let hi = (b + 4).min(1u64 << 32);
        if lo < hi {
            expiry_range(c, lo, hi);
        }
        k += n;
    }
    c.r.sig(&("expiry", "around-every-multiple"));
    // the saturating region and the top of the range
    if shard == 0 {
        expiry_range(c, (1u64 << 32) - 300_000, 1u64 << 32);
        expiry_range(c, 0, 200_000);
        c.r.sig(&("expiry", "saturation-region"));
        c.r.count("expiry_saturated_heights_checked", (M as u64) - ((M as u64) - (M as u64) % EXPIRY_MODULUS - EXPIRY_WINDOW + 1));
    }
    match args.tier {
        Tier::Quick => {
            for _ in 0..200_000 {
                let h: u32 = c.g.r#gen();
                if hu(expiry_height(bh(h))) != model_expiry(h) {
                    check_expiry_at(c, h);
                }
                // the trait form on the specified parameters is the same function
                let t = hu(Defaults.canonical_expiry(bh(h)));
                if t != model_expiry(h) || !Defaults.is_canonical_expiry(bh(model_expiry(h)), bh(h)) {
                    c.viol(
                        "PoolMigrationConstants::canonical_expiry:not-canonical",
                        format!("canonical_expiry({h}) = {t}, canonical rolling expiry is {}", model_expiry(h)),
                        json!({"op": "canonical_expiry", "height": h}),
                    );
                }
            }
            c.r.evals(200_000);
            c.r.count("expiry_heights_checked", 200_000);
        }
        Tier::Thorough => {
            // the whole u32 domain, striped over the shards in 2^20 chunks
            let chunk = 1u64 << 20;
            let mut i = shard;
            let mut complete = true;
            while i * chunk < (1u64 << 32) {
                if !c.r.time_left() {
                    complete = false;
                    break;
                }
                expiry_range(c, i * chunk, (i + 1) * chunk);
                i += n;
            }
            if complete {
                c.r.count("expiry_full_domain_stripes_completed", 1);
            } else {
                c.r.inconclusive("full-domain expiry sweep not completed within the budget");
            }
        }
    }
}

// ---------------------------------------------------------------------------------------------
// Delays, cumulative heights, schedules
// ---------------------------------------------------------------------------------------------

fn pick_dist(g: &mut ChaCha20Rng) -> (u32, u32) {
    // (mean, cap) with cap >= mean
    match g.gen_range(0..10) {
        0 => (66, 576),
        1 => (16, 96),
        2 => (1, 1),
        3 => {
            let m = g.gen_range(1..=1000);
            (m, m)
        }
        4 => {
            let m = g.gen_range(1..=1000);
            (m, m + g.gen_range(0..=3))
        }
        5 => (g.gen_range(1..=100_000), M),
        6 => (M, M),
        7 => {
            let m = g.gen_range(1u32..=1 << 31);
            (m, g.gen_range(m..=M))
        }
        8 => {
            // what a custom interval scales the ZIP values to
            let i = g.gen_range(1..=100_000u64);
            let s = |v: u64| ((v * i / 144).clamp(1, M as u64)) as u32;
            if g.r#gen() { (s(66), s(576)) } else { (s(16), s(96)) }
        }
        _ => {
            let m = g.gen_range(1..=5000);
            (m, g.gen_range(m..=m * 12))
        }
    }
}

fn dist(mean: u32, cap: u32) -> DelayDistribution {
    DelayDistribution::new(NonZeroU32::new(mean).unwrap(), NonZeroU32::new(cap).unwrap()).expect("cap >= mean")
}

fn part_delay(c: &mut Ctx, n: u64) {
    let mut i = 0;
    while i < n && c.r.time_left() {
        i += 1;
        let (mean, cap) = pick_dist(&mut c.g);
        // constructor contract: refuses exactly cap < mean
        if i % 64 == 0 {
            let (a, b) = (c.g.gen_range(1..=2000u32), c.g.gen_range(1..=2000u32));
            let d = DelayDistribution::new(NonZeroU32::new(a).unwrap(), NonZeroU32::new(b).unwrap());
            if d.is_some() != (b >= a) {
                c.r.count("model_divergence_delay_constructor", 1);
            }
        }
        let d = dist(mean, cap);
        // a scripted stream whose first words land around the cap boundary
        let s = if i % 3 == 0 {
            let offs = [-1.0, -0.75, -0.25, 0.0, 0.25, 0.45, 0.55, 0.75, 1.0, 2.0, 10.0];
            let k = c.g.gen_range(1..4);
            Stream::Script((0..k).map(|_| word_for_delay(cap as f64 + offs[c.g.gen_range(0..offs.len())], mean as f64)).collect())
        } else {
            pick_stream(&mut c.g)
        };
        let replay = json!({"op": "DelayDistribution::draw", "mean": mean, "cap": cap, "stream": s.describe()});
        match c.run("DelayDistribution::draw", &s, |rng| d.draw(rng)) {
            Outcome::Budget => {}
            Outcome::Panic(p) => c.viol(&format!("delay:panic:{}", panic_class(&p)), p, replay),
            Outcome::Done(v, words) => {
                c.r.case(&("delay", s.kind(), mean.ilog2() / 4, (cap / mean).min(40), words > 1, v == cap, v == 0), true);
                c.r.count("delay_draws", 1);
                if words > 1 {
                    c.r.count("delay_draws_with_rejection", 1);
                }
                if v == cap {
                    c.r.count("delay_draws_equal_to_cap", 1);
                }
                if v > cap {
                    c.viol("delay:above-cap", format!("drew {v} with cap {cap} (mean {mean})"), replay);
                }
                // diagnostic: the documented inverse CDF on the first word, away from rounding ties
                if let Stream::Script(w) = &s {
                    let u = 1.0 - ((w[0] >> 11) as f64) / (1u64 << 53) as f64;
                    let x = -(mean as f64) * u.ln();
                    let frac = (x + 0.5).fract();
                    if frac > 1e-3 && frac < 1.0 - 1e-3 && x < 4.0e9 {
                        let want = (x + 0.5) as u64;
                        if want <= cap as u64 {
                            c.r.count("delay_first_word_predictions", 1);
                            if v as u64 != want || words != 1 {
                                c.r.count("model_divergence_delay_first_word", 1);
                            }
                        }
                    }
                }
            }
        }
    }
}

fn pick_interval(g: &mut ChaCha20Rng) -> u32 {
    match g.gen_range(0..12) {
        0 | 1 => 144,
        2 => [1, 2, 3, 5, 7, 12, 15, 17, 255, 257][g.gen_range(0..10)],
        3 => g.gen_range(1..=1000),
        4 => g.gen_range(1..=100_000),
        5 => [34_560, 65_535, 65_536, 65_537, 1 << 20, (1 << 20) + 1][g.gen_range(0..6)],
        6 => [1 << 30, (1 << 30) + 1, 1 << 31, (1u32 << 31) + 1, M - 1, M, M / 2, M / 3, M / 4, M / 5][g.gen_range(0..10)],
        7 => g.gen_range(1..=M),
        _ => g.gen_range(1..=300),
    }
}

fn pick_height(g: &mut ChaCha20Rng) -> u32 {
    match g.gen_range(0..8) {
        0 => g.gen_range(0..1000),
        1 => M - g.gen_range(0..2000),
        2 => g.r#gen(),
        3 => (g.gen_range(0..=(M as u64 / EXPIRY_MODULUS)) * EXPIRY_MODULUS).saturating_sub(g.gen_range(0..3)).min(M as u64) as u32,
        4 => M - g.gen_range(0..200_000),
        _ => g.gen_range(1_000_000..4_000_000),
    }
}

fn part_heights(c: &mut Ctx, n: u64) {
    let mut i = 0;
    while i < n && c.r.time_left() {
        i += 1;
        let interval = AnchorBucketInterval::custom(NonZeroU32::new(pick_interval(&mut c.g)).unwrap());
        let (params, pclass) = match c.g.gen_range(0..4) {
            0 => (SchedulingParams::ZIP_318, "zip318"),
            1 => (SchedulingParams::new_with_default_distributions(interval), "scaled-defaults"),
            _ => {
                let (m1, c1) = pick_dist(&mut c.g);
                let (m2, c2) = pick_dist(&mut c.g);
                (SchedulingParams::new(interval, dist(m1, c1), dist(m2, c2)), "custom")
            }
        };
        let tcap = params.transfer_delay().cap().get();
        let pcap = params.preparation_delay().cap().get();
        if params.transfer_delay().mean() > params.transfer_delay().cap() || params.preparation_delay().mean() > params.preparation_delay().cap() {
            c.r.count("model_divergence_scaled_cap_below_mean", 1);
        }
        let start = pick_height(&mut c.g);
        let nparts = match c.g.gen_range(0..10) {
            0 => 0,
            1 => 1,
            2 => c.g.gen_range(100..2000),
            _ => c.g.gen_range(2..=64),
        };
        let s = pick_stream(&mut c.g);
        let which = c.g.gen_range(0..3);
        let opname = ["schedule_broadcast_heights", "schedule_prep_broadcast_heights", "schedule"][which];
        let replay = json!({"op": opname, "start": start, "n": nparts, "transfer_delay": [params.transfer_delay().mean().get(), tcap],
            "preparation_delay": [params.preparation_delay().mean().get(), pcap], "stream": s.describe()});
        let out = c.run(opname, &s, |rng| match which {
            0 => (schedule_broadcast_heights(&params, bh(start), nparts, rng).into_iter().map(hu).collect::<Vec<u32>>(), vec![]),
            1 => (schedule_prep_broadcast_heights(&params, bh(start), nparts, rng).into_iter().map(hu).collect::<Vec<u32>>(), vec![]),
            _ => {
                let v = schedule(&params, bh(start), nparts, rng);
                (v.iter().map(|x| hu(x.broadcast_height())).collect(), v.iter().map(|x| hu(x.expiry_height())).collect::<Vec<u32>>())
            }
        });
        match out {
            Outcome::Budget => {}
            Outcome::Panic(p) => c.viol(&format!("{opname}:panic:{}", panic_class(&p)), p, replay),
            Outcome::Done((hs, ex), _) => {
                let cap = if which == 1 { pcap } else { tcap };
                let saturated = hs.last() == Some(&M);
                c.r.case(&("heights", which, s.kind(), pclass, saturated, nparts.min(70) / 8, start > M - 300_000), nparts > 0);
                c.r.count("height_schedules", 1);
                if saturated {
                    c.r.count("height_schedules_saturating", 1);
                }
                if hs.len() != nparts {
                    c.viol(&format!("{opname}:wrong-length"), format!("{} heights for {nparts} parts", hs.len()), replay.clone());
                }
                let mut prev = start;
                for (k, &h) in hs.iter().enumerate() {
                    if h < prev {
                        c.viol(&format!("{opname}:heights-decrease"), format!("height[{k}] = {h} < previous {prev} (start {start})"), replay.clone());
                        break;
                    }
                    // each step is one drawn delay, except where the sum saturates at the maximum height
                    if (h as u64) > prev as u64 + cap as u64 {
                        c.viol(&format!("{opname}:step-above-cap"), format!("height[{k}] = {h} is more than the cap {cap} above {prev}"), replay.clone());
                        break;
                    }
                    prev = h;
                }
                for (k, &e) in ex.iter().enumerate() {
                    if e != model_expiry(hs[k]) {
                        c.viol("schedule:expiry-not-canonical", format!("expiry {e} for broadcast height {}, canonical is {}", hs[k], model_expiry(hs[k])), replay.clone());
                        break;
                    }
                }
                if !ex.is_empty() {
                    c.r.count("schedule_expiries_checked", ex.len() as u64);
                }
            }
        }
    }
}

// ---------------------------------------------------------------------------------------------
// Shuffles
// ---------------------------------------------------------------------------------------------

fn part_shuffle(c: &mut Ctx, n: u64) {
    let mut cells = vec![vec![vec![0u32; 7]; 7]; 7]; // [n][pos][value] for n <= 6 under ChaCha
    let mut trials = [0u32; 7];
    let mut i = 0;
    while i < n && c.r.time_left() {
        i += 1;
        let len = match c.g.gen_range(0..10) {
            0 => c.g.gen_range(0..3),
            1 => c.g.gen_range(65..1500),
            2 | 3 | 4 => c.g.gen_range(2..=6),
            _ => c.g.gen_range(2..=64),
        };
        let s = if len <= 6 && i % 2 == 0 { Stream::ChaCha } else { pick_stream(&mut c.g) };
        let replay = json!({"op": "shuffle", "n": len, "stream": s.describe()});
        if i % 2 == 0 {
            match c.run("shuffle_indices", &s, |rng| shuffle_indices(len, rng)) {
                Outcome::Budget => {}
                Outcome::Panic(p) => c.viol(&format!("shuffle_indices:panic:{}", panic_class(&p)), p, replay),
                Outcome::Done(v, _) => {
                    let mut seen = vec![false; len];
                    let ok = v.len() == len && v.iter().all(|&x| x < len && !std::mem::replace(&mut seen[x], true));
                    c.r.case(&("shuffle_indices", s.kind(), len.min(70)), len >= 2);
                    c.r.count("shuffles", 1);
                    if !ok {
                        c.viol("shuffle_indices:not-a-permutation", format!("{v:?} for n = {len}"), replay);
                    } else if len <= 6 && matches!(s, Stream::ChaCha) {
                        trials[len] += 1;
                        for (p, &x) in v.iter().enumerate() {
                            cells[len][p][x] += 1;
                        }
                    }
                }
            }
        } else {
            let orig: Vec<u32> = (0..len).map(|_| c.g.gen_range(0..8)).collect();
            let mut v = orig.clone();
            match c.run("shuffle_in_place", &s, |rng| {
                shuffle_in_place(&mut v, rng);
            }) {
                Outcome::Budget => {}
                Outcome::Panic(p) => c.viol(&format!("shuffle_in_place:panic:{}", panic_class(&p)), p, replay),
                Outcome::Done((), _) => {
                    let (mut a, mut b) = (orig.clone(), v.clone());
                    a.sort();
                    b.sort();
                    c.r.case(&("shuffle_in_place", s.kind(), len.min(70)), len >= 2);
                    c.r.count("shuffles", 1);
                    if a != b {
                        c.viol("shuffle_in_place:multiset-changed", format!("{orig:?} -> {v:?}"), replay);
                    }
                }
            }
        }
    }
    // smoke test only: every (position, value) cell reachable once there were plenty of trials
    for len in 2..=6 {
        if trials[len] as usize >= 200 * len * len {
            for p in 0..len {
                for x in 0..len {
                    if cells[len][p][x] == 0 {
                        c.r.count("model_divergence_shuffle_cell_unreachable", 1);
                    }
                }
            }
            c.r.count("shuffle_reachability_tables", 1);
        }
    }
}

// ---------------------------------------------------------------------------------------------
// Anchors
// ---------------------------------------------------------------------------------------------

/// Brute-force candidate set: boundaries strictly below the most recent boundary at or below
/// `tip`, within the age cap, strictly above `act`, not before `funding`.
fn anchor_candidates(i: u64, act: u64, funding: u64, tip: u64) -> Vec<u32> {
    let most_recent = tip - tip % i;
    (1..=AGE_CAP)
        .filter_map(|age| {
            let off = age * i;
            if off > most_recent {
                return None;
            }
            let b = most_recent - off;
            (b > act && b >= funding).then_some(b as u32)
        })
        .collect()
}

fn anchor_inputs(g: &mut ChaCha20Rng) -> (u32, u32, u32, u32) {
    let i = pick_interval(g) as u64;
    let m = M as u64;
    // place the activation, then the funding note and the tip relative to the grid
    let act: u64 = match g.gen_range(0..8) {
        0 => 0,
        1 => g.gen_range(0..=m),
        2 => m - g.gen_range(0..=3 * i.min(1000)),
        3 => (g.gen_range(0..=m / i) * i).min(m),                        // exactly on a boundary
        4 => (g.gen_range(0..=m / i) * i).saturating_sub(1),            // just below a boundary
        _ => g.gen_range(0..=(m / 2)),
    };
    let k = |g: &mut ChaCha20Rng| g.gen_range(0..=7u64) * i + [0, 0, 1, i - 1, g.gen_range(0..i)][g.gen_range(0..5)];
    let funding: u64 = match g.gen_range(0..8) {
        0 => 0,
        1 => g.gen_range(0..=m),
        2 => act.saturating_sub(k(g)),
        3 => (act / i + g.gen_range(0..4)) * i, // on a boundary
        _ => act + k(g),
    }
    .min(m);
    let base = act.max(funding);
    let tip: u64 = match g.gen_range(0..10) {
        0 => g.gen_range(0..=m),
        1 => m,
        2 => base.saturating_sub(k(g)),
        3 => ((base / i) + g.gen_range(0..8)) * i, // on a boundary
        4 => (((base / i) + g.gen_range(1..8)) * i).saturating_sub(1),
        _ => base + k(g),
    }
    .min(m);
    (i as u32, act as u32, funding as u32, tip as u32)
}

fn part_anchor(c: &mut Ctx, n: u64) {
    let mut it = 0;
    while it < n && c.r.time_left() {
        it += 1;
        let (i, act, funding, tip) = anchor_inputs(&mut c.g);
        let interval = AnchorBucketInterval::custom(NonZeroU32::new(i).unwrap());
        let set = anchor_candidates(i as u64, act as u64, funding as u64, tip as u64);
        let s = pick_stream(&mut c.g);
        let replay = json!({"op": "draw_anchor_boundary", "interval": i, "nu63_activation": act, "funding_creation_height": funding, "chain_tip_height": tip, "stream": s.describe()});
        match c.run("draw_anchor_boundary", &s, |rng| draw_anchor_boundary(interval, bh(act), bh(funding), bh(tip), rng).map(hu)) {
            Outcome::Budget => {}
            Outcome::Panic(p) => c.viol(&format!("draw_anchor_boundary:panic:{}", panic_class(&p)), p, replay),
            Outcome::Done(res, _) => {
                let most_recent = tip - tip % i;
                c.r.case(
                    &("anchor", s.kind(), set.len(), res.map(|b| (most_recent - b) / i), i.ilog2() / 4, act % i == 0, funding % i == 0, tip % i == 0, tip > M - 3000),
                    true,
                );
                c.r.count("anchor_draws", 1);
                c.r.count(&format!("anchor_draws_candidate_set_size_{}", set.len()), 1);
                check_anchor(c, "draw_anchor_boundary", res, &set, i, most_recent, Some(act), funding, replay);
            }
        }

        // earliest_broadcast_height agrees with the candidate set (where it does not saturate)
        if it % 4 == 0 {
            let m = M as u64;
            let lowest = {
                // smallest boundary strictly above act and not before funding
                let a = (act as u64 / i as u64 + 1) * i as u64;
                let f = (funding as u64).div_ceil(i as u64) * i as u64;
                a.max(f)
            };
            let replay = json!({"op": "earliest_broadcast_height", "interval": i, "nu63_activation": act, "funding_creation_height": funding});
            match guard(|| hu(earliest_broadcast_height(interval, bh(act), bh(funding)))) {
                Err(p) => c.viol(&format!("earliest_broadcast_height:panic:{}", panic_class(&p)), p, replay),
                Ok(e) => {
                    c.r.evals(1);
                    if lowest + i as u64 <= m {
                        c.r.count("earliest_broadcast_heights_checked", 1);
                        let at = anchor_candidates(i as u64, act as u64, funding as u64, e as u64);
                        let before = if e > 0 { anchor_candidates(i as u64, act as u64, funding as u64, e as u64 - 1) } else { vec![] };
                        if at.is_empty() || !before.is_empty() {
                            c.viol(
                                "earliest_broadcast_height:inconsistent-with-candidate-set",
                                format!("earliest = {e}: candidate set at that tip {at:?}, one block earlier {before:?} (first should be non-empty, second empty)"),
                                replay,
                            );
                        }
                    } else {
                        c.r.count("earliest_broadcast_height_saturated_cases", 1);
                    }
                }
            }
        }

        // redraw against a shifted schedule, floored at a prior boundary
        if it % 2 == 0 {
            let prior = if c.g.gen_bool(0.8) { (act as u64 / i as u64 * i as u64).min(M as u64) as u32 } else { act };
            let bcast = tip;
            let most_recent = bcast - bcast % i;
            let set: Vec<u32> = (1..=AGE_CAP)
                .filter_map(|age| {
                    let off = age * i as u64;
                    (off <= most_recent as u64).then(|| most_recent as u64 - off).filter(|b| *b >= prior as u64).map(|b| b as u32)
                })
                .collect();
            let s = pick_stream(&mut c.g);
            let replay = json!({"op": "redraw_anchor_boundary", "interval": i, "prior_boundary": prior, "broadcast_height": bcast, "stream": s.describe()});
            match c.run("redraw_anchor_boundary", &s, |rng| redraw_anchor_boundary(interval, bh(prior), bh(bcast), rng).map(hu)) {
                Outcome::Budget => {}
                Outcome::Panic(p) => c.viol(&format!("redraw_anchor_boundary:panic:{}", panic_class(&p)), p, replay),
                Outcome::Done(res, _) => {
                    c.r.case(&("redraw", s.kind(), set.len(), res.map(|b| (most_recent - b) / i), i.ilog2() / 4, prior % i == 0), true);
                    c.r.count("anchor_redraws", 1);
                    check_anchor(c, "redraw_anchor_boundary", res, &set, i, most_recent, None, prior, replay);
                }
            }
        }
    }
}

#[allow(clippy::too_many_arguments)]
fn check_anchor(c: &mut Ctx, op: &str, res: Option<u32>, set: &[u32], i: u32, most_recent: u32, act: Option<u32>, floor: u32, replay: Value) {
    match res {
        None => {
            if !set.is_empty() {
                c.viol(&format!("{op}:absent-although-candidates-exist"), format!("returned None, candidate boundaries {set:?}"), replay);
            } else {
                c.r.count("anchor_absent_with_empty_candidate_set", 1);
            }
        }
        Some(b) => {
            let why = if b % i != 0 {
                Some("not-a-grid-boundary")
            } else if act.is_some_and(|a| b <= a) {
                Some("not-above-activation")
            } else if b < floor {
                Some("before-funding-note")
            } else if b >= most_recent {
                Some("not-below-most-recent-boundary")
            } else if ((most_recent - b) / i) as u64 > AGE_CAP {
                Some("older-than-age-cap")
            } else if set.is_empty() {
                Some("present-although-no-candidate")
            } else if !set.contains(&b) {
                Some("outside-candidate-set")
            } else {
                None
            };
            if let Some(w) = why {
                c.viol(&format!("{op}:{w}"), format!("returned {b}; most recent boundary {most_recent}, interval {i}, candidates {set:?}"), replay);
            }
        }
    }
}

// ---------------------------------------------------------------------------------------------
// Wake-ups
// ---------------------------------------------------------------------------------------------

#[derive(Clone, Copy, Debug)]
struct Win {
    ready: u64,
    deadline: u64,
}

/// Fewest points hitting every window, bracketed from both sides by enumeration:
/// `upper` = smallest hitting set drawn from the windows' right endpoints (a valid piercing set, so
/// >= the optimum), `lower` = largest pairwise-disjoint subfamily (needs one point each, so <= the
/// optimum). Equal values are therefore exactly the optimum.
fn min_piercing(ws: &[Win]) -> (usize, usize) {
    let n = ws.len();
    if n == 0 {
        return (0, 0);
    }
    let mut upper = n;
    for mask in 1u32..(1 << n) {
        let k = mask.count_ones() as usize;
        if k >= upper {
            continue;
        }
        let hit_all = ws.iter().all(|w| (0..n).any(|j| mask >> j & 1 == 1 && w.ready <= ws[j].deadline && ws[j].deadline <= w.deadline));
        if hit_all {
            upper = k;
        }
    }
    let mut lower = 1;
    for mask in 1u32..(1 << n) {
        let k = mask.count_ones() as usize;
        if k <= lower {
            continue;
        }
        let idx: Vec<usize> = (0..n).filter(|j| mask >> j & 1 == 1).collect();
        let disjoint = idx.iter().all(|&a| idx.iter().all(|&b| a == b || ws[a].deadline < ws[b].ready || ws[b].deadline < ws[a].ready));
        if disjoint {
            lower = k;
        }
    }
    (upper, lower)
}

fn part_wakeups(c: &mut Ctx, n: u64) {
    let mut it = 0;
    while it < n && c.r.time_left() {
        it += 1;
        let g = &mut c.g;
        let nw = match g.gen_range(0..12) {
            0 => 0,
            1 => 1,
            2 => g.gen_range(10..40), // too big for the brute force: structural checks only
            _ => g.gen_range(2..=9),
        };
        let margin: u32 = [0, 1, 2, 5, 10, 10, 10, g.gen_range(0..50), M, g.gen_range(0..400)][g.gen_range(0..10)];
        let jitter: u32 = [0, 0, 1, 3, 12, 12, 100, M, g.gen_range(0..40)][g.gen_range(0..9)];
        let (base, span): (u64, u64) = match g.gen_range(0..6) {
            0 => (0, 30),
            1 => (M as u64 - 40, 38),
            2 => (M as u64 - 2000, 1990),
            3 => (g.gen_range(0..3_000_000), 1000),
            _ => (g.gen_range(0..3_000_000), [12, 25, 60, 200][g.gen_range(0..4)]),
        };
        let interval = [1u64, 2, 3, 5, 12, 144][g.gen_range(0..6)].min(span / 2).max(1);
        let infeasible_ok = g.gen_range(0..12) == 0;
        let mut transfers: Vec<(u32, BlockHeight, BlockHeight)> = vec![];
        for id in 0..nw {
            let a = (base + g.gen_range(0..=span) / interval * interval).min(M as u64 - 2);
            let width = match g.gen_range(0..6) {
                0 => 2,
                1 => 2 + g.gen_range(0..3),
                2 => g.gen_range(2..=span.max(3)),
                _ => g.gen_range(2..=(span / 3).max(3)),
            };
            let mut b = (a + width).min(M as u64);
            if infeasible_ok && g.gen_range(0..4) == 0 {
                b = a + g.gen_range(0..2) - if a > 0 && g.r#gen() { 1 } else { 0 };
            }
            transfers.push((id as u32, bh(a as u32), bh(b as u32)));
        }
        let lo = transfers.iter().map(|t| hu(t.1) as u64).min().unwrap_or(base);
        let hi = transfers.iter().map(|t| hu(t.2) as u64).max().unwrap_or(base + span);
        let tip: u64 = match g.gen_range(0..8) {
            0 => 0,
            1 => lo.saturating_sub(g.gen_range(0..20)),
            2 => hi.saturating_add(g.gen_range(0..5)).min(M as u64),
            3 => M as u64,
            _ => g.gen_range(lo..=hi.max(lo)),
        };
        let s = pick_stream(g);
        let params = WakeupParams::new(margin, jitter);
        let replay = json!({"op": "schedule_sync_wakeups", "settle_margin": margin, "jitter_cap": jitter, "current_tip": tip,
            "transfers": transfers.iter().map(|t| json!([t.0, hu(t.1), hu(t.2)])).collect::<Vec<_>>(), "stream": s.describe()});

        // model windows
        let m1 = margin.max(1) as u64;
        let infeasible: Vec<u32> = transfers.iter().filter(|t| (hu(t.2) as u64) <= hu(t.1) as u64 + 1).map(|t| t.0).collect();
        let mut overdue: Vec<u32> = vec![];
        let mut wins: Vec<(u32, Win)> = vec![];
        if infeasible.is_empty() {
            for t in &transfers {
                let (a, b) = (hu(t.1) as u64, hu(t.2) as u64);
                let deadline = b - 1;
                if deadline < tip {
                    overdue.push(t.0);
                } else {
                    wins.push((t.0, Win { ready: (a + m1).min(deadline).max(tip), deadline }));
                }
            }
        }

        let out = c.run("schedule_sync_wakeups", &s, |rng| {
            schedule_sync_wakeups(&params, bh(tip as u32), &transfers, rng)
                .map(|v| v.iter().map(|w| (hu(w.height()), w.covers().to_vec())).collect::<Vec<_>>())
        });
        let res = match out {
            Outcome::Budget => continue,
            Outcome::Panic(p) => {
                c.viol(&format!("schedule_sync_wakeups:panic:{}", panic_class(&p)), p, replay);
                continue;
            }
            Outcome::Done(r, _) => r,
        };
        c.r.count("wakeup_instances", 1);
        let wakeups = match res {
            Err(WakeupScheduleError::InfeasibleTransfer(id)) => {
                c.r.case(&("wakeups", "infeasible", nw.min(12)), true);
                c.r.count("wakeup_instances_infeasible", 1);
                if !infeasible.contains(&id) {
                    c.viol("schedule_sync_wakeups:spurious-infeasible-error", format!("transfer {id} reported infeasible; infeasible transfers are {infeasible:?}"), replay);
                }
                continue;
            }
            Ok(w) => w,
        };
        if !infeasible.is_empty() {
            c.viol("schedule_sync_wakeups:scheduled-a-transfer-without-a-window", format!("transfers {infeasible:?} have no height between anchor and broadcast, yet a schedule was returned"), replay);
            continue;
        }

        // exactly-once cover
        let mut seen = vec![0u32; nw];
        for (_, cov) in &wakeups {
            for id in cov {
                if (*id as usize) < nw {
                    seen[*id as usize] += 1;
                }
            }
        }
        if seen.iter().any(|&k| k != 1) || wakeups.iter().map(|w| w.1.len()).sum::<usize>() != nw {
            c.viol("schedule_sync_wakeups:not-an-exact-cover", format!("cover multiplicities {seen:?}; wake-ups {wakeups:?}"), replay.clone());
        }
        if wakeups.iter().any(|w| w.1.is_empty()) {
            c.viol("schedule_sync_wakeups:empty-wakeup", format!("{wakeups:?}"), replay.clone());
        }
        // strictly increasing, never in the past
        if wakeups.windows(2).any(|w| w[0].0 >= w[1].0) {
            c.viol("schedule_sync_wakeups:not-strictly-increasing", format!("{:?}", wakeups.iter().map(|w| w.0).collect::<Vec<_>>()), replay.clone());
        }
        if wakeups.iter().any(|w| (w.0 as u64) < tip) {
            c.viol("schedule_sync_wakeups:in-the-past", format!("tip {tip}, wake-ups {:?}", wakeups.iter().map(|w| w.0).collect::<Vec<_>>()), replay.clone());
        }
        // each transfer inside its proving window; overdue ones right now
        for (h, cov) in &wakeups {
            for id in cov {
                if overdue.contains(id) {
                    if *h as u64 != tip {
                        c.viol("schedule_sync_wakeups:overdue-not-immediate", format!("overdue transfer {id} is covered at {h}, tip is {tip}"), replay.clone());
                    }
                } else if let Some((_, w)) = wins.iter().find(|w| w.0 == *id) {
                    if (*h as u64) < w.ready || (*h as u64) > w.deadline {
                        c.viol(
                            "schedule_sync_wakeups:outside-proving-window",
                            format!("transfer {id} is covered at {h}, its proving window is [{}, {}]", w.ready, w.deadline),
                            replay.clone(),
                        );
                    }
                }
            }
        }
        // diagnostic: jitter beyond its cap (documented, not part of the property)
        for (h, cov) in &wakeups {
            let max_ready = cov.iter().filter_map(|id| wins.iter().find(|w| w.0 == *id)).map(|w| w.1.ready).max();
            if let Some(mr) = max_ready {
                if (*h as u64) > mr + jitter as u64 && !cov.iter().any(|id| overdue.contains(id)) {
                    c.r.count("model_divergence_jitter_above_cap", 1);
                }
                if (*h as u64) > mr {
                    c.r.count("wakeups_with_nonzero_jitter", 1);
                }
            }
        }
        // minimality against brute force
        let mut brute = None;
        if nw <= 9 {
            let rest: Vec<Win> = if overdue.is_empty() { wins.iter().map(|w| w.1).collect() } else { wins.iter().map(|w| w.1).filter(|w| !(w.ready <= tip && tip <= w.deadline)).collect() };
            let (upper, lower) = min_piercing(&rest);
            if upper != lower {
                c.r.inconclusive("piercing brute force bounds disagree (harness self-check)");
            } else {
                let want = upper + usize::from(!overdue.is_empty());
                brute = Some(want);
                c.r.count("wakeup_instances_with_brute_force_minimum", 1);
                if want >= 3 {
                    c.r.count("wakeup_instances_minimum_at_least_3", 1);
                }
                if wakeups.len() != want {
                    c.viol(
                        "schedule_sync_wakeups:not-minimal",
                        format!("{} wake-ups, brute-force minimum is {want}; windows {:?} overdue {overdue:?} tip {tip}", wakeups.len(), wins),
                        replay.clone(),
                    );
                }
            }
        }
        if !overdue.is_empty() {
            c.r.count("wakeup_instances_with_overdue", 1);
            if wins.iter().any(|w| w.1.ready == tip) {
                c.r.count("wakeup_instances_overdue_absorbing_open_windows", 1);
            }
        }
        c.r.case(
            &("wakeups", s.kind(), nw.min(12), overdue.len().min(4), wakeups.len().min(10), brute.is_some(), margin.min(11), jitter.min(13), base > M as u64 - 3000),
            nw >= 2,
        );
        if it % 5000 == 1 {
            c.r.sample("wakeups", json!({"inputs": replay, "wakeups": wakeups.iter().map(|w| json!({"height": w.0, "covers": w.1})).collect::<Vec<_>>(), "brute_force_minimum": brute}));
        }
    }
}

// ---------------------------------------------------------------------------------------------
// Grid arithmetic
// ---------------------------------------------------------------------------------------------

fn part_grid(c: &mut Ctx, n: u64) {
    for _ in 0..n {
        let i = pick_interval(&mut c.g);
        let h = match c.g.gen_range(0..4) {
            0 => pick_height(&mut c.g),
            1 => ((c.g.gen_range(0..=(M / i)) as u64 * i as u64) as i64 + c.g.gen_range(-1..=1)).clamp(0, M as i64) as u32,
            2 => M - c.g.gen_range(0..=(i.min(1000))),
            _ => c.g.r#gen(),
        };
        let iv = AnchorBucketInterval::custom(NonZeroU32::new(i).unwrap());
        let (i64_, h64) = (i as u64, h as u64);
        let below = h64 - h64 % i64_;
        let above = (h64.div_ceil(i64_) * i64_).min(M as u64);
        let got = guard(|| (iv.is_boundary(bh(h)), hu(iv.boundary_at_or_below(bh(h))) as u64, hu(iv.boundary_at_or_above(bh(h))) as u64));
        c.r.evals(1);
        c.r.count("grid_roundings_checked", 1);
        match got {
            Ok((isb, b, a)) if isb == (h64 % i64_ == 0) && b == below && a == above => {}
            Ok(other) => c.viol("AnchorBucketInterval:rounding", format!("interval {i}, height {h}: (is_boundary, at_or_below, at_or_above) = {other:?}, expected ({}, {below}, {above})", h64 % i64_ == 0), json!({"op": "grid", "interval": i, "height": h})),
            Err(p) => c.viol(&format!("AnchorBucketInterval:panic:{}", panic_class(&p)), p, json!({"op": "grid", "interval": i, "height": h})),
        }
    }
    c.r.sig(&("grid", "roundings"));
}

// ---------------------------------------------------------------------------------------------
// Classification lattice
// ---------------------------------------------------------------------------------------------

#[derive(Clone)]
struct Consts {
    name: &'static str,
    prep_actions: usize,
    min: u64,
    max: u64,
}
impl PoolMigrationConstants for Consts {
    fn denomination_cap(&self) -> Zatoshis {
        Zatoshis::from_u64(self.max).unwrap()
    }
    fn max_residual_value(&self) -> Zatoshis {
        Zatoshis::from_u64(self.min).unwrap()
    }
    fn preparation_tx_actions(&self) -> usize {
        self.prep_actions
    }
}
struct Defaults;
impl PoolMigrationConstants for Defaults {}

fn on_series_in(v: u64, min: u64, max: u64) -> bool {
    if v < min || v > max || v == 0 {
        return false;
    }
    let mut n = v;
    while n % 10 == 0 {
        n /= 10;
    }
    n == 1 || n == 2 || n == 5
}

#[derive(Clone, Copy, PartialEq, Eq, Debug)]
struct Ev {
    src: Option<usize>,
    dst: Option<usize>,
    other: Option<bool>,
    to_self: Option<bool>,
    value: Option<u64>,
    expiry: Option<bool>,
    anchor: Option<bool>,
    fee: Option<bool>,
}

impl Ev {
    fn real(&self) -> Zip318Evidence {
        Zip318Evidence::default()
            .with_source_actions(self.src)
            .with_destination_actions(self.dst)
            .with_other_bundles_present(self.other)
            .with_source_is_send_to_self(self.to_self)
            .with_sole_destination_value(self.value.map(|v| Zatoshis::from_u64(v).unwrap()))
            .with_expiry_is_canonical(self.expiry)
            .with_anchor_on_grid(self.anchor)
            .with_fee_is_canonical(self.fee)
    }
    fn json(&self) -> Value {
        json!({"source_actions": self.src, "destination_actions": self.dst, "other_bundles_present": self.other,
               "source_is_send_to_self": self.to_self, "sole_destination_value": self.value, "expiry_is_canonical": self.expiry,
               "anchor_on_grid": self.anchor, "fee_is_canonical": self.fee})
    }
    /// Some completion of the unanswered clauses is a preparation transaction: no answered clause
    /// contradicts that shape.
    fn can_prep(&self, k: &Consts) -> bool {
        self.src.is_none_or(|s| s == k.prep_actions)
            && self.dst.is_none_or(|d| d == 0)
            && self.other.is_none_or(|o| !o)
            && self.to_self.is_none_or(|t| t)
            && self.expiry.is_none_or(|e| e)
            && self.anchor.is_none_or(|a| a)
            && self.fee.is_none_or(|f| f)
    }
    fn can_xfer(&self, k: &Consts) -> bool {
        self.src.is_none_or(|s| s == XFER_SRC_ACTIONS)
            && self.dst.is_none_or(|d| d == XFER_DST_ACTIONS)
            && self.other.is_none_or(|o| !o)
            && self.value.is_none_or(|v| on_series_in(v, k.min, k.max))
            && self.expiry.is_none_or(|e| e)
            && self.anchor.is_none_or(|a| a)
            && self.fee.is_none_or(|f| f)
    }
    fn answered(&self) -> u32 {
        [self.src.is_some(), self.dst.is_some(), self.other.is_some(), self.to_self.is_some(), self.value.is_some(), self.expiry.is_some()].iter().filter(|x| **x).count() as u32
    }
    /// knocks out the non-confirmatory clauses selected by `mask`
    fn knock_out(&self, mask: u32) -> Ev {
        let mut e = *self;
        if mask & 1 != 0 {
            e.src = None;
        }
        if mask & 2 != 0 {
            e.dst = None;
        }
        if mask & 4 != 0 {
            e.other = None;
        }
        if mask & 8 != 0 {
            e.to_self = None;
        }
        if mask & 16 != 0 {
            e.value = None;
        }
        if mask & 32 != 0 {
            e.expiry = None;
        }
        e
    }
    fn answered_mask(&self) -> u32 {
        (self.src.is_some() as u32) | (self.dst.is_some() as u32) << 1 | (self.other.is_some() as u32) << 2 | (self.to_self.is_some() as u32) << 3 | (self.value.is_some() as u32) << 4 | (self.expiry.is_some() as u32) << 5
    }
}

fn cname(c: Zip318Classification) -> &'static str {
    match c {
        Zip318Classification::Unknown => "Unknown",
        Zip318Classification::Nonconforming => "Nonconforming",
        Zip318Classification::Conforms(Zip318TxKind::Preparation) => "Conforms(Preparation)",
        Zip318Classification::Conforms(Zip318TxKind::Transfer) => "Conforms(Transfer)",
    }
}

fn do_classify(e: &Ev, k: &Consts) -> Result<Zip318Classification, String> {
    let ev = e.real();
    guard(|| if k.name == "zip318-defaults" { classify(&ev, &Defaults) } else { classify(&ev, k) })
}

fn part_classify(c: &mut Ctx, args: &Args) -> bool {
    let consts = [
        Consts { name: "zip318-defaults", prep_actions: PREP_ACTIONS, min: COIN / 100, max: 10_000 * COIN },
        Consts { name: "overridden-bounds", prep_actions: 8, min: COIN / 10, max: COIN },
    ];
    let opt_b = [None, Some(false), Some(true)];
    let srcs = [None, Some(0), Some(1), Some(2), Some(3), Some(8), Some(15), Some(16), Some(17)];
    let dsts = [None, Some(0), Some(1), Some(2)];
    let values = [
        None,
        Some(0),
        Some(5),                // on the series, below every minimum
        Some(COIN / 100),       // 0.01 ZEC
        Some(COIN),             // 1 ZEC
        Some(3 * COIN),         // off the series
        Some(2 * COIN),         // above the overridden cap
        Some(10_000 * COIN),    // the cap
        Some(20_000 * COIN),    // on the series, above the cap
        Some(COIN + 1),
    ];
    let mut idx = 0u64;
    let mut pairs = 0u64;
    let mut points = 0u64;
    let mut flips = 0u64;
    for k in &consts {
        for &src in &srcs {
            for &dst in &dsts {
                for &other in &opt_b {
                    for &to_self in &opt_b {
                        idx += 1;
                        if idx % args.nshards != args.shard {
                            continue;
                        }
                        if !c.r.time_left() {
                            return false;
                        }
                        for &value in &values {
                            for &expiry in &opt_b {
                                for &anchor in &opt_b {
                                    for &fee in &opt_b {
                                        let e2 = Ev { src, dst, other, to_self, value, expiry, anchor, fee };
                                        points += 1;
                                        let c2 = match do_classify(&e2, k) {
                                            Ok(x) => x,
                                            Err(p) => {
                                                c.viol(&format!("classify:panic:{}", panic_class(&p)), p, json!({"op": "classify", "constants": k.name, "evidence": e2.json()}));
                                                continue;
                                            }
                                        };
                                        c.r.sig(&("classify", k.name, cname(c2), e2.answered(), anchor.is_some(), fee.is_some()));
                                        // nothing is refuted without a negative observation
                                        if c2 == Zip318Classification::Nonconforming && (e2.can_prep(k) || e2.can_xfer(k)) {
                                            c.viol(
                                                "classify:refuted-without-negative-observation",
                                                format!("Nonconforming although no answered clause contradicts the {} shape", if e2.can_prep(k) { "preparation" } else { "transfer" }),
                                                json!({"op": "classify", "constants": k.name, "evidence": e2.json()}),
                                            );
                                        }
                                        // diagnostic: a positive label some answered clause contradicts, or with a required clause missing
                                        let unsupported = match c2 {
                                            Zip318Classification::Conforms(Zip318TxKind::Preparation) => !e2.can_prep(k) || [src.is_none(), dst.is_none(), other.is_none(), to_self.is_none(), expiry.is_none()].iter().any(|x| *x),
                                            Zip318Classification::Conforms(Zip318TxKind::Transfer) => !e2.can_xfer(k) || [src.is_none(), dst.is_none(), other.is_none(), value.is_none(), expiry.is_none()].iter().any(|x| *x),
                                            _ => false,
                                        };
                                        if unsupported {
                                            c.r.count("model_divergence_conforms_unsupported", 1);
                                        }
                                        // monotone: every e1 below e2 (confirmatory clauses held fixed) that is decided agrees with e2
                                        let am = e2.answered_mask();
                                        let mut sub = am;
                                        while sub != 0 {
                                            let e1 = e2.knock_out(sub);
                                            pairs += 1;
                                            if let Ok(c1) = do_classify(&e1, k) {
                                                if c1 != Zip318Classification::Unknown && c1 != c2 {
                                                    c.viol(
                                                        &format!("classify:decision-changed:{}->{}", cname(c1), cname(c2)),
                                                        format!("decided {} on {:?}, then {} once clauses {:#08b} were answered as well", cname(c1), e1, cname(c2), sub),
                                                        json!({"op": "classify-pair", "constants": k.name, "earlier": e1.json(), "later": e2.json()}),
                                                    );
                                                }
                                            }
                                            sub = (sub - 1) & am;
                                        }
                                        // informational: a confirmatory clause arriving later (outside the documented ordering)
                                        if anchor.is_some() || fee.is_some() {
                                            let mut e0 = e2;
                                            e0.anchor = None;
                                            e0.fee = None;
                                            if let Ok(c0) = do_classify(&e0, k) {
                                                if c0 != Zip318Classification::Unknown && c0 != c2 {
                                                    flips += 1;
                                                }
                                            }
                                        }
                                    }
                                }
                            }
                        }
                    }
                }
            }
        }
    }
    c.r.evals(points + pairs);
    c.r.count("classification_lattice_points", points);
    c.r.count("classification_ordered_pairs", pairs);
    c.r.count("decisions_that_flip_if_a_confirmatory_clause_arrives_late", flips);
    true
}

fn part_codes(c: &mut Ctx) {
    let all = [
        Zip318Classification::Unknown,
        Zip318Classification::Nonconforming,
        Zip318Classification::Conforms(Zip318TxKind::Preparation),
        Zip318Classification::Conforms(Zip318TxKind::Transfer),
    ];
    let mut known = vec![];
    for x in all {
        let code = x.to_code();
        known.push(code);
        c.r.evals(1);
        if Zip318Classification::from_code(code) != x {
            c.viol("classification-code:round-trip", format!("from_code(to_code({})) = {:?}", cname(x), Zip318Classification::from_code(code)), json!({"op": "codes", "value": cname(x)}));
        }
    }
    let mut d = known.clone();
    d.sort();
    d.dedup();
    if d.len() != 4 {
        c.viol("classification-code:not-injective", format!("{known:?}"), json!({"op": "codes"}));
    }
    let mut probe: Vec<i64> = (-70_000..=70_000).collect();
    probe.extend([i64::MIN, i64::MIN + 1, i64::MAX, i64::MAX - 1, 1 << 31, 1 << 32, -(1 << 31), 255, 256, 65_536]);
    for _ in 0..100_000 {
        probe.push(c.g.r#gen());
    }
    let mut unknown_codes = 0;
    for code in probe {
        c.r.evals(1);
        if known.contains(&code) {
            continue;
        }
        unknown_codes += 1;
        if Zip318Classification::from_code(code) != Zip318Classification::Unknown {
            c.viol("classification-code:unknown-code-decoded-as-decision", format!("from_code({code}) = {:?}", Zip318Classification::from_code(code)), json!({"op": "codes", "code": code}));
        }
    }
    c.r.count("unrecognised_codes_checked", unknown_codes);
    c.r.sig(&("codes", "round-trip-and-unknown"));
}


// ---------------------------------------------------------------------------------------------
// Wallet-side evidence gatherer (zcash_client_backend::data_api::zip318), driven without a wallet:
// v6 transactions are assembled from generated bundles, "decrypted outputs" are fabricated.
// ---------------------------------------------------------------------------------------------

mod gatherer {
    use super::*;
    use orchard::bundle::{Authorized as OAuth, BundleVersion, Flags};
    use orchard::keys::{FullViewingKey, Scope, SpendingKey};
    use orchard::note::{NoteVersion, RandomSeed, Rho};
    use orchard::value::NoteValue;
    use zcash_client_backend::data_api::zip318::classify_decrypted_tx;
    use zcash_client_backend::{DecryptedOutput, TransferType};
    use zcash_primitives::transaction::components::orchard::testing::arb_bundle;
    use zcash_primitives::transaction::testing::arb_tx;
    use zcash_primitives::transaction::{Transaction, TransactionData};
    use zcash_protocol::consensus::BranchId;
    use zcash_protocol::memo::MemoBytes;
    use zcash_protocol::value::ZatBalance;
    use zcash_protocol::ShieldedPool;

    type OBundle = orchard::Bundle<OAuth, ZatBalance>;
    type Out = DecryptedOutput<(orchard::Note, orchard::ValuePool), u32>;

    fn reversion(b: &OBundle, v: BundleVersion) -> OBundle {
        let mut byte = u8::from(b.flags().spends_enabled()) | (u8::from(b.flags().outputs_enabled()) << 1);
        if v == BundleVersion::ironwood_v3() {
            byte |= 0b100;
        }
        let flags = Flags::from_byte(byte, v).expect("representable flags");
        orchard::Bundle::try_from_parts(b.actions().clone(), flags, *b.value_balance(), *b.anchor(), b.authorization().clone(), v).expect("bundle")
    }

    fn note(g: &mut ChaCha20Rng, value: u64) -> orchard::Note {
        let sk = SpendingKey::from_bytes([7; 32]).unwrap();
        let fvk = FullViewingKey::from(&sk);
        let recipient = fvk.address_at(0u32, Scope::External);
        let rho = loop {
            let b: [u8; 32] = g.r#gen();
            if let Some(r) = Rho::from_bytes(&b).into_option() {
                break r;
            }
        };
        let rseed = loop {
            let b: [u8; 32] = g.r#gen();
            if let Some(r) = RandomSeed::from_bytes(b, &rho).into_option() {
                break r;
            }
        };
        orchard::Note::from_parts(recipient, NoteValue::from_raw(value), rho, rseed, NoteVersion::V2).into_option().expect("note")
    }

    fn out(g: &mut ChaCha20Rng, index: usize, value: u64, ironwood: bool, tt: TransferType) -> Out {
        let (vp, sp) = if ironwood { (orchard::ValuePool::Ironwood, ShieldedPool::Ironwood) } else { (orchard::ValuePool::Orchard, ShieldedPool::Orchard) };
        DecryptedOutput::new(index, (note(g, value), vp), sp, 0u32, MemoBytes::empty(), tt)
    }

    pub fn run(c: &mut Ctx, n_tx: u64) {
        let mut runner = vh_common::proptest_runner(c.r.args().shard_seed(), 1718);
        // pools of source / destination bundles by action count, and of "other" parts
        let mut src: Vec<Option<OBundle>> = vec![None];
        for n in [1usize, 2, 2, 3, 15, 16, 16, 17] {
            if let Some(b) = vh_common::draw(&mut runner, &arb_bundle(n)) {
                src.push(Some(reversion(&b, BundleVersion::orchard_v3())));
            }
        }
        let mut dst: Vec<Option<OBundle>> = vec![None, None];
        for n in [1usize, 1, 1, 2] {
            if let Some(b) = vh_common::draw(&mut runner, &arb_bundle(n)) {
                dst.push(Some(reversion(&b, BundleVersion::ironwood_v3())));
            }
        }
        // donors of transparent / sapling parts
        let mut donors: Vec<TransactionData<zcash_primitives::transaction::Authorized>> = vec![];
        for _ in 0..40 {
            if donors.len() >= 6 {
                break;
            }
            if let Some(tx) = vh_common::draw(&mut runner, &arb_tx(BranchId::Nu6_3)) {
                let d = tx.into_data();
                if d.transparent_bundle().is_some() || d.sapling_bundle().is_some() {
                    donors.push(d);
                }
            }
        }
        if src.len() < 6 || dst.len() < 4 || donors.is_empty() {
            c.r.inconclusive("evidence gatherer: could not generate the bundle pools");
            return;
        }
        let consts = Consts { name: "zip318-defaults", prep_actions: PREP_ACTIONS, min: COIN / 100, max: 10_000 * COIN };
        let values = [COIN / 100, COIN, 2 * COIN, 3 * COIN, 10_000 * COIN, 20_000 * COIN, 5, 0, COIN + 1];
        let tts = [TransferType::AccountInternal, TransferType::Incoming, TransferType::Outgoing, TransferType::WalletInternal];
        let mut i = 0;
        while i < n_tx && c.r.time_left() {
            i += 1;
            let g = &mut c.g;
            let s = src[g.gen_range(0..src.len())].clone();
            let d = dst[g.gen_range(0..dst.len())].clone();
            let donor = if g.gen_bool(0.25) { Some(&donors[g.gen_range(0..donors.len())]) } else { None };
            let expiry: u32 = match g.gen_range(0..6) {
                0 | 1 | 2 => (g.gen_range(2..200u32)) * EXPIRY_MODULUS as u32,
                3 => EXPIRY_MODULUS as u32, // a multiple, but below one whole window
                4 => g.gen_range(2..200u32) * EXPIRY_MODULUS as u32 + g.gen_range(1..EXPIRY_MODULUS as u32),
                _ => [0, 40, 2_000_040][g.gen_range(0..3)],
            };
            let (tb, sb) = match donor {
                Some(dn) => (dn.transparent_bundle().cloned(), dn.sapling_bundle().cloned()),
                None => (None, None),
            };
            let other_truth = tb.as_ref().is_some_and(|b| !b.vin.is_empty() || !b.vout.is_empty()) || sb.as_ref().is_some_and(|b| !b.shielded_spends().is_empty() || !b.shielded_outputs().is_empty());
            let (ns, nd) = (s.as_ref().map_or(0, |b| b.actions().len()), d.as_ref().map_or(0, |b| b.actions().len()));
            let tx: Transaction = match guard(|| TransactionData::from_parts_v6(BranchId::Nu6_3, 0, bh(expiry), tb, sb, s, d).freeze()) {
                Ok(Ok(t)) => t,
                _ => {
                    c.r.inconclusive("evidence gatherer: generated transaction could not be frozen");
                    continue;
                }
            };
            // fabricate what the wallet could decrypt
            let n_o = if ns == 0 { 0 } else { g.gen_range(0..=ns.min(3)) };
            let o_types: Vec<TransferType> = (0..n_o).map(|_| if g.gen_bool(0.75) { TransferType::AccountInternal } else { tts[g.gen_range(0..4)] }).collect();
            let orchard_outs: Vec<Out> = o_types.iter().enumerate().map(|(k, t)| {
                let v = g.gen_range(0..3 * COIN);
                out(g, k, v, false, *t)
            }).collect();
            let n_i = if nd == 0 { 0 } else { g.gen_range(0..=nd.min(2)) };
            let i_vals: Vec<u64> = (0..n_i).map(|_| values[g.gen_range(0..values.len())]).collect();
            let iron_outs: Vec<Out> = i_vals.iter().enumerate().map(|(k, v)| out(g, k, *v, true, TransferType::AccountInternal)).collect();

            // the documented reading of each clause, derived independently from what was put in
            let to_self = o_types.iter().any(|t| *t == TransferType::AccountInternal) && o_types.iter().all(|t| *t == TransferType::AccountInternal);
            let ev = |iv: &[u64]| Ev {
                src: Some(ns),
                dst: Some(nd),
                other: Some(other_truth),
                to_self: Some(to_self),
                value: if iv.len() == 1 { Some(iv[0]) } else { None },
                expiry: Some(expiry as u64 >= EXPIRY_WINDOW && expiry as u64 % EXPIRY_MODULUS == 0),
                anchor: None,
                fee: None,
            };
            let replay = json!({"op": "classify_decrypted_tx", "orchard_actions": ns, "ironwood_actions": nd, "other_bundles": other_truth, "expiry": expiry,
                "decrypted_orchard_transfer_types": o_types.iter().map(|t| format!("{t:?}")).collect::<Vec<_>>(), "decrypted_ironwood_values": i_vals});
            let mut prev: Option<(usize, Zip318Classification)> = None;
            // reveal the destination outputs one by one (none, then the first, ...)
            for reveal in 0..=n_i {
                let e = ev(&i_vals[..reveal]);
                let got = match guard(|| classify_decrypted_tx(&tx, &orchard_outs, &iron_outs[..reveal], &Defaults)) {
                    Ok(x) => x,
                    Err(p) => {
                        c.viol(&format!("evidence-gatherer:panic:{}", panic_class(&p)), p, replay.clone());
                        break;
                    }
                };
                c.r.case(&("gatherer", ns.min(18), nd, other_truth, to_self, e.value.map(|v| on_series_in(v, consts.min, consts.max)), e.expiry, cname(got)), true);
                c.r.count("evidence_gatherer_calls", 1);
                c.r.count(&format!("evidence_gatherer_{}", cname(got).replace(['(', ')'], "_").to_lowercase()), 1);
                if got == Zip318Classification::Nonconforming && (e.can_prep(&consts) || e.can_xfer(&consts)) {
                    c.viol("evidence-gatherer:refuted-without-negative-observation", format!("Nonconforming, but nothing observed contradicts a ZIP 318 shape: {e:?}"), replay.clone());
                }
                // a decision survives the arrival of more decrypted data, as long as the growth is one
                // the information ordering knows (None -> value)
                if let Some((r0, c0)) = prev {
                    let grew = ev(&i_vals[..r0]).value.is_none();
                    if grew && c0 != Zip318Classification::Unknown && c0 != got {
                        c.viol(
                            &format!("evidence-gatherer:decision-changed:{}->{}", cname(c0), cname(got)),
                            format!("{} with {r0} destination outputs decrypted, {} with {reveal}", cname(c0), cname(got)),
                            replay.clone(),
                        );
                    }
                }
                // diagnostic: the label the documented clauses determine
                let want = if e.can_prep(&consts) {
                    Zip318Classification::Conforms(Zip318TxKind::Preparation)
                } else if e.can_xfer(&consts) {
                    if e.value.is_some() { Zip318Classification::Conforms(Zip318TxKind::Transfer) } else { Zip318Classification::Unknown }
                } else {
                    Zip318Classification::Nonconforming
                };
                if want != got {
                    c.r.count("model_divergence_gatherer_label", 1);
                }
                prev = Some((reveal, got));
            }
        }
    }
}

// ---------------------------------------------------------------------------------------------

fn main() {
    vh_common::install_panic_hook();
    let args = Args::parse();
    let mut c = Ctx {
        r: Reporter::new("C17", &args),
        g: vh_common::rng(args.shard_seed(), 17),
        seed_ctr: 0,
        adv_budget: args.get_u64("adv-rng-words", 4_096),
        chacha_budget: args.get_u64("chacha-rng-words", 1_000_000),
    };

    // exhaustive / cheap parts first
    let lattice_done = part_classify(&mut c, &args);
    c.r.set_exhaustive(lattice_done);
    if !lattice_done {
        c.r.inconclusive("classification lattice not completed within the budget");
    }
    if args.shard == 0 {
        part_codes(&mut c);
    }
    let scale = args.get_u64("scale", 1);
    let q = |quick: u64, thorough: u64| scale * args.pick(quick, thorough);
    let t = |c: &Ctx, what: &str| eprintln!("[shard {}] {what} done at {:.1}s", args.shard, c.r.elapsed().as_secs_f64());
    t(&c, "lattice");
    part_grid(&mut c, q(50_000, 2_000_000));
    t(&c, "grid");
    part_delay(&mut c, q(200_000, 1_500_000));
    t(&c, "delay");
    part_heights(&mut c, q(50_000, 300_000));
    t(&c, "heights");
    part_shuffle(&mut c, q(100_000, 600_000));
    t(&c, "shuffle");
    part_anchor(&mut c, q(150_000, 1_200_000));
    t(&c, "anchor");
    part_wakeups(&mut c, q(120_000, 250_000));
    t(&c, "wakeups");
    part_expiry(&mut c, &args);
    t(&c, "expiry");
    gatherer::run(&mut c, q(1_500, 40_000));
    t(&c, "gatherer");
    c.r.finish();
}
