//! C11 — key encodings round-trip and derived addresses belong to their keys.
//!
//! For generated (seed, account, network, diversifier index, receiver request, key-component
//! subset) tuples the real `zcash_keys` / `zcash_transparent` API is compared with **independent
//! derivations**:
//!  * transparent: BIP 32 / BIP 44 re-implemented here from the BIPs (HMAC-SHA512 on top of
//!    `sha2`, curve arithmetic of the `secp256k1` dependency, RIPEMD160(SHA256) for P2PKH);
//!  * Sapling / Orchard: the dependency crates (`sapling-crypto`, `orchard`) called directly on the
//!    seed with the ZIP 32 path written down from the ZIP (m_Sapling/32'/coin'/account', External
//!    scope), i.e. without going through any `zcash_keys` wiring;
//!  * the address request semantics (`Require`/`Allow`/`Omit`, AllAvailableKeys) as a small
//!    model written from the documentation of `ReceiverRequirement`;
//!  * note encryption with `zcash_note_encryption` + the Sapling / Orchard / Ironwood domains: a note
//!    sent to a derived address decrypts under the IVK of the matching scope only, and under no IVK
//!    of another account or seed;
//!  * UFVK / UIVK / UA strings are additionally re-parsed by `lib/pyref/zip316.py` (event log) and
//!    must contain exactly the independently derived key bytes.

use std::collections::BTreeSet;

use sha2::{Digest, Sha256, Sha512};
use vh_common::rand::{Rng, RngCore};
use vh_common::rand_chacha::ChaCha20Rng;
use vh_common::{Args, Reporter, Value, guard, hexs, json, panic_class};

use zcash_address::unified::{self, Container, Encoding};
use zcash_keys::address::{Address, UnifiedAddress};
use zcash_keys::encoding as enc;
use zcash_keys::keys::transparent::Key as TKey;
use zcash_keys::keys::transparent::gap_limits::{GapLimits, generate_address_list};
use zcash_keys::keys::{
    Era, ReceiverRequirement, UnifiedAddressRequest, UnifiedFullViewingKey, UnifiedIncomingViewingKey,
    UnifiedSpendingKey,
};
use zcash_note_encryption::{Domain, EphemeralKeyBytes, try_compact_note_decryption};
use zcash_protocol::consensus::{BlockHeight, NetworkConstants, NetworkType, NetworkUpgrade, Parameters};
use zcash_transparent::address::TransparentAddress;
use zcash_transparent::keys::{
    AccountPrivKey, AccountPubKey, ExternalIvk, IncomingViewingKey, NonHardenedChildIndex, TransparentKeyScope,
};
use zip32::{AccountId, DiversifierIndex, Scope};

use ReceiverRequirement::{Allow, Omit, Require};

const NETS: [NetworkType; 3] = [NetworkType::Main, NetworkType::Test, NetworkType::Regtest];

#[derive(Clone, Copy, Debug)]
struct P(NetworkType);
impl Parameters for P {
    fn network_type(&self) -> NetworkType {
        self.0
    }
    fn activation_height(&self, _nu: NetworkUpgrade) -> Option<BlockHeight> {
        None
    }
}

fn net_name(n: NetworkType) -> &'static str {
    match n {
        NetworkType::Main => "main",
        NetworkType::Test => "test",
        NetworkType::Regtest => "regtest",
    }
}

/// SLIP 44 coin types (ZIP 32: 133 on mainnet, 1 on every test network).
fn coin_type(n: NetworkType) -> u32 {
    match n {
        NetworkType::Main => 133,
        _ => 1,
    }
}

// ------------------------------------------------------------------------------------------------
// Independent BIP 32 (from the BIP; secp256k1 only for curve arithmetic)
// ------------------------------------------------------------------------------------------------

fn hmac_sha512(key: &[u8], data: &[u8]) -> [u8; 64] {
    let mut k = [0u8; 128];
    if key.len() > 128 {
        k[..64].copy_from_slice(&Sha512::digest(key));
    } else {
        k[..key.len()].copy_from_slice(key);
    }
    let mut inner = Sha512::new();
    inner.update(k.map(|b| b ^ 0x36));
    inner.update(data);
    let ih = inner.finalize();
    let mut outer = Sha512::new();
    outer.update(k.map(|b| b ^ 0x5c));
    outer.update(ih);
    outer.finalize().into()
}

fn hash160(d: &[u8]) -> [u8; 20] {
    ripemd::Ripemd160::digest(Sha256::digest(d)).into()
}

#[derive(Clone)]
struct XPrv {
    key: secp256k1::SecretKey,
    chain: [u8; 32],
    depth: u8,
    parent_fp: [u8; 4],
    child: u32,
}

#[derive(Clone)]
struct XPub {
    key: secp256k1::PublicKey,
    chain: [u8; 32],
}

const HARD: u32 = 1 << 31;

impl XPrv {
    fn master(seed: &[u8]) -> Option<Self> {
        let i = hmac_sha512(b"Bitcoin seed", seed);
        Some(XPrv {
            key: secp256k1::SecretKey::from_slice(&i[..32]).ok()?,
            chain: i[32..].try_into().unwrap(),
            depth: 0,
            parent_fp: [0; 4],
            child: 0,
        })
    }
    fn public(&self) -> secp256k1::PublicKey {
        secp256k1::PublicKey::from_secret_key(&secp256k1::Secp256k1::signing_only(), &self.key)
    }
    fn ckd(&self, i: u32) -> Option<Self> {
        let mut data = Vec::with_capacity(37);
        if i >= HARD {
            data.push(0);
            data.extend_from_slice(&self.key.secret_bytes());
        } else {
            data.extend_from_slice(&self.public().serialize());
        }
        data.extend_from_slice(&i.to_be_bytes());
        let ii = hmac_sha512(&self.chain, &data);
        let tweak = secp256k1::Scalar::from_be_bytes(ii[..32].try_into().unwrap()).ok()?;
        Some(XPrv {
            key: self.key.add_tweak(&tweak).ok()?,
            chain: ii[32..].try_into().unwrap(),
            depth: self.depth + 1,
            parent_fp: hash160(&self.public().serialize())[..4].try_into().unwrap(),
            child: i,
        })
    }
    fn xpub(&self) -> XPub {
        XPub { key: self.public(), chain: self.chain }
    }
    /// BIP 32 serialization without the 4 version bytes.
    fn ser_no_version(&self) -> Vec<u8> {
        let mut v = vec![self.depth];
        v.extend_from_slice(&self.parent_fp);
        v.extend_from_slice(&self.child.to_be_bytes());
        v.extend_from_slice(&self.chain);
        v.push(0);
        v.extend_from_slice(&self.key.secret_bytes());
        v
    }
}

impl XPub {
    fn ckd(&self, i: u32) -> Option<Self> {
        assert!(i < HARD);
        let mut data = self.key.serialize().to_vec();
        data.extend_from_slice(&i.to_be_bytes());
        let ii = hmac_sha512(&self.chain, &data);
        let tweak = secp256k1::Scalar::from_be_bytes(ii[..32].try_into().unwrap()).ok()?;
        Some(XPub {
            key: self.key.add_exp_tweak(&secp256k1::Secp256k1::verification_only(), &tweak).ok()?,
            chain: ii[32..].try_into().unwrap(),
        })
    }
    /// chain code || compressed public key: the ZIP 316 transparent FVK / IVK item.
    fn ser65(&self) -> Vec<u8> {
        let mut v = self.chain.to_vec();
        v.extend_from_slice(&self.key.serialize());
        v
    }
    fn p2pkh(&self) -> [u8; 20] {
        hash160(&self.key.serialize())
    }
}

// ------------------------------------------------------------------------------------------------
// Independent per-account key material
// ------------------------------------------------------------------------------------------------

struct Indep {
    t_acct: XPrv,
    s_extsk: sapling::zip32::ExtendedSpendingKey,
    s_dfvk: sapling::zip32::DiversifiableFullViewingKey,
    o_sk: orchard::keys::SpendingKey,
    o_fvk: orchard::keys::FullViewingKey,
}

impl Indep {
    fn derive(net: NetworkType, seed: &[u8], account: u32) -> Option<Self> {
        let coin = coin_type(net);
        let t_acct = XPrv::master(seed)?.ckd(44 | HARD)?.ckd(coin | HARD)?.ckd(account | HARD)?;
        let s_extsk = sapling::zip32::ExtendedSpendingKey::from_path(
            &sapling::zip32::ExtendedSpendingKey::master(seed),
            &[zip32::ChildIndex::hardened(32), zip32::ChildIndex::hardened(coin), zip32::ChildIndex::hardened(account)],
        );
        let s_dfvk = s_extsk.to_diversifiable_full_viewing_key();
        let o_sk = orchard::keys::SpendingKey::from_zip32_seed(seed, coin, AccountId::try_from(account).ok()?).ok()?;
        let o_fvk = orchard::keys::FullViewingKey::from(&o_sk);
        Some(Indep { t_acct, s_extsk, s_dfvk, o_sk, o_fvk })
    }
    fn t_fvk_item(&self) -> Vec<u8> {
        self.t_acct.xpub().ser65()
    }
    fn t_ivk_item(&self) -> Option<Vec<u8>> {
        Some(self.t_acct.xpub().ckd(0)?.ser65())
    }
    fn t_addr(&self, scope: u32, idx: u32) -> Option<[u8; 20]> {
        Some(self.t_acct.xpub().ckd(scope)?.ckd(idx)?.p2pkh())
    }
    fn sapling_addr(&self, j: DiversifierIndex) -> Option<[u8; 43]> {
        self.s_dfvk.address(j).map(|a| a.to_bytes())
    }
    fn orchard_addr(&self, j: DiversifierIndex) -> [u8; 43] {
        self.o_fvk
            .address_at(orchard::keys::DiversifierIndex::from(*j.as_bytes()), orchard::keys::Scope::External)
            .to_raw_address_bytes()
    }
}

/// Which components a viewing key holds.
#[derive(Clone, Copy, Debug, PartialEq, Eq, Hash)]
struct Subset {
    t: bool,
    s: bool,
    o: bool,
}
const SUBSETS: [Subset; 6] = [
    Subset { t: true, s: true, o: true },
    Subset { t: false, s: true, o: true },
    Subset { t: true, s: true, o: false },
    Subset { t: true, s: false, o: true },
    Subset { t: false, s: true, o: false },
    Subset { t: false, s: false, o: true },
];

fn req_name(r: ReceiverRequirement) -> &'static str {
    match r {
        Require => "Require",
        Allow => "Allow",
        Omit => "Omit",
    }
}

/// The documented request semantics: which receivers the address must contain, or failure.
/// (orchard, sapling, p2pkh) requirement triple; `avail_*`: receiver derivable at this index.
fn model_address(
    k: Subset,
    req: Option<(ReceiverRequirement, ReceiverRequirement, ReceiverRequirement)>,
    o: Option<[u8; 43]>,
    s: Option<[u8; 43]>,
    t: Option<[u8; 20]>,
) -> Result<Vec<(u32, Vec<u8>)>, &'static str> {
    let (ro, rs, rt) = match req {
        Some(r) => r,
        None => {
            // AllAvailableKeys: every item of the key is required
            if !k.o && !k.s {
                return Err("no-shielded-key");
            }
            (if k.o { Require } else { Omit }, if k.s { Require } else { Omit }, if k.t { Require } else { Omit })
        }
    };
    let pick = |r: ReceiverRequirement, has_key: bool, v: Option<Vec<u8>>, what: &'static str| match r {
        Omit => Ok(None),
        Require if !has_key => Err(what),
        Require => v.map(Some).ok_or(what),
        Allow => Ok(if has_key { v } else { None }),
    };
    let oo = pick(ro, k.o, o.map(|x| x.to_vec()), "orchard-required")?;
    let ss = pick(rs, k.s, s.map(|x| x.to_vec()), "sapling-required")?;
    let tt = pick(rt, k.t, t.map(|x| x.to_vec()), "transparent-required")?;
    if oo.is_none() && ss.is_none() {
        return Err("no-shielded-receiver");
    }
    let mut items = vec![];
    if let Some(t) = tt {
        items.push((0u32, t));
    }
    if let Some(s) = ss {
        items.push((2, s));
    }
    if let Some(o) = oo {
        items.push((3, o));
    }
    Ok(items)
}

fn ua_items(ua: &UnifiedAddress) -> Vec<(u32, Vec<u8>)> {
    let mut items: Vec<(u32, Vec<u8>)> = vec![];
    match ua.transparent() {
        Some(TransparentAddress::PublicKeyHash(h)) => items.push((0, h.to_vec())),
        Some(TransparentAddress::ScriptHash(h)) => items.push((1, h.to_vec())),
        None => {}
    }
    if let Some(s) = ua.sapling() {
        items.push((2, s.to_bytes().to_vec()));
    }
    if let Some(o) = ua.orchard() {
        items.push((3, o.to_raw_address_bytes().to_vec()));
    }
    items.extend(ua.unknown().iter().cloned());
    items
}

fn items_json(items: &[(u32, Vec<u8>)]) -> Value {
    Value::Array(items.iter().map(|(t, d)| json!([t, hexs(d)])).collect())
}

struct Ctx {
    r: Reporter,
    rng: ChaCha20Rng,
    events_left: u64,
    /// time spent per check family (diagnostic, lands in the counters as max_ms_*)
    spent: std::collections::BTreeMap<&'static str, std::time::Duration>,
}

impl Ctx {
    fn viol(&mut self, class: &str, detail: String, replay: &Value) {
        self.r.violation(&format!("C11:{class}"), detail, replay.clone());
    }
    fn ev(&mut self, v: Value) {
        if self.events_left > 0 && self.r.has_events() {
            self.events_left -= 1;
            self.r.event(&v);
        }
    }
    /// Runs a check closure; a panic inside the code under test becomes a violation of class `op`.
    fn run<T>(&mut self, op: &str, replay: &Value, f: impl FnOnce() -> T) -> Option<T> {
        match guard(f) {
            Ok(v) => Some(v),
            Err(p) => {
                self.viol(&format!("{op}:panic:{}", panic_class(&p)), format!("panicked: {p}"), replay);
                None
            }
        }
    }
    fn arb_j(&mut self) -> DiversifierIndex {
        let mut b = [0u8; 11];
        match self.rng.gen_range(0..12) {
            0 => {}
            1 => b[0] = self.rng.gen_range(0..8),
            2..=4 => b[..4].copy_from_slice(&self.rng.gen_range(0..HARD).to_le_bytes()),
            5 => b[..4].copy_from_slice(&(HARD - 1 - self.rng.gen_range(0..3)).to_le_bytes()),
            6 => b[..4].copy_from_slice(&(HARD + self.rng.gen_range(0..3)).to_le_bytes()), // invalid for transparent
            7 => b[..4].copy_from_slice(&u32::MAX.to_le_bytes()),
            8 => {
                b[4] = 1; // 2^32: low four bytes zero, not a transparent index
            }
            9 => {
                b = [0xff; 11];
                b[0] = 0xff - self.rng.gen_range(0..4); // top of the 88-bit space
            }
            _ => self.rng.fill_bytes(&mut b),
        }
        DiversifierIndex::from(b)
    }
}

/// An index every receiver type can in principle use (search from here terminates quickly).
fn small_j(c: &mut Ctx) -> DiversifierIndex {
    DiversifierIndex::from(c.rng.gen_range(0..HARD - 1000))
}

fn j_u128(j: DiversifierIndex) -> u128 {
    u128::from(j)
}

// ------------------------------------------------------------------------------------------------
// Note encryption probes
// ------------------------------------------------------------------------------------------------

struct SaplingOut {
    epk: EphemeralKeyBytes,
    cmu: [u8; 32],
    enc: [u8; 52],
}
impl zcash_note_encryption::ShieldedOutput<sapling::note_encryption::SaplingDomain, 52> for SaplingOut {
    fn ephemeral_key(&self) -> EphemeralKeyBytes {
        self.epk.clone()
    }
    fn cmstar_bytes(&self) -> [u8; 32] {
        self.cmu
    }
    fn enc_ciphertext(&self) -> &[u8; 52] {
        &self.enc
    }
}

fn sapling_encrypt(rng: &mut ChaCha20Rng, to: &sapling::PaymentAddress, value: u64) -> SaplingOut {
    let mut rseed = [0u8; 32];
    rng.fill_bytes(&mut rseed);
    let note = to.create_note(sapling::value::NoteValue::from_raw(value), sapling::Rseed::AfterZip212(rseed));
    let cmu = note.cmu().to_bytes();
    let ne = sapling::note_encryption::sapling_note_encryption(None, note, [0x5a; 512], rng);
    let epk = sapling::note_encryption::SaplingDomain::epk_bytes(ne.epk());
    let full = ne.encrypt_note_plaintext();
    SaplingOut { epk, cmu, enc: full[..52].try_into().unwrap() }
}

fn sapling_decrypts(ivk: &sapling::SaplingIvk, out: &SaplingOut, want: &sapling::PaymentAddress, value: u64) -> bool {
    let p = sapling::keys::PreparedIncomingViewingKey::new(ivk);
    sapling_decrypts_prepared(&p, out, want, value)
}

fn sapling_decrypts_prepared(
    p: &sapling::keys::PreparedIncomingViewingKey,
    out: &SaplingOut,
    want: &sapling::PaymentAddress,
    value: u64,
) -> bool {
    match sapling::note_encryption::try_sapling_compact_note_decryption(p, out, sapling::note_encryption::Zip212Enforcement::On) {
        Some((note, addr)) => &addr == want && note.value().inner() == value,
        None => false,
    }
}

fn orchard_compact<V: orchard::note_encryption::DomainVersion>(
    rng: &mut ChaCha20Rng,
    to: orchard::Address,
    value: u64,
    version: orchard::NoteVersion,
) -> orchard::note_encryption::CompactAction {
    use orchard::note::{ExtractedNoteCommitment, Nullifier, RandomSeed, Rho};
    loop {
        let mut nf = [0u8; 32];
        rng.fill_bytes(&mut nf);
        nf[31] &= 0x3f;
        let (Some(nullifier), Some(rho)) = (Option::from(Nullifier::from_bytes(&nf)), Option::from(Rho::from_bytes(&nf))) else {
            continue;
        };
        let nullifier: Nullifier = nullifier;
        let rho: Rho = rho;
        let mut rs = [0u8; 32];
        rng.fill_bytes(&mut rs);
        let Some(rseed) = Option::<RandomSeed>::from(RandomSeed::from_bytes(rs, &rho)) else {
            continue;
        };
        let Some(note) = Option::<orchard::Note>::from(orchard::Note::from_parts(
            to,
            orchard::value::NoteValue::from_raw(value),
            rho,
            rseed,
            version,
        )) else {
            continue;
        };
        let ne = zcash_note_encryption::NoteEncryption::<orchard::note_encryption::NoteEncryptionDomain<V>>::new(None, note, [0x5a; 512]);
        let cmx = ExtractedNoteCommitment::from(note.commitment());
        let epk = orchard::note_encryption::NoteEncryptionDomain::<V>::epk_bytes(ne.epk());
        let full = ne.encrypt_note_plaintext();
        return orchard::note_encryption::CompactAction::from_parts(nullifier, cmx, epk, full[..52].try_into().unwrap());
    }
}

fn orchard_decrypts<V: orchard::note_encryption::DomainVersion>(
    ivk: &orchard::keys::IncomingViewingKey,
    act: &orchard::note_encryption::CompactAction,
    want: &orchard::Address,
    value: u64,
) -> bool {
    let d = orchard::note_encryption::NoteEncryptionDomain::<V>::for_compact_action(act);
    match try_compact_note_decryption(&d, &ivk.prepare(), act) {
        Some((note, addr)) => &addr == want && note.value().inner() == value,
        None => false,
    }
}

// ------------------------------------------------------------------------------------------------
// One tuple
// ------------------------------------------------------------------------------------------------

struct Acct {
    net: NetworkType,
    seed: Vec<u8>,
    account: u32,
    usk: UnifiedSpendingKey,
    ind: Indep,
}

fn gen_account(c: &mut Ctx, net: NetworkType) -> Option<Acct> {
    // ZIP 32 allows 32..=252 bytes; the transparent (BIP 32) component is derived by the `bip32`
    // dependency, which only takes 16/32/64-byte seeds, so other lengths are legitimately refused
    let len = match c.rng.gen_range(0..20) {
        0 => 252,
        1 => c.rng.gen_range(33..=252),
        2..=9 => 64,
        _ => 32,
    };
    let mut seed = vec![0u8; len];
    match c.rng.gen_range(0..20) {
        0 => {}
        1 => seed.iter_mut().enumerate().for_each(|(i, b)| *b = i as u8),
        _ => c.rng.fill_bytes(&mut seed),
    }
    let account = match c.rng.gen_range(0..8) {
        0 => 0,
        1 => 1,
        2 => HARD - 1,
        3 => c.rng.gen_range(0..10),
        _ => c.rng.gen_range(0..HARD),
    };
    let replay = json!({"net": net_name(net), "seed": hexs(&seed), "account": account});
    let aid = AccountId::try_from(account).unwrap();
    let usk = c.run("usk-from-seed", &replay, || UnifiedSpendingKey::from_seed(&P(net), &seed, aid))?;
    let ind = Indep::derive(net, &seed, account);
    match (usk, ind) {
        (Ok(usk), Some(ind)) => Some(Acct { net, seed, account, usk, ind }),
        (Err(_), None) => {
            c.r.inconclusive("seed-yields-no-valid-key");
            None
        }
        (Ok(_), None) => {
            c.viol("usk-from-seed:derived-where-reference-fails", "from_seed succeeded, independent derivation has no key".into(), &replay);
            None
        }
        (Err(_), Some(_)) if len != 32 && len != 64 => {
            // not a statement of the property: no key, nothing to round-trip
            c.r.count("diag_seed_length_refused_by_bip32_dependency", 1);
            None
        }
        (Err(e), Some(_)) => {
            c.viol("usk-from-seed:refused", format!("from_seed failed ({e:?}) where the independent derivation succeeds"), &replay);
            None
        }
    }
}

fn acct_replay(a: &Acct) -> Value {
    json!({"net": net_name(a.net), "seed": hexs(&a.seed), "account": a.account})
}

/// Spending key level: components equal the independent derivation; USK bytes round-trip.
fn check_usk(c: &mut Ctx, a: &Acct) {
    let rp = acct_replay(a);
    let usk = &a.usk;
    c.r.case(&("usk", net_name(a.net), a.seed.len() / 32, a.account == 0, a.account == HARD - 1), true);
    // components
    if usk.sapling().to_bytes() != a.ind.s_extsk.to_bytes() {
        c.viol("usk-component-differs:sapling", "Sapling ExtSK differs from ZIP 32 m/32'/coin'/account'".into(), &rp);
    }
    if usk.orchard().to_bytes() != a.ind.o_sk.to_bytes() {
        c.viol("usk-component-differs:orchard", "Orchard SK differs from ZIP 32 derivation".into(), &rp);
    }
    let tb = usk.transparent().to_bytes();
    if tb != a.ind.t_acct.ser_no_version() {
        c.viol(
            "usk-component-differs:transparent",
            format!("AccountPrivKey bytes {} differ from BIP 44 m/44'/coin'/account' {}", hexs(&tb), hexs(&a.ind.t_acct.ser_no_version())),
            &rp,
        );
    }
    // USK binary encoding
    let Some(bytes) = c.run("usk-to-bytes", &rp, || usk.to_bytes(Era::Orchard)) else { return };
    // content (the statement fixes no item order): era id = NU5 branch id (LE32), then
    // (typecode, length, data) items that hold exactly the three independently derived keys
    let mut want_items: Vec<(u8, Vec<u8>)> = vec![
        (0, a.ind.t_acct.ser_no_version()),
        (2, a.ind.s_extsk.to_bytes().to_vec()),
        (3, a.ind.o_sk.to_bytes().to_vec()),
    ];
    let mut got_items: Vec<(u8, Vec<u8>)> = vec![];
    let mut pos = 4;
    let mut well_formed = bytes.len() >= 4 && bytes[..4] == 0xc2d6_d0b4u32.to_le_bytes();
    while well_formed && pos < bytes.len() {
        // all typecodes and lengths here are below 0xfd: one-byte compactSize
        if pos + 2 > bytes.len() || pos + 2 + bytes[pos + 1] as usize > bytes.len() || bytes[pos + 1] >= 0xfd {
            well_formed = false;
            break;
        }
        got_items.push((bytes[pos], bytes[pos + 2..pos + 2 + bytes[pos + 1] as usize].to_vec()));
        pos += 2 + bytes[pos + 1] as usize;
    }
    got_items.sort();
    want_items.sort();
    if !well_formed || got_items != want_items {
        c.viol(
            "usk-bytes-content",
            format!("to_bytes = {} does not hold exactly the era id and the three derived keys", hexs(&bytes)),
            &rp,
        );
    }
    // canonical order as produced (used below to build a permutation)
    let want = bytes.clone();
    match c.run("usk-from-bytes", &rp, || UnifiedSpendingKey::from_bytes(Era::Orchard, &bytes)) {
        Some(Ok(back)) => {
            let again = back.to_bytes(Era::Orchard);
            if again != bytes {
                c.viol("usk-bytes-roundtrip", "from_bytes(to_bytes(k)).to_bytes() differs".into(), &rp);
            }
            // derives the same addresses
            let j = small_j(c);
            let x = usk.to_unified_full_viewing_key().find_address(j, UnifiedAddressRequest::AllAvailableKeys).ok();
            let y = back.to_unified_full_viewing_key().find_address(j, UnifiedAddressRequest::AllAvailableKeys).ok();
            if x.is_none() || x != y {
                c.viol("usk-bytes-roundtrip:addresses-differ", format!("{x:?} vs {y:?}"), &rp);
            }
            c.r.count("usk_bytes_roundtrips", 1);
        }
        Some(Err(e)) => c.viol("usk-bytes-roundtrip:rejected", format!("from_bytes(to_bytes(k)) = {e:?}"), &rp),
        None => {}
    }
    // items in another order decode to the same key and re-encode to the canonical bytes
    let mut perm = want[..4].to_vec();
    for (t, d) in got_items.iter().rev() {
        perm.push(*t);
        perm.push(d.len() as u8);
        perm.extend_from_slice(d);
    }
    if let Some(Ok(k)) = c.run("usk-from-bytes", &rp, || UnifiedSpendingKey::from_bytes(Era::Orchard, &perm)) {
        if k.to_bytes(Era::Orchard) != want {
            c.viol("usk-bytes-roundtrip:permuted-items", "permuted item order decodes to a different key".into(), &rp);
        }
        c.r.count("usk_permuted_item_order_decoded", 1);
    }
    // malformed encodings: diagnostics only (the statement says nothing about them)
    for cut in [0usize, 3, 4, 5, 6, 37, 38, 100, bytes.len() - 1] {
        if guard(|| UnifiedSpendingKey::from_bytes(Era::Orchard, &bytes[..cut]).is_ok()).unwrap_or(true) {
            c.r.count("diag_usk_from_truncated_bytes_not_refused", 1);
        }
    }
}

/// Builds the (ufvk, uivk) pair holding a subset of the account's components.
fn subset_keys(a: &Acct, k: Subset) -> Option<(UnifiedFullViewingKey, UnifiedIncomingViewingKey)> {
    let full = a.usk.to_unified_full_viewing_key();
    let ufvk = if k == SUBSETS[0] {
        full
    } else {
        UnifiedFullViewingKey::new(
            if k.t { full.transparent().cloned() } else { None },
            if k.s { full.sapling().cloned() } else { None },
            if k.o { full.orchard().cloned() } else { None },
        )
        .ok()?
    };
    let uivk = ufvk.to_unified_incoming_viewing_key();
    Some((ufvk, uivk))
}

fn fvk_items(a: &Acct, k: Subset) -> Vec<(u32, Vec<u8>)> {
    let mut v = vec![];
    if k.t {
        v.push((0u32, a.ind.t_fvk_item()));
    }
    if k.s {
        v.push((2, a.ind.s_dfvk.to_bytes().to_vec()));
    }
    if k.o {
        v.push((3, a.ind.o_fvk.to_bytes().to_vec()));
    }
    v
}

fn ivk_items(a: &Acct, k: Subset) -> Vec<(u32, Vec<u8>)> {
    let mut v = vec![];
    if k.t {
        v.push((0u32, a.ind.t_ivk_item().expect("external chain key")));
    }
    if k.s {
        // (dk, ivk) of the External scope
        v.push((2, a.ind.s_dfvk.to_external_ivk().to_bytes().to_vec()));
    }
    if k.o {
        v.push((3, a.ind.o_fvk.to_ivk(orchard::keys::Scope::External).to_bytes().to_vec()));
    }
    v
}

fn parsed_fvk_items(u: &unified::Ufvk) -> Vec<(u32, Vec<u8>)> {
    u.items_as_parsed()
        .iter()
        .map(|i| match i {
            unified::Fvk::P2pkh(d) => (0, d.to_vec()),
            unified::Fvk::Sapling(d) => (2, d.to_vec()),
            unified::Fvk::Orchard(d) => (3, d.to_vec()),
            unified::Fvk::Unknown { typecode, data } => (*typecode, data.clone()),
        })
        .collect()
}
fn parsed_ivk_items(u: &unified::Uivk) -> Vec<(u32, Vec<u8>)> {
    u.items_as_parsed()
        .iter()
        .map(|i| match i {
            unified::Ivk::P2pkh(d) => (0, d.to_vec()),
            unified::Ivk::Sapling(d) => (2, d.to_vec()),
            unified::Ivk::Orchard(d) => (3, d.to_vec()),
            unified::Ivk::Unknown { typecode, data } => (*typecode, data.clone()),
        })
        .collect()
}

/// Viewing-key level: encodings round-trip, contain the independently derived bytes, refuse the
/// wrong network.
fn check_viewing_keys(c: &mut Ctx, a: &Acct, k: Subset, ufvk: &UnifiedFullViewingKey, uivk: &UnifiedIncomingViewingKey) {
    let mut rp = acct_replay(a);
    rp["subset"] = json!({"t": k.t, "s": k.s, "o": k.o});
    let p = P(a.net);
    c.r.case(&("viewing-keys", net_name(a.net), k), true);

    // ---- UFVK
    if let Some(s) = c.run("ufvk-encode", &rp, || ufvk.encode(&p)) {
        let want = fvk_items(a, k);
        match c.run("ufvk-decode", &rp, || (unified::Ufvk::decode(&s), UnifiedFullViewingKey::decode(&p, &s))) {
            Some((Ok((n, raw)), Ok(back))) => {
                if n != a.net || parsed_fvk_items(&raw) != want {
                    c.viol(
                        "ufvk-content-differs",
                        format!("UFVK string holds {:?} {}, independent derivation gives {}", n, items_json(&parsed_fvk_items(&raw)), items_json(&want)),
                        &rp,
                    );
                }
                if back.encode(&p) != s {
                    c.viol("ufvk-encoding-not-stable", "decode(encode(k)).encode() differs".into(), &rp);
                }
                let j = small_j(c);
                let (x, y) = (ufvk.find_address(j, UnifiedAddressRequest::AllAvailableKeys).ok(), back.find_address(j, UnifiedAddressRequest::AllAvailableKeys).ok());
                if x.is_none() || x != y {
                    c.viol("ufvk-decoded-key-derives-other-addresses", format!("{x:?} vs {y:?}"), &rp);
                }
                if back.to_unified_incoming_viewing_key() != *uivk {
                    c.viol("ufvk-decoded-key-derives-other-uivk", "decode(encode(ufvk)).to_uivk() != ufvk.to_uivk()".into(), &rp);
                }
                c.r.count("ufvk_roundtrips", 1);
            }
            Some(other) => c.viol("ufvk-own-encoding-rejected", format!("{:?}", (other.0.map(|_| ()), other.1.map(|_| ()))), &rp),
            None => {}
        }
        for other in NETS {
            if other != a.net && guard(|| UnifiedFullViewingKey::decode(&P(other), &s).is_ok()) != Ok(false) {
                c.viol("ufvk-wrong-network-accepted", format!("string for {:?} decoded under {other:?}", a.net), &rp);
            }
        }
        c.ev(json!({"k": "cont", "kind": "ufvk", "s": s, "net": net_name(a.net), "items": items_json(&want)}));
        c.r.sample(&format!("ufvk:{}{}{}", k.t as u8, k.s as u8, k.o as u8), json!({"ufvk": s, "account": a.account, "net": net_name(a.net)}));
    }

    // ---- UIVK
    if let Some(s) = c.run("uivk-encode", &rp, || uivk.encode(&p)) {
        let want = ivk_items(a, k);
        match c.run("uivk-decode", &rp, || (unified::Uivk::decode(&s), UnifiedIncomingViewingKey::decode(&p, &s))) {
            Some((Ok((n, raw)), Ok(back))) => {
                if n != a.net || parsed_ivk_items(&raw) != want {
                    c.viol(
                        "uivk-content-differs",
                        format!("UIVK string holds {:?} {}, independent derivation (External scope) gives {}", n, items_json(&parsed_ivk_items(&raw)), items_json(&want)),
                        &rp,
                    );
                }
                if back.encode(&p) != s {
                    c.viol("uivk-encoding-not-stable", "decode(encode(k)).encode() differs".into(), &rp);
                }
                if back != *uivk {
                    // `==` compares BIP 32 metadata (parent fingerprint) that the encoding does not carry;
                    // the statement asks for equal bytes and equal addresses, not for `==`
                    c.r.count("diag_uivk_not_eq_after_roundtrip", 1);
                }
                let j = small_j(c);
                let (x, y) = (uivk.find_address(j, UnifiedAddressRequest::AllAvailableKeys).ok(), back.find_address(j, UnifiedAddressRequest::AllAvailableKeys).ok());
                if x.is_none() || x != y {
                    c.viol("uivk-decoded-key-derives-other-addresses", format!("{x:?} vs {y:?}"), &rp);
                }
                c.r.count("uivk_roundtrips", 1);
            }
            Some(other) => c.viol("uivk-own-encoding-rejected", format!("{:?}", (other.0.map(|_| ()), other.1.map(|_| ()))), &rp),
            None => {}
        }
        for other in NETS {
            if other != a.net && guard(|| UnifiedIncomingViewingKey::decode(&P(other), &s).is_ok()) != Ok(false) {
                c.viol("uivk-wrong-network-accepted", format!("string for {:?} decoded under {other:?}", a.net), &rp);
            }
        }
        c.ev(json!({"k": "cont", "kind": "uivk", "s": s, "net": net_name(a.net), "items": items_json(&want)}));
    }
    // presence flags
    if uivk.has_transparent() != k.t || uivk.has_sapling() != k.s || uivk.has_orchard() != k.o {
        c.viol("uivk-component-flags", format!("{:?} vs {k:?}", (uivk.has_transparent(), uivk.has_sapling(), uivk.has_orchard())), &rp);
    }
}

const REQS: [ReceiverRequirement; 3] = [Require, Allow, Omit];

/// Address level: every level derives the address the independent derivation + request model predict.
#[allow(clippy::too_many_arguments)]
fn check_addresses(
    c: &mut Ctx,
    a: &Acct,
    k: Subset,
    ufvk: &UnifiedFullViewingKey,
    uivk: &UnifiedIncomingViewingKey,
    j: DiversifierIndex,
    req: Option<(ReceiverRequirement, ReceiverRequirement, ReceiverRequirement)>,
) -> Option<UnifiedAddress> {
    let mut rp = acct_replay(a);
    rp["subset"] = json!({"t": k.t, "s": k.s, "o": k.o});
    rp["j"] = json!(j_u128(j).to_string());
    rp["request"] = match req {
        None => json!("AllAvailableKeys"),
        Some((o, s, t)) => json!({"orchard": req_name(o), "sapling": req_name(s), "p2pkh": req_name(t)}),
    };
    // request construction: `custom` refuses exactly the requests with no shielded receiver
    let request = match req {
        None => UnifiedAddressRequest::AllAvailableKeys,
        Some((o, s, t)) => {
            let r = guard(|| UnifiedAddressRequest::custom(o, s, t));
            match (r, o == Omit && s == Omit) {
                (Ok(Ok(r)), false) => r,
                (Ok(Err(_)), true) => {
                    c.r.count("requests_without_shielded_refused", 1);
                    return None;
                }
                (other, _) => {
                    c.viol("request-construction", format!("custom({o:?},{s:?},{t:?}) = {:?}", other.map(|r| r.map(|_| ()))), &rp);
                    return None;
                }
            }
        }
    };
    let t_idx = u32::try_from(j_u128(j)).ok().filter(|i| *i < HARD);
    let avail_t = t_idx.and_then(|i| a.ind.t_addr(0, i));
    let avail_s = a.ind.sapling_addr(j);
    let avail_o = Some(a.ind.orchard_addr(j));
    let want = model_address(k, req, avail_o, avail_s, avail_t);
    let jclass = (avail_s.is_some(), t_idx.is_some());
    c.r.case(&("address", k, req.map(|(o, s, t)| (req_name(o), req_name(s), req_name(t))), jclass, want.is_ok()), true);
    if avail_s.is_none() {
        c.r.count("indices_invalid_for_sapling", 1);
    }
    if t_idx.is_none() {
        c.r.count("indices_invalid_for_transparent", 1);
    }

    let got_i = c.run("uivk-address", &rp, || uivk.address(j, request))?;
    let got_f = c.run("ufvk-address", &rp, || ufvk.address(j, request))?;
    let as_items = |r: &Result<UnifiedAddress, _>| r.as_ref().ok().map(ua_items);
    let (gi, gf): (Option<Vec<(u32, Vec<u8>)>>, Option<Vec<(u32, Vec<u8>)>>) =
        (as_items(&got_i.as_ref().map(|x| x.clone()).map_err(|_| ())), as_items(&got_f.as_ref().map(|x| x.clone()).map_err(|_| ())));
    if gi != gf {
        c.viol("address-differs-between-levels", format!("uivk: {gi:?}, ufvk: {gf:?}"), &rp);
    }
    match (&gi, &want) {
        (Some(items), Ok(w)) if items == w => {
            c.r.count("addresses_matching_model", 1);
        }
        (None, Err(_)) => {
            c.r.count("address_requests_refused_as_modelled", 1);
        }
        (Some(items), Ok(w)) => {
            let which: Vec<String> = [0u32, 2, 3]
                .iter()
                .filter(|t| items.iter().find(|(x, _)| x == *t) != w.iter().find(|(x, _)| x == *t))
                .map(|t| ["p2pkh", "", "sapling", "orchard"][*t as usize].to_string())
                .collect();
            c.viol(
                &format!("address-receivers-differ:{}", which.join("+")),
                format!("address(j, request) = {}, expected (independent derivation + request model) {}", items_json(items), items_json(w)),
                &rp,
            );
        }
        (Some(items), Err(why)) => c.viol(
            &format!("address-generated-where-request-unsatisfiable:{why}"),
            format!("address(j, request) = {}, but the request cannot be satisfied ({why})", items_json(items)),
            &rp,
        ),
        (None, Ok(w)) => c.viol(
            "address-refused-where-request-satisfiable",
            format!("address(j, request) failed with {:?}; expected {}", got_i.as_ref().err(), items_json(w)),
            &rp,
        ),
    }
    // the top level commutes too (full subset only: the USK has all components)
    if k == SUBSETS[0] && req.is_none() {
        let top = c.run("usk-default-address", &rp, || a.usk.default_address(request));
        let via = ufvk.default_address(request).ok();
        if top.as_ref().map(|(u, jj)| (ua_items(u), *jj)) != via.as_ref().map(|(u, jj)| (ua_items(u), *jj)) {
            c.viol("default-address-differs-between-levels", format!("{top:?} vs {via:?}"), &rp);
        }
    }

    // find_address: the first index >= j at which the request can be satisfied
    if c.rng.gen_bool(0.5) {
        if let Some(found) = c.run("find-address", &rp, || uivk.find_address(j, request)) {
            match found {
                Ok((ua, jj)) => {
                    let mut ok = jj >= j;
                    // nothing satisfiable was skipped (bounded look-back) and the hit is what address() gives
                    let mut probe = j;
                    let mut steps = 0;
                    while ok && probe < jj && steps < 64 {
                        let t_i = u32::try_from(j_u128(probe)).ok().filter(|i| *i < HARD);
                        let m = model_address(k, req, Some(a.ind.orchard_addr(probe)), a.ind.sapling_addr(probe), t_i.and_then(|i| a.ind.t_addr(0, i)));
                        if m.is_ok() {
                            ok = false;
                        }
                        if probe.increment().is_err() {
                            break;
                        }
                        steps += 1;
                    }
                    let t_i = u32::try_from(j_u128(jj)).ok().filter(|i| *i < HARD);
                    let m = model_address(k, req, Some(a.ind.orchard_addr(jj)), a.ind.sapling_addr(jj), t_i.and_then(|i| a.ind.t_addr(0, i)));
                    if !ok || m.as_ref().ok() != Some(&ua_items(&ua)) {
                        c.viol("find-address-wrong", format!("find_address(j) = ({}, {}), model at that index {m:?}", items_json(&ua_items(&ua)), j_u128(jj)), &rp);
                    }
                    c.r.count("find_address_hits", 1);
                    if jj != j {
                        c.r.count("find_address_skipped_invalid_sapling_indices", 1);
                    }
                }
                Err(_) => {
                    if want.is_ok() {
                        c.viol("find-address-refused", "find_address failed although the start index satisfies the request".into(), &rp);
                    }
                }
            }
        }
    }

    let ua = got_i.ok()?;
    // the key recognises its address and recovers the index
    if let Some(set) = c.run("decrypt-diversifiers", &rp, || uivk.decrypt_diversifiers(&ua)) {
        let want_set: BTreeSet<DiversifierIndex> = [j].into_iter().collect();
        if set != want_set {
            c.viol("decrypt-diversifiers-wrong", format!("recovered {:?}, derived at {}", set.iter().map(|x| j_u128(*x)).collect::<Vec<_>>(), j_u128(j)), &rp);
        }
        c.r.count("diversifier_indices_recovered", 1);
    }
    // string form
    let p = P(a.net);
    if let Some(s) = c.run("ua-encode", &rp, || ua.encode(&p)) {
        match guard(|| Address::decode(&p, &s)) {
            Ok(Some(Address::Unified(back))) if back == ua => {}
            other => c.viol("ua-string-roundtrip", format!("{other:?}"), &rp),
        }
        if let Ok(w) = &want {
            c.ev(json!({"k": "enc", "s": s, "want": {"kind": "unified", "net": net_name(a.net), "items": items_json(w)}}));
        }
        c.r.sample(&format!("ua:{}{}{}", k.t as u8, k.s as u8, k.o as u8), json!({"ua": s, "j": j_u128(j).to_string(), "request": rp["request"]}));
    }
    Some(ua)
}

/// A note sent to the derived address decrypts under the matching IVK and scope only.
fn check_notes(c: &mut Ctx, a: &Acct, other: &Acct, uivk: &UnifiedIncomingViewingKey, ua: &UnifiedAddress, j: DiversifierIndex) {
    let mut rp = acct_replay(a);
    rp["j"] = json!(j_u128(j).to_string());
    rp["other_account"] = acct_replay(other);
    let value = c.rng.gen_range(0..21_000_000_0000_0000u64);
    c.r.case(&("notes", ua.sapling().is_some(), ua.orchard().is_some()), true);
    let mut rng = vh_common::rng(c.rng.next_u64(), 1111);

    if let (Some(addr), Some(ivk)) = (ua.sapling(), uivk.sapling().as_ref()) {
        let out = sapling_encrypt(&mut rng, addr, value);
        let r = guard(|| {
            let via_uivk = sapling_decrypts_prepared(&ivk.prepare(), &out, addr, value);
            let ext = sapling_decrypts(&a.ind.s_dfvk.to_ivk(Scope::External), &out, addr, value);
            let int = sapling_decrypts(&a.ind.s_dfvk.to_ivk(Scope::Internal), &out, addr, value);
            let foreign = [Scope::External, Scope::Internal].iter().any(|s| sapling_decrypts(&other.ind.s_dfvk.to_ivk(*s), &out, addr, value))
                || other.usk.to_unified_full_viewing_key().to_unified_incoming_viewing_key().sapling().as_ref().map(|i| sapling_decrypts_prepared(&i.prepare(), &out, addr, value)) == Some(true);
            (via_uivk, ext, int, foreign)
        });
        match r {
            Ok((true, true, false, false)) => c.r.count("sapling_notes_decrypted_by_matching_scope_only", 1),
            Ok((u, e, i, f)) => c.viol(
                "note-decryption:sapling-external",
                format!("note to the derived Sapling receiver: decrypts under uivk {u}, external ivk {e}, internal ivk {i}, unrelated key {f}"),
                &rp,
            ),
            Err(p) => c.viol(&format!("note-decryption:sapling:panic:{}", panic_class(&p)), p, &rp),
        }
        // the internal (change) address of the same account: internal scope only, not the UIVK
        let (_, change) = a.ind.s_dfvk.change_address();
        let out = sapling_encrypt(&mut rng, &change, value);
        let via_uivk = sapling_decrypts_prepared(&ivk.prepare(), &out, &change, value);
        let int = sapling_decrypts(&a.ind.s_dfvk.to_ivk(Scope::Internal), &out, &change, value);
        if via_uivk || !int {
            c.viol("note-decryption:sapling-internal", format!("note to the change address: decrypts under uivk {via_uivk}, internal ivk {int}"), &rp);
        } else {
            c.r.count("sapling_internal_notes_hidden_from_uivk", 1);
        }
    }

    if let (Some(addr), Some(ivk)) = (ua.orchard(), uivk.orchard().as_ref()) {
        use orchard::keys::Scope as OS;
        use orchard::note_encryption::{IronwoodVersion, OrchardVersion};
        fn probe<V: orchard::note_encryption::DomainVersion>(
            rng: &mut ChaCha20Rng,
            version: orchard::NoteVersion,
            a: &Acct,
            other: &Acct,
            ivk: &orchard::keys::IncomingViewingKey,
            addr: &orchard::Address,
            value: u64,
        ) -> (bool, bool, bool, bool, bool, bool) {
            let act = orchard_compact::<V>(rng, *addr, value, version);
            let via_uivk = orchard_decrypts::<V>(ivk, &act, addr, value);
            let ext = orchard_decrypts::<V>(&a.ind.o_fvk.to_ivk(OS::External), &act, addr, value);
            let int = orchard_decrypts::<V>(&a.ind.o_fvk.to_ivk(OS::Internal), &act, addr, value);
            let foreign = [OS::External, OS::Internal].iter().any(|s| orchard_decrypts::<V>(&other.ind.o_fvk.to_ivk(*s), &act, addr, value));
            // internal address of the same account
            let change = a.ind.o_fvk.address_at(0u32, OS::Internal);
            let act2 = orchard_compact::<V>(rng, change, value, version);
            let change_via_uivk = orchard_decrypts::<V>(ivk, &act2, &change, value);
            let change_int = orchard_decrypts::<V>(&a.ind.o_fvk.to_ivk(OS::Internal), &act2, &change, value);
            (via_uivk, ext, int, foreign, change_via_uivk, change_int)
        }
        for (name, r) in [
            ("orchard", guard(|| probe::<OrchardVersion>(&mut rng.clone(), orchard::NoteVersion::V2, a, other, ivk, addr, value))),
            ("ironwood", guard(|| probe::<IronwoodVersion>(&mut rng.clone(), orchard::NoteVersion::V3, a, other, ivk, addr, value))),
        ] {
            match r {
                Ok((true, true, false, false, false, true)) => c.r.count(&format!("{name}_notes_decrypted_by_matching_scope_only"), 1),
                Ok(t) => c.viol(
                    &format!("note-decryption:{name}"),
                    format!("(uivk, external, internal, unrelated, change-under-uivk, change-under-internal) = {t:?}, expected (true, true, false, false, false, true)"),
                    &rp,
                ),
                Err(p) => c.viol(&format!("note-decryption:{name}:panic:{}", panic_class(&p)), p, &rp),
            }
        }
    }
}

/// BIP 44 derivations at every scope, through every public entry point.
fn check_transparent(c: &mut Ctx, a: &Acct) {
    let rp0 = acct_replay(a);
    let apk: &AccountPrivKey = a.usk.transparent();
    let apub: AccountPubKey = apk.to_account_pubkey();
    let ufvk = a.usk.to_unified_full_viewing_key();
    let uivk = ufvk.to_unified_incoming_viewing_key();
    // key encodings
    match guard(|| AccountPrivKey::from_bytes(&apk.to_bytes()).map(|k| k.to_bytes())) {
        Ok(Some(b)) if b == apk.to_bytes() => c.r.count("account_privkey_roundtrips", 1),
        other => c.viol("account-privkey-bytes-roundtrip", format!("{:?}", other.map(|o| o.map(|b| hexs(&b)))), &rp0),
    }
    let ser = apub.serialize();
    if ser != a.ind.t_fvk_item() {
        c.viol("account-pubkey-serialization", format!("{} vs independent {}", hexs(&ser), hexs(&a.ind.t_fvk_item())), &rp0);
    }
    match guard(|| AccountPubKey::deserialize(ser.as_slice().try_into().unwrap()).map(|k| (k.serialize(), k == apub))) {
        Ok(Ok((b, true))) if b == ser => {}
        other => c.viol("account-pubkey-roundtrip", format!("{:?}", other.map(|o| o.map(|(b, e)| (hexs(&b), e)))), &rp0),
    }
    if let Ok(Ok(eivk)) = guard(|| apub.derive_external_ivk()) {
        let s = eivk.serialize();
        let back = guard(|| {
            ExternalIvk::deserialize(s.as_slice().try_into().unwrap())
                .map(|k| (k.serialize(), k.derive_address(NonHardenedChildIndex::ZERO).ok() == eivk.derive_address(NonHardenedChildIndex::ZERO).ok()))
        });
        if Some(&s) != a.ind.t_ivk_item().as_ref() || !matches!(&back, Ok(Ok((b, true))) if b == &s) {
            c.viol("external-ivk-serialization", format!("{} vs independent {:?}; roundtrip {:?}", hexs(&s), a.ind.t_ivk_item().map(|x| hexs(&x)), back.map(|b| b.map(|(x, e)| (hexs(&x), e)))), &rp0);
        }
    }

    for _ in 0..4 {
        let scope = c.rng.gen_range(0..3u32);
        let idx = match c.rng.gen_range(0..6) {
            0 => 0,
            1 => HARD - 1,
            2 => c.rng.gen_range(0..30),
            _ => c.rng.gen_range(0..HARD),
        };
        let mut rp = rp0.clone();
        rp["scope"] = json!(scope);
        rp["index"] = json!(idx);
        c.r.case(&("bip44", scope, idx == 0, idx == HARD - 1, net_name(a.net)), true);
        let Some(child) = a.ind.t_acct.ckd(scope).and_then(|k| k.ckd(idx)) else {
            c.r.inconclusive("bip32-invalid-child");
            continue;
        };
        let want_sk = child.key.secret_bytes();
        let want_pk = child.public().serialize();
        let want_addr = hash160(&want_pk);
        // cross-check of the reference itself: public derivation == private derivation
        if a.ind.t_addr(scope, idx) != Some(want_addr) {
            c.r.inconclusive("reference-bip32-private-public-mismatch");
            continue;
        }
        let tscope = match scope {
            0 => TransparentKeyScope::EXTERNAL,
            1 => TransparentKeyScope::INTERNAL,
            _ => TransparentKeyScope::EPHEMERAL,
        };
        let nidx = NonHardenedChildIndex::from_index(idx).unwrap();
        let got = guard(|| {
            let sk = apk.derive_secret_key(tscope, nidx).ok().map(|k| k.secret_bytes());
            let sk2 = match scope {
                0 => apk.derive_external_secret_key(nidx).ok().map(|k| k.secret_bytes()),
                1 => apk.derive_internal_secret_key(nidx).ok().map(|k| k.secret_bytes()),
                _ => sk,
            };
            let pk = apub.derive_address_pubkey(tscope, nidx).ok().map(|k| k.serialize());
            let addr = match scope {
                0 => apub.derive_external_ivk().and_then(|k| k.derive_address(nidx)).ok(),
                1 => apub.derive_internal_ivk().and_then(|k| k.derive_address(nidx)).ok(),
                _ => apub.derive_ephemeral_ivk().and_then(|k| k.derive_ephemeral_address(nidx)).ok(),
            };
            let path = [
                bip32::ChildNumber::new(44, true).unwrap(),
                bip32::ChildNumber::new(coin_type(a.net), true).unwrap(),
                bip32::ChildNumber::new(a.account, true).unwrap(),
                bip32::ChildNumber::new(scope, false).unwrap(),
                bip32::ChildNumber::new(idx, false).unwrap(),
            ];
            let via_path = apub
                .derive_pubkey_at_bip32_path(&P(a.net), AccountId::try_from(a.account).unwrap(), &path)
                .ok()
                .map(|k| k.serialize());
            (sk, sk2, pk, addr, via_path)
        });
        match got {
            Ok((sk, sk2, pk, addr, via_path)) => {
                let sname = ["external", "internal", "ephemeral"][scope as usize];
                if sk != Some(want_sk) || sk2 != Some(want_sk) {
                    c.viol(&format!("bip44-secret-key-differs:{sname}"), format!("m/44'/{}'/{}'/{scope}/{idx}", coin_type(a.net), a.account), &rp);
                }
                if pk != Some(want_pk) || via_path != Some(want_pk) {
                    c.viol(&format!("bip44-public-key-differs:{sname}"), format!("derive_address_pubkey {:?}, at path {:?}, independent {}", pk.map(|p| hexs(&p)), via_path.map(|p| hexs(&p)), hexs(&want_pk)), &rp);
                }
                if addr != Some(TransparentAddress::PublicKeyHash(want_addr)) {
                    c.viol(&format!("bip44-address-differs:{sname}"), format!("{addr:?} vs independent P2PKH {}", hexs(&want_addr)), &rp);
                }
                c.r.count(&format!("bip44_derivations_{sname}"), 1);
            }
            Err(p) => c.viol(&format!("bip44:panic:{}", panic_class(&p)), p, &rp),
        }
        // paths whose PREFIX is not m/44'/coin'/account' for this account must be refused: a key returned
        // for such a path would be attributed to a path it does not belong to
        {
            let good = [(44u32, true), (coin_type(a.net), true), (a.account, true), (scope, false), (idx, false)];
            let mut bad_paths: Vec<(String, Vec<(u32, bool)>)> = vec![];
            for i in 0..5 {
                let mut v = good.to_vec();
                v[i].1 = !v[i].1;
                bad_paths.push((format!("hardened-bit-flipped:component-{i}"), v));
            }
            for (i, delta) in [(0usize, 1u32), (1, 1), (2, 1)] {
                let mut v = good.to_vec();
                v[i].0 = v[i].0.wrapping_add(delta) & 0x7fff_ffff;
                bad_paths.push((format!("wrong-value:component-{i}"), v));
            }
            // (the sub-path below the account is deliberately free: other scopes, shorter and longer
            // paths are derived as asked - only the account prefix is enforced)
            bad_paths.push(("prefix-only-two-components".into(), good[..2].to_vec()));
            for (why, comps) in bad_paths {
                let path: Vec<bip32::ChildNumber> = comps.iter().filter_map(|(n, h)| bip32::ChildNumber::new(*n, *h).ok()).collect();
                if path.len() != comps.len() {
                    continue;
                }
                c.r.count("bip32_malformed_paths_checked", 1);
                match guard(|| apub.derive_pubkey_at_bip32_path(&P(a.net), AccountId::try_from(a.account).unwrap(), &path).ok().map(|k| k.serialize())) {
                    Ok(None) => {}
                    Ok(Some(k)) => c.viol(&format!("bip32-path-accepted:{why}"), format!("derive_pubkey_at_bip32_path accepted {comps:?} for account {} and returned {}", a.account, hexs(&k)), &rp),
                    Err(p) => c.viol(&format!("bip32-path:panic:{}", panic_class(&p)), p, &rp),
                }
            }
        }
        // gap-limit address lists: every generated address is the independent one for its index
        let end = NonHardenedChildIndex::from_index(idx).unwrap().saturating_add(GapLimits::default().limit_for(tscope).unwrap_or(3).min(4));
        let req = [UnifiedAddressRequest::AllAvailableKeys, UnifiedAddressRequest::ALLOW_ALL, UnifiedAddressRequest::unsafe_custom(Omit, Require, Require)][c.rng.gen_range(0..3)];
        if let Ok(Ok(list)) = guard(|| generate_address_list(&uivk, Some(&ufvk), tscope, req, nidx..end, true)) {
            if end.index() == idx {
                // an empty range: `NonHardenedChildRange` yields its start anyway (not part of the statement)
                if !list.is_empty() {
                    c.r.count("diag_empty_child_range_yields_start", 1);
                }
            } else if list.len() as u32 != end.index() - idx {
                c.viol("gap-address-list-length", format!("{} entries for {idx}..{}", list.len(), end.index()), &rp);
            }
            for (addr, taddr, i) in list {
                let want = a.ind.t_addr(scope, i.index()).map(TransparentAddress::PublicKeyHash);
                let contains = match &addr {
                    Address::Unified(ua) => ua.transparent() == Some(&taddr) && scope == 0,
                    Address::Transparent(t) => t == &taddr,
                    _ => false,
                };
                if Some(taddr) != want || !contains {
                    c.viol("gap-address-list-entry", format!("index {}: {taddr:?} / {addr:?}, independent {want:?}", i.index()), &rp);
                }
                if let (Address::Unified(ua), 0) = (&addr, scope) {
                    // the shielded receivers sit at the same diversifier index
                    let jj = DiversifierIndex::from(i.index());
                    if ua.sapling().map(|s| s.to_bytes()) != a.ind.sapling_addr(jj).filter(|_| ua.sapling().is_some())
                        || ua.orchard().map(|o| o.to_raw_address_bytes()) != Some(a.ind.orchard_addr(jj)).filter(|_| ua.orchard().is_some())
                    {
                        c.viol("gap-address-list-shielded-receivers", format!("index {}", i.index()), &rp);
                    }
                }
                c.r.count("gap_list_addresses_checked", 1);
            }
        }
    }
}

/// Legacy Sapling / transparent encodings.
fn check_legacy(c: &mut Ctx, a: &Acct) {
    let rp = acct_replay(a);
    let p = P(a.net);
    c.r.case(&("legacy", net_name(a.net)), true);
    let extsk = a.usk.sapling();
    let hrp_sk = p.hrp_sapling_extended_spending_key();
    let hrp_fvk = p.hrp_sapling_extended_full_viewing_key();
    let hrp_pa = p.hrp_sapling_payment_address();
    let other_net = NETS[(NETS.iter().position(|n| *n == a.net).unwrap() + 1) % 3];
    // HRPs written down from the protocol spec / ZIP 32
    let (w_sk, w_fvk, w_pa, w_wif) = match a.net {
        NetworkType::Main => ("secret-extended-key-main", "zxviews", "zs", 0x80u8),
        NetworkType::Test => ("secret-extended-key-test", "zxviewtestsapling", "ztestsapling", 0xef),
        NetworkType::Regtest => ("secret-extended-key-regtest", "zxviewregtestsapling", "zregtestsapling", 0xef),
    };
    if (hrp_sk, hrp_fvk, hrp_pa) != (w_sk, w_fvk, w_pa) {
        c.viol("legacy-hrp-constants", format!("{:?}", (hrp_sk, hrp_fvk, hrp_pa)), &rp);
    }

    // ExtSK
    if let Some(s) = c.run("extsk-encode", &rp, || enc::encode_extended_spending_key(hrp_sk, extsk)) {
        match guard(|| enc::decode_extended_spending_key(hrp_sk, &s)) {
            Ok(Ok(back)) if back.to_bytes() == extsk.to_bytes() && enc::encode_extended_spending_key(hrp_sk, &back) == s => {
                c.r.count("legacy_extsk_roundtrips", 1)
            }
            other => c.viol("extsk-roundtrip", format!("{:?}", other.map(|r| r.map(|_| ()))), &rp),
        }
        if guard(|| enc::decode_extended_spending_key(P(other_net).hrp_sapling_extended_spending_key(), &s).is_ok()) != Ok(false) {
            c.viol("extsk-wrong-network-accepted", format!("{:?} key decoded with the {other_net:?} prefix", a.net), &rp);
        }
        c.ev(json!({"k": "b32", "s": s, "hrp": w_sk, "variant": "bech32", "data": hexs(&a.ind.s_extsk.to_bytes())}));
    }
    // ExtFVK
    #[allow(deprecated)]
    let extfvk = extsk.to_extended_full_viewing_key();
    if let Some(s) = c.run("extfvk-encode", &rp, || enc::encode_extended_full_viewing_key(hrp_fvk, &extfvk)) {
        let mut raw = vec![];
        extfvk.write(&mut raw).unwrap();
        match guard(|| (enc::decode_extended_full_viewing_key(hrp_fvk, &s), enc::decode_extfvk_with_network(&s))) {
            Ok((Ok(back), Ok((n, back2)))) => {
                let mut r1 = vec![];
                back.write(&mut r1).unwrap();
                let mut r2 = vec![];
                back2.write(&mut r2).unwrap();
                let same_addrs = back.to_diversifiable_full_viewing_key().to_bytes() == a.ind.s_dfvk.to_bytes();
                if r1 != raw || r2 != raw || n != a.net || enc::encode_extended_full_viewing_key(hrp_fvk, &back) != s || !same_addrs {
                    c.viol("extfvk-roundtrip", format!("network {n:?}, bytes equal {} {}, same dfvk {same_addrs}", r1 == raw, r2 == raw), &rp);
                } else {
                    c.r.count("legacy_extfvk_roundtrips", 1);
                }
            }
            other => c.viol("extfvk-roundtrip", format!("{:?}", (other.as_ref().map(|o| o.0.is_ok()), other.as_ref().map(|o| o.1.is_ok()))), &rp),
        }
        if guard(|| enc::decode_extended_full_viewing_key(P(other_net).hrp_sapling_extended_full_viewing_key(), &s).is_ok()) != Ok(false) {
            c.viol("extfvk-wrong-network-accepted", format!("{:?} key decoded with the {other_net:?} prefix", a.net), &rp);
        }
        c.ev(json!({"k": "b32", "s": s, "hrp": w_fvk, "variant": "bech32", "data": hexs(&raw)}));
        // UFVK built from the legacy key holds the same Sapling item
        if let Ok(Ok(u)) = guard(|| UnifiedFullViewingKey::from_sapling_extended_full_viewing_key(extfvk.clone())) {
            if u.sapling().map(|d| d.to_bytes()) != Some(a.ind.s_dfvk.to_bytes()) {
                c.viol("ufvk-from-extfvk-differs", "Sapling item differs".into(), &rp);
            }
        }
    }
    // payment address
    let j = c.arb_j();
    if let Some((_, pa)) = a.ind.s_dfvk.find_address(j) {
        if let Some(s) = c.run("payment-address-encode", &rp, || enc::encode_payment_address(hrp_pa, &pa)) {
            match guard(|| (enc::decode_payment_address(hrp_pa, &s), enc::encode_payment_address_p(&p, &pa))) {
                Ok((Ok(back), s2)) if back == pa && s2 == s => c.r.count("legacy_payment_address_roundtrips", 1),
                other => c.viol("payment-address-roundtrip", format!("{:?}", other.map(|o| o.0.is_ok())), &rp),
            }
            if guard(|| enc::decode_payment_address(P(other_net).hrp_sapling_payment_address(), &s).is_ok()) != Ok(false) {
                c.viol("payment-address-wrong-network-accepted", format!("{:?} address decoded with the {other_net:?} prefix", a.net), &rp);
            }
            c.ev(json!({"k": "b32", "s": s, "hrp": w_pa, "variant": "bech32", "data": hexs(&pa.to_bytes())}));
            c.ev(json!({"k": "enc", "s": s, "want": {"kind": "sapling", "net": net_name(a.net), "data": hexs(&pa.to_bytes())}}));
        }
    }
    // transparent addresses
    let h = a.ind.t_addr(0, c.rng.gen_range(0..1000)).unwrap_or([7; 20]);
    for (kind, t) in [("p2pkh", TransparentAddress::PublicKeyHash(h)), ("p2sh", TransparentAddress::ScriptHash(h))] {
        let (pk, sc) = (p.b58_pubkey_address_prefix(), p.b58_script_address_prefix());
        if let Some(s) = c.run("taddr-encode", &rp, || enc::encode_transparent_address(&pk, &sc, &t)) {
            match guard(|| (enc::decode_transparent_address(&pk, &sc, &s), enc::encode_transparent_address_p(&p, &t))) {
                Ok((Ok(Some(back)), s2)) if back == t && s2 == s => c.r.count("legacy_transparent_address_roundtrips", 1),
                other => c.viol("transparent-address-roundtrip", format!("{:?}", other.map(|o| o.0)), &rp),
            }
            // main <-> test prefixes are disjoint; test == regtest is the documented sharing
            let o = P(if a.net == NetworkType::Main { NetworkType::Test } else { NetworkType::Main });
            if !matches!(guard(|| enc::decode_transparent_address(&o.b58_pubkey_address_prefix(), &o.b58_script_address_prefix(), &s)), Ok(Ok(None))) {
                c.viol("transparent-address-wrong-network-accepted", format!("{kind} for {:?}", a.net), &rp);
            }
            let net = if a.net == NetworkType::Regtest { "test" } else { net_name(a.net) };
            c.ev(json!({"k": "enc", "s": s, "want": {"kind": kind, "net": net, "data": hexs(&h)}}));
        }
    }
    // standalone transparent secret keys: WIF and DER
    if let Some(child) = a.ind.t_acct.ckd(0).and_then(|k| k.ckd(c.rng.gen_range(0..100))) {
        for compressed in [true, false] {
            let key = TKey::new(child.key, compressed);
            let r = guard(|| {
                use secrecy::ExposeSecret;
                let wif = key.encode_base58(&p);
                let back = TKey::decode_base58(&p, &wif);
                let der = key.der_encode();
                let back_der = TKey::der_decode(&der, compressed);
                let wrong = TKey::decode_base58(&P(if a.net == NetworkType::Main { NetworkType::Test } else { NetworkType::Main }), &wif).is_ok();
                (
                    wif.expose_secret().clone(),
                    back.map(|k| (k.secret().secret_bytes(), k.compressed(), k.encode_base58(&p).expose_secret().clone())).ok(),
                    back_der.map(|k| (k.secret().secret_bytes(), k.compressed(), k.der_encode().expose_secret().clone() == der.expose_secret().clone())).ok(),
                    der.expose_secret().len(),
                    wrong,
                    key.pubkey().serialize(),
                )
            });
            match r {
                Ok((wif, Some((sk, comp, wif2)), Some((sk2, comp2, der_same)), der_len, false, pk))
                    if sk == child.key.secret_bytes()
                        && comp == compressed
                        && wif2 == wif
                        && sk2 == sk
                        && comp2 == compressed
                        && der_same
                        && der_len == if compressed { 214 } else { 279 }
                        && pk == child.public().serialize() =>
                {
                    c.r.count("transparent_secret_key_roundtrips", 1);
                    let mut data = vec![w_wif];
                    data.extend_from_slice(&sk);
                    if compressed {
                        data.push(1);
                    }
                    c.ev(json!({"k": "b58", "s": wif, "data": hexs(&data)}));
                }
                Ok(other) => c.viol("transparent-secret-key-roundtrip", format!("compressed={compressed}: wif/der round trip failed: wrong-network-accepted={} der_len={}", other.4, other.3), &rp),
                Err(pn) => c.viol(&format!("transparent-secret-key:panic:{}", panic_class(&pn)), pn, &rp),
            }
        }
    }
}

fn main() {
    vh_common::install_panic_hook();
    let args = Args::parse();
    let quick = args.tier == vh_common::Tier::Quick;
    let mut c = Ctx {
        r: Reporter::new("C11", &args),
        rng: vh_common::rng(args.shard_seed(), 11),
        events_left: args.get_u64("max-events", if quick { 6_000 } else { 100_000 }),
        spent: Default::default(),
    };
    macro_rules! timed {
        ($c:expr, $name:literal, $e:expr) => {{
            let t0 = std::time::Instant::now();
            let v = $e;
            *$c.spent.entry($name).or_default() += t0.elapsed();
            v
        }};
    }
    // The documented algebra of receiver requirements, exhaustively: intersection chooses the
    // stronger requirement, Require and Omit conflict, Omit wins over Allow, and it is symmetric; the
    // request-level intersection is componentwise and needs a shielded receiver to stay allowed.
    if args.shard == 0 {
        use zcash_keys::keys::ReceiverRequirements;
        let model = |a: ReceiverRequirement, b: ReceiverRequirement| -> Option<ReceiverRequirement> {
            match (a, b) {
                (Require, Omit) | (Omit, Require) => None,
                (Require, _) | (_, Require) => Some(Require),
                (Omit, _) | (_, Omit) => Some(Omit),
                _ => Some(Allow),
            }
        };
        for a in REQS {
            for b in REQS {
                c.r.evals(1);
                c.r.count("requirement_intersections_checked", 1);
                let got = guard(|| a.intersect(b).ok());
                match got {
                    Ok(g) if g == model(a, b) => {}
                    Ok(g) => c.viol("requirement-intersect-differs-from-documentation", format!("{}.intersect({}) = {:?}, documented {:?}", req_name(a), req_name(b), g.map(req_name), model(a, b).map(req_name)), &json!({"a": req_name(a), "b": req_name(b)})),
                    Err(p) => c.viol(&format!("requirement-intersect:panic:{}", panic_class(&p)), p, &json!({"a": req_name(a), "b": req_name(b)})),
                }
            }
        }
        let triples: Vec<(ReceiverRequirement, ReceiverRequirement, ReceiverRequirement)> = (0..27).map(|x| (REQS[x / 9], REQS[(x / 3) % 3], REQS[x % 3])).collect();
        for &(o1, s1, t1) in &triples {
            for &(o2, s2, t2) in &triples {
                let (Ok(r1), Ok(r2)) = (ReceiverRequirements::new(o1, s1, t1), ReceiverRequirements::new(o2, s2, t2)) else { continue };
                c.r.evals(1);
                c.r.count("request_intersections_checked", 1);
                let want = match (model(o1, o2), model(s1, s2), model(t1, t2)) {
                    (Some(o), Some(sp), Some(t)) if !(o == Omit && sp == Omit) => Some((o, sp, t)),
                    _ => None,
                };
                let got = guard(|| r1.intersect(&r2).ok().map(|r| (r.orchard(), r.sapling(), r.p2pkh())));
                let rp = json!({"left": [req_name(o1), req_name(s1), req_name(t1)], "right": [req_name(o2), req_name(s2), req_name(t2)]});
                match got {
                    Ok(g) if g == want => {}
                    Ok(g) => c.viol("request-intersect-differs-from-documentation", format!("got {:?}, documented {:?}", g.map(|(a, b, cc)| (req_name(a), req_name(b), req_name(cc))), want.map(|(a, b, cc)| (req_name(a), req_name(b), req_name(cc)))), &rp),
                    Err(p) => c.viol(&format!("request-intersect:panic:{}", panic_class(&p)), p, &rp),
                }
            }
        }
    }
    let n_accounts = args.pick(400u64, 40_000);
    let mut prev: Option<Acct> = None;
    let mut i = 0u64;
    while i < n_accounts && c.r.time_left() {
        i += 1;
        let net = NETS[(i % 3) as usize];
        let Some(a) = timed!(c, "derive", gen_account(&mut c, net)) else { continue };
        // an unrelated key: another seed, or another account of the same seed
        let other = if c.rng.gen_bool(0.5) {
            let acct2 = if a.account == 0 { 1 } else { a.account - 1 };
            let aid = AccountId::try_from(acct2).unwrap();
            match (UnifiedSpendingKey::from_seed(&P(net), &a.seed, aid), Indep::derive(net, &a.seed, acct2)) {
                (Ok(usk), Some(ind)) => Some(Acct { net, seed: a.seed.clone(), account: acct2, usk, ind }),
                _ => None,
            }
        } else {
            // the previous account, unless it is the very same key material (fixed-pattern seeds on
            // two networks that share a coin type would make the "unrelated" key the same key)
            prev.take().filter(|p| !(p.seed == a.seed && p.account == a.account && coin_type(p.net) == coin_type(a.net)))
        };
        let Some(other) = other.or_else(|| gen_account(&mut c, net)) else { continue };
        c.r.count("accounts", 1);
        c.r.count(&format!("accounts_net_{}", net_name(net)), 1);

        // outer safety net: a panic outside the individually guarded calls is a reported panic of
        // that check family, not a dead shard
        macro_rules! protect {
            ($name:literal, $e:expr) => {{
                let r = timed!(c, $name, guard(|| $e));
                match r {
                    Ok(v) => Some(v),
                    Err(p) => {
                        c.viol(&format!("panic:{}:{}", $name, panic_class(&p)), format!("panicked in {}: {p}", $name), &acct_replay(&a));
                        None
                    }
                }
            }};
        }
        protect!("usk", check_usk(&mut c, &a));
        protect!("transparent", check_transparent(&mut c, &a));
        protect!("legacy", check_legacy(&mut c, &a));

        for k in SUBSETS {
            // the full key every time, the sub-keys in rotation
            if k != SUBSETS[0] && c.rng.gen_range(0..3) != 0 {
                continue;
            }
            let Some((ufvk, uivk)) = guard(|| subset_keys(&a, k)).ok().flatten() else {
                c.r.inconclusive("subset-key-not-constructible");
                continue;
            };
            protect!("viewing_keys", check_viewing_keys(&mut c, &a, k, &ufvk, &uivk));
            c.r.count(&format!("subset_t{}s{}o{}", k.t as u8, k.s as u8, k.o as u8), 1);
            // requests: AllAvailableKeys + a rotating selection of the 27 triples (all 27 across accounts)
            let mut reqs: Vec<Option<(ReceiverRequirement, ReceiverRequirement, ReceiverRequirement)>> = vec![None];
            let start = c.rng.gen_range(0..27);
            for d in 0..5 {
                let x = (start + d * 7) % 27;
                reqs.push(Some((REQS[x / 9], REQS[(x / 3) % 3], REQS[x % 3])));
            }
            let mut noted = false;
            for req in reqs {
                let j = c.arb_j();
                let ua = protect!("addresses", check_addresses(&mut c, &a, k, &ufvk, &uivk, j, req)).flatten();
                // notes: always for the full key, for a third of the sub-keys (17 ms per probe set)
                if let (Some(ua), false) = (ua, noted || (k != SUBSETS[0] && c.rng.gen_range(0..3) != 0)) {
                    protect!("notes", check_notes(&mut c, &a, &other, &uivk, &ua, j));
                    noted = true;
                    // an address of an unrelated key is not recognised
                    if let Ok(Ok((foreign, _))) = guard(|| other.usk.to_unified_full_viewing_key().default_address(UnifiedAddressRequest::SHIELDED)) {
                        if guard(|| uivk.decrypt_diversifiers(&foreign).is_empty()) != Ok(true) {
                            c.viol("foreign-address-recognised", "decrypt_diversifiers recovered an index for an unrelated key's address".into(), &acct_replay(&a));
                        }
                        c.r.count("foreign_addresses_not_recognised", 1);
                    }
                }
            }
        }
        prev = Some(a);
    }
    for (k, v) in c.spent.clone() {
        c.r.set_max(&format!("max_ms_{k}"), v.as_millis() as u64);
    }
    c.r.finish();
}
