//! Workload generation shared by C03 and C04, and the adaptors to the real API.
//!
//! * raw material: the repository's own `arb_tx(branch)` strategies (seeded),
//!   converted to `wire::Parts` through the public accessors of every bundle;
//! * composition: the pieces (inputs, outputs, spends, outputs, actions, valid
//!   points) are recombined into transactions of *every* (version, branch)
//!   pair with aimed shapes (empty bundles, spends-only / outputs-only
//!   Sapling, CompactSize boundaries, coinbase, JoinSplits, amount boundaries),
//!   encoded by the independent writer of `wire`;
//! * the harness' own `TransparentAuthorizingContext` for signature hashes.
#![allow(dead_code)]

use std::io::Write as _;

use ff::PrimeField;
use vh_common::rand::seq::SliceRandom;
use vh_common::rand::Rng;
use vh_common::rand_chacha::ChaCha20Rng;
use zcash_primitives::transaction::{
    self as ztx, Authorization, Authorized, Transaction, TransactionData, TxVersion,
    components::sprout,
    sighash::{SignableInput, signature_hash},
    txid::TxIdDigester,
};
use zcash_protocol::consensus::BranchId;
use zcash_protocol::value::Zatoshis;
use zcash_transparent::address::Script;
use zcash_transparent::bundle as tb;
use zcash_transparent::sighash::{SighashType, TransparentAuthorizingContext};

use crate::wire::{self, Action, Js, OBundle, Output, Parts, Spend, TxIn, TxOut, Ver, MAX_MONEY};

pub const BRANCHES: [BranchId; 11] = [
    BranchId::Sprout,
    BranchId::Overwinter,
    BranchId::Sapling,
    BranchId::Blossom,
    BranchId::Heartwood,
    BranchId::Canopy,
    BranchId::Nu5,
    BranchId::Nu6,
    BranchId::Nu6_1,
    BranchId::Nu6_2,
    BranchId::Nu6_3,
];

pub fn branch_name(b: BranchId) -> &'static str {
    match b {
        BranchId::Sprout => "sprout",
        BranchId::Overwinter => "overwinter",
        BranchId::Sapling => "sapling",
        BranchId::Blossom => "blossom",
        BranchId::Heartwood => "heartwood",
        BranchId::Canopy => "canopy",
        BranchId::Nu5 => "nu5",
        BranchId::Nu6 => "nu6",
        BranchId::Nu6_1 => "nu6_1",
        BranchId::Nu6_2 => "nu6_2",
        BranchId::Nu6_3 => "nu6_3",
        #[allow(unreachable_patterns)]
        _ => "other",
    }
}

pub fn branch_from_name(s: &str) -> Option<BranchId> {
    BRANCHES.iter().copied().find(|b| branch_name(*b) == s)
}

#[derive(Clone, Copy, PartialEq, Eq, Debug, Hash)]
pub enum VerSel {
    Sprout1,
    Sprout2,
    SproutHigh,
    V3,
    V4,
    V5,
    V6,
}

/// Every (version, consensus branch) pair that `TxVersion::valid_in_branch` admits.
pub fn valid_pairs() -> Vec<(VerSel, BranchId)> {
    use BranchId::*;
    let mut v = vec![
        (VerSel::Sprout1, Sprout),
        (VerSel::Sprout2, Sprout),
        (VerSel::SproutHigh, Sprout),
        (VerSel::V3, Overwinter),
    ];
    for b in [Sapling, Blossom, Heartwood, Canopy, Nu5, Nu6, Nu6_1, Nu6_2, Nu6_3] {
        v.push((VerSel::V4, b));
    }
    for b in [Nu5, Nu6, Nu6_1, Nu6_2, Nu6_3] {
        v.push((VerSel::V5, b));
    }
    v.push((VerSel::V6, Nu6_3));
    v
}

pub fn ver_of(tv: TxVersion) -> Ver {
    match tv {
        TxVersion::Sprout(v) => Ver::Sprout(v),
        TxVersion::V3 => Ver::V3,
        TxVersion::V4 => Ver::V4,
        TxVersion::V5 => Ver::V5,
        TxVersion::V6 => Ver::V6,
    }
}

pub fn write_tx(tx: &Transaction) -> std::io::Result<Vec<u8>> {
    let mut v = Vec::with_capacity(2048);
    tx.write(&mut v)?;
    Ok(v)
}

fn obundle_of(b: &orchard::Bundle<orchard::bundle::Authorized, zcash_protocol::value::ZatBalance>) -> OBundle {
    OBundle {
        actions: b
            .actions()
            .iter()
            .map(|a| Action {
                cv: a.cv_net().to_bytes(),
                nf: a.nullifier().to_bytes(),
                rk: <[u8; 32]>::from(a.rk()),
                cmx: a.cmx().to_bytes(),
                epk: a.encrypted_note().epk_bytes,
                enc: a.encrypted_note().enc_ciphertext.to_vec(),
                out: a.encrypted_note().out_ciphertext.to_vec(),
                sig: <[u8; 64]>::from(a.authorization()).to_vec(),
            })
            .collect(),
        flags: b.flag_byte(),
        vb: i64::from(*b.value_balance()),
        anchor: b.anchor().to_bytes(),
        proof: b.authorization().proof().as_ref().to_vec(),
        bsig: <[u8; 64]>::from(b.authorization().binding_signature()).to_vec(),
    }
}

/// The transaction as seen through the public accessors of its bundles.
/// Not normalised: Sapling spends keep their individual anchors.
pub fn tx_to_parts(tx: &TransactionData<Authorized>) -> Parts {
    let ver = ver_of(tx.version());
    let mut p = Parts::empty(ver, u32::from(tx.consensus_branch_id()));
    p.lock_time = tx.lock_time();
    p.expiry = u32::from(tx.expiry_height());
    if let Some(b) = tx.transparent_bundle() {
        for i in &b.vin {
            p.vin.push(TxIn {
                prevout_hash: *i.prevout().hash(),
                prevout_n: i.prevout().n(),
                script_sig: i.script_sig().0.0.clone(),
                sequence: i.sequence(),
            });
        }
        for o in &b.vout {
            p.vout.push(TxOut {
                value: o.value().into_u64() as i64,
                script: o.script_pubkey().0.0.clone(),
            });
        }
    }
    if let Some(b) = tx.sprout_bundle() {
        for j in &b.joinsplits {
            let mut v = vec![];
            j.write(&mut v).expect("vec write");
            p.js.push(Js { bytes: v });
        }
        p.js_pubkey = b.joinsplit_pubkey;
        p.js_sig = b.joinsplit_sig.to_vec();
    }
    if let Some(b) = tx.sapling_bundle() {
        for s in b.shielded_spends() {
            p.spends.push(Spend {
                cv: s.cv().to_bytes(),
                anchor: s.anchor().to_repr(),
                nf: s.nullifier().0,
                rk: <[u8; 32]>::from(*s.rk()),
                proof: s.zkproof().to_vec(),
                sig: <[u8; 64]>::from(*s.spend_auth_sig()).to_vec(),
            });
        }
        for o in b.shielded_outputs() {
            p.outputs.push(Output {
                cv: o.cv().to_bytes(),
                cmu: o.cmu().to_bytes(),
                epk: o.ephemeral_key().0,
                enc: o.enc_ciphertext().to_vec(),
                out: o.out_ciphertext().to_vec(),
                proof: o.zkproof().to_vec(),
            });
        }
        p.vb_sapling = i64::from(*b.value_balance());
        p.sapling_bsig = <[u8; 64]>::from(b.authorization().binding_sig).to_vec();
    }
    p.orchard = tx.orchard_bundle().map(obundle_of);
    p.ironwood = tx.ironwood_bundle().map(obundle_of);
    if !ver.zip244() {
        p.branch = 0;
    }
    p
}

/// First differing field between two part sets (None = identical).
pub fn parts_diff(a: &Parts, b: &Parts) -> Option<String> {
    if a == b {
        return None;
    }
    macro_rules! d {
        ($f:ident) => {
            if a.$f != b.$f {
                return Some(stringify!($f).to_string());
            }
        };
    }
    d!(ver);
    d!(branch);
    d!(lock_time);
    d!(expiry);
    if a.vin.len() != b.vin.len() {
        return Some("vin.len".into());
    }
    for (i, (x, y)) in a.vin.iter().zip(&b.vin).enumerate() {
        if x.prevout_hash != y.prevout_hash || x.prevout_n != y.prevout_n {
            return Some(format!("vin[{i}].prevout"));
        }
        if x.script_sig != y.script_sig {
            return Some(format!("vin[{i}].script_sig"));
        }
        if x.sequence != y.sequence {
            return Some(format!("vin[{i}].sequence"));
        }
    }
    if a.vout.len() != b.vout.len() {
        return Some("vout.len".into());
    }
    for (i, (x, y)) in a.vout.iter().zip(&b.vout).enumerate() {
        if x.value != y.value {
            return Some(format!("vout[{i}].value"));
        }
        if x.script != y.script {
            return Some(format!("vout[{i}].script"));
        }
    }
    d!(vb_sapling);
    if a.spends.len() != b.spends.len() {
        return Some("sapling.spends.len".into());
    }
    for (i, (x, y)) in a.spends.iter().zip(&b.spends).enumerate() {
        for (n, l, r) in [
            ("cv", &x.cv[..], &y.cv[..]),
            ("anchor", &x.anchor[..], &y.anchor[..]),
            ("nf", &x.nf[..], &y.nf[..]),
            ("rk", &x.rk[..], &y.rk[..]),
            ("proof", &x.proof[..], &y.proof[..]),
            ("auth_sig", &x.sig[..], &y.sig[..]),
        ] {
            if l != r {
                return Some(format!("sapling.spend[{i}].{n}"));
            }
        }
    }
    if a.outputs.len() != b.outputs.len() {
        return Some("sapling.outputs.len".into());
    }
    for (i, (x, y)) in a.outputs.iter().zip(&b.outputs).enumerate() {
        for (n, l, r) in [
            ("cv", &x.cv[..], &y.cv[..]),
            ("cmu", &x.cmu[..], &y.cmu[..]),
            ("epk", &x.epk[..], &y.epk[..]),
            ("enc", &x.enc[..], &y.enc[..]),
            ("out", &x.out[..], &y.out[..]),
            ("proof", &x.proof[..], &y.proof[..]),
        ] {
            if l != r {
                return Some(format!("sapling.output[{i}].{n}"));
            }
        }
    }
    d!(sapling_bsig);
    if a.js.len() != b.js.len() {
        return Some("joinsplits.len".into());
    }
    for (i, (x, y)) in a.js.iter().zip(&b.js).enumerate() {
        if x != y {
            return Some(format!("joinsplit[{i}]"));
        }
    }
    d!(js_pubkey);
    d!(js_sig);
    for (name, x, y) in [("orchard", &a.orchard, &b.orchard), ("ironwood", &a.ironwood, &b.ironwood)] {
        match (x, y) {
            (None, None) => {}
            (Some(x), Some(y)) => {
                if x.actions.len() != y.actions.len() {
                    return Some(format!("{name}.actions.len"));
                }
                for (i, (p, q)) in x.actions.iter().zip(&y.actions).enumerate() {
                    for (n, l, r) in [
                        ("cv", &p.cv[..], &q.cv[..]),
                        ("nf", &p.nf[..], &q.nf[..]),
                        ("rk", &p.rk[..], &q.rk[..]),
                        ("cmx", &p.cmx[..], &q.cmx[..]),
                        ("epk", &p.epk[..], &q.epk[..]),
                        ("enc", &p.enc[..], &q.enc[..]),
                        ("out", &p.out[..], &q.out[..]),
                        ("spend_auth_sig", &p.sig[..], &q.sig[..]),
                    ] {
                        if l != r {
                            return Some(format!("{name}.action[{i}].{n}"));
                        }
                    }
                }
                if x.flags != y.flags {
                    return Some(format!("{name}.flags"));
                }
                if x.vb != y.vb {
                    return Some(format!("{name}.value_balance"));
                }
                if x.anchor != y.anchor {
                    return Some(format!("{name}.anchor"));
                }
                if x.proof != y.proof {
                    return Some(format!("{name}.proof"));
                }
                if x.bsig != y.bsig {
                    return Some(format!("{name}.binding_sig"));
                }
            }
            _ => return Some(format!("{name}.presence")),
        }
    }
    Some("unknown".into())
}

/// Valid encodings harvested from generated transactions, used as donors.
#[derive(Default)]
pub struct Pool {
    pub vins: Vec<TxIn>,
    pub vouts: Vec<TxOut>,
    pub spends: Vec<Spend>,
    pub outputs: Vec<Output>,
    pub actions: Vec<Action>,
    pub sapling_fe: Vec<[u8; 32]>,
    pub pallas_fe: Vec<[u8; 32]>,
    pub sigs: Vec<Vec<u8>>,
}

impl Pool {
    pub fn absorb(&mut self, p: &Parts) {
        self.vins.extend(p.vin.iter().cloned());
        self.vouts.extend(p.vout.iter().cloned());
        for s in &p.spends {
            self.sapling_fe.push(s.anchor);
            self.sigs.push(s.sig.clone());
        }
        self.spends.extend(p.spends.iter().cloned());
        for o in &p.outputs {
            self.sapling_fe.push(o.cmu);
        }
        self.outputs.extend(p.outputs.iter().cloned());
        for ob in [&p.orchard, &p.ironwood].into_iter().flatten() {
            self.pallas_fe.push(ob.anchor);
            for a in &ob.actions {
                self.pallas_fe.push(a.nf);
                self.pallas_fe.push(a.cmx);
            }
            self.actions.extend(ob.actions.iter().cloned());
            self.sigs.push(ob.bsig.clone());
        }
    }

    pub fn ready(&self) -> bool {
        !self.spends.is_empty() && !self.outputs.is_empty() && !self.actions.is_empty() && !self.vins.is_empty() && !self.vouts.is_empty()
    }

    /// A valid replacement for a point-valued field, different from `cur`.
    pub fn donor_point(&self, rng: &mut ChaCha20Rng, name: &str, cur: &[u8]) -> Option<[u8; 32]> {
        for _ in 0..8 {
            let c: [u8; 32] = match name {
                "sapling.spend.cv" | "sapling.output.cv" => {
                    if rng.gen_bool(0.5) {
                        self.spends.choose(rng)?.cv
                    } else {
                        self.outputs.choose(rng)?.cv
                    }
                }
                "sapling.spend.rk" => self.spends.choose(rng)?.rk,
                n if n.ends_with("action.cv") => self.actions.choose(rng)?.cv,
                n if n.ends_with("action.rk") => self.actions.choose(rng)?.rk,
                n if n.ends_with("action.epk") => self.actions.choose(rng)?.epk,
                _ => return None,
            };
            if c != cur {
                return Some(c);
            }
        }
        None
    }
}

pub fn rand_bytes(rng: &mut ChaCha20Rng, n: usize) -> Vec<u8> {
    let mut v = vec![0u8; n];
    rng.fill(&mut v[..]);
    v
}

pub fn rand32(rng: &mut ChaCha20Rng) -> [u8; 32] {
    let mut v = [0u8; 32];
    rng.fill(&mut v[..]);
    v
}

/// A canonical encoding for both the Jubjub base field and the Pallas base field (value < 2^253).
pub fn rand_fe(rng: &mut ChaCha20Rng) -> [u8; 32] {
    let mut v = rand32(rng);
    v[31] &= 0x1f;
    v
}

pub fn rand_amount_unsigned(rng: &mut ChaCha20Rng) -> i64 {
    match rng.gen_range(0..10) {
        0 => 0,
        1 => MAX_MONEY,
        2 => 1,
        3 => MAX_MONEY - 1,
        _ => rng.gen_range(0..=MAX_MONEY),
    }
}

pub fn rand_amount_signed(rng: &mut ChaCha20Rng) -> i64 {
    match rng.gen_range(0..12) {
        0 => 0,
        1 => MAX_MONEY,
        2 => -MAX_MONEY,
        3 => -1,
        4 => 1,
        _ => rng.gen_range(-MAX_MONEY..=MAX_MONEY),
    }
}

const OPCODES: [u8; 8] = [0x00, 0x51, 0x52, 0x53, 0xac, 0x63, 0x65, 0x6a];

pub fn rand_script(rng: &mut ChaCha20Rng, len: usize) -> Vec<u8> {
    if rng.gen_bool(0.5) {
        (0..len).map(|_| *OPCODES.choose(rng).unwrap()).collect()
    } else {
        rand_bytes(rng, len)
    }
}

fn small_count(rng: &mut ChaCha20Rng, p_zero: f64, big: usize) -> usize {
    if rng.gen_bool(p_zero) {
        return 0;
    }
    match rng.gen_range(0..100) {
        0..=44 => 1,
        45..=69 => 2,
        70..=89 => rng.gen_range(3..=5),
        90..=97 => rng.gen_range(6..=12),
        _ => rng.gen_range(13..=big.max(13)),
    }
}

fn script_len(rng: &mut ChaCha20Rng) -> usize {
    match rng.gen_range(0..100) {
        0..=4 => 0,
        5..=79 => rng.gen_range(1..=40),
        80..=94 => rng.gen_range(41..=252),
        95..=96 => 252,
        97..=98 => 253,
        _ => rng.gen_range(254..=600),
    }
}

pub fn js_random(rng: &mut ChaCha20Rng, ver: Ver) -> Js {
    let mut b = rand_bytes(rng, wire::js_len(ver.js_proof_len()));
    let (old, new) = match rng.gen_range(0..4) {
        0 => (rand_amount_unsigned(rng), 0),
        1 => (0, rand_amount_unsigned(rng)),
        2 => (0, 0),
        _ => (rand_amount_unsigned(rng), rand_amount_unsigned(rng)),
    };
    b[0..8].copy_from_slice(&old.to_le_bytes());
    b[8..16].copy_from_slice(&new.to_le_bytes());
    Js { bytes: b }
}

fn fresh_vin(rng: &mut ChaCha20Rng, pool: &Pool) -> TxIn {
    let mut t = pool.vins.choose(rng).cloned().unwrap_or(TxIn { prevout_hash: [1; 32], prevout_n: 0, script_sig: vec![], sequence: 0 });
    t.prevout_hash = rand32(rng);
    t.prevout_n = if rng.gen_bool(0.1) { rng.r#gen() } else { rng.gen_range(0..100) };
    if rng.gen_bool(0.5) {
        let l = script_len(rng);
        t.script_sig = rand_script(rng, l);
    }
    t.sequence = match rng.gen_range(0..4) {
        0 => u32::MAX,
        1 => 0,
        _ => rng.r#gen(),
    };
    t
}

fn fresh_vout(rng: &mut ChaCha20Rng, pool: &Pool) -> TxOut {
    let mut t = pool.vouts.choose(rng).cloned().unwrap_or(TxOut { value: 0, script: vec![] });
    t.value = rand_amount_unsigned(rng);
    if rng.gen_bool(0.5) {
        let l = script_len(rng);
        t.script = rand_script(rng, l);
    }
    t
}

fn fresh_spend(rng: &mut ChaCha20Rng, pool: &Pool) -> Spend {
    let mut s = pool.spends.choose(rng).cloned().unwrap();
    s.nf = rand32(rng);
    if rng.gen_bool(0.5) {
        s.anchor = rand_fe(rng);
    }
    s.proof = rand_bytes(rng, wire::GROTH);
    s.sig = rand_bytes(rng, 64);
    s
}

fn fresh_output(rng: &mut ChaCha20Rng, pool: &Pool) -> Output {
    let mut o = pool.outputs.choose(rng).cloned().unwrap();
    if rng.gen_bool(0.5) {
        o.cmu = rand_fe(rng);
    }
    o.epk = rand32(rng);
    o.enc = rand_bytes(rng, wire::ENC);
    o.out = rand_bytes(rng, wire::OUT);
    o.proof = rand_bytes(rng, wire::GROTH);
    o
}

fn fresh_action(rng: &mut ChaCha20Rng, pool: &Pool) -> Action {
    let mut a = pool.actions.choose(rng).cloned().unwrap();
    if rng.gen_bool(0.7) {
        a.nf = rand_fe(rng);
    }
    if rng.gen_bool(0.5) {
        a.cmx = rand_fe(rng);
    }
    if rng.gen_bool(0.5) {
        a.epk = pool.actions.choose(rng).unwrap().epk;
    }
    a.enc = rand_bytes(rng, wire::ENC);
    a.out = rand_bytes(rng, wire::OUT);
    a.sig = rand_bytes(rng, 64);
    a
}

/// Canonical Orchard proof length for `n` actions (2720 + 2272 n): a constant of the Orchard
/// circuit (dependency crate), enforced by the parser for every pool except pre-NU6.2 Orchard.
pub fn canonical_proof_len(n: usize) -> usize {
    2720 + 2272 * n
}

pub fn proof_len_enforced(branch: BranchId) -> bool {
    !matches!(branch, BranchId::Nu5 | BranchId::Nu6 | BranchId::Nu6_1)
}

fn fresh_obundle(rng: &mut ChaCha20Rng, pool: &Pool, n: usize, ironwood: bool, branch: BranchId) -> OBundle {
    let actions: Vec<Action> = (0..n).map(|_| fresh_action(rng, pool)).collect();
    let mut flags: u8 = rng.gen_range(0..4);
    if ironwood && rng.gen_bool(0.5) {
        flags |= 4;
    }
    let plen = if ironwood || proof_len_enforced(branch) {
        canonical_proof_len(n)
    } else {
        // pre-NU6.2 Orchard: any proof length parses; aim at CompactSize boundaries
        match rng.gen_range(0..12) {
            0 => 0,
            1 => 252,
            2 => 253,
            3 => 65535,
            4 => 65536,
            5 => rng.gen_range(1..2000),
            _ => canonical_proof_len(n),
        }
    };
    OBundle {
        actions,
        flags,
        vb: rand_amount_signed(rng),
        anchor: if rng.gen_bool(0.5) { rand_fe(rng) } else { *pool.pallas_fe.choose(rng).unwrap() },
        proof: rand_bytes(rng, plen),
        bsig: rand_bytes(rng, 64),
    }
}

#[derive(Clone, Copy, PartialEq, Eq, Debug)]
pub enum Shape {
    Mixed,
    /// nothing at all (all bundles empty)
    Empty,
    TransparentOnly,
    Coinbase,
    SpendsOnly,
    OutputsOnly,
    /// a count at a CompactSize boundary (252, 253, 254, 300)
    Boundary253,
    /// 65535 / 65536 transparent outputs
    Boundary64k,
    /// a script of 65535 / 65536 bytes
    BigScript,
    /// keep the transaction small (C04 event logs)
    Small,
}

pub fn pick_ver(rng: &mut ChaCha20Rng, sel: VerSel) -> Ver {
    match sel {
        VerSel::Sprout1 => Ver::Sprout(1),
        VerSel::Sprout2 => Ver::Sprout(2),
        VerSel::SproutHigh => Ver::Sprout(match rng.gen_range(0..4) {
            0 => 3,
            1 => 0x7fff_ffff,
            2 => 4,
            _ => rng.gen_range(3..=0x7fff_ffffu32),
        }),
        VerSel::V3 => Ver::V3,
        VerSel::V4 => Ver::V4,
        VerSel::V5 => Ver::V5,
        VerSel::V6 => Ver::V6,
    }
}

/// Composes a well-formed transaction of the given version/branch and shape from pool material.
pub fn compose(rng: &mut ChaCha20Rng, pool: &Pool, ver: Ver, branch: BranchId, shape: Shape) -> Parts {
    let mut p = Parts::empty(ver, u32::from(branch));
    p.lock_time = match rng.gen_range(0..5) {
        0 => 0,
        1 => u32::MAX,
        2 => 499_999_999,
        _ => rng.r#gen(),
    };
    p.expiry = match rng.gen_range(0..5) {
        0 => 0,
        1 => u32::MAX,
        2 => 499_999_999,
        _ => rng.r#gen(),
    };
    let small = shape == Shape::Small;
    let big = if small { 13 } else { 40 };
    let (mut n_in, mut n_out) = (small_count(rng, 0.35, big), small_count(rng, 0.3, big));
    let (mut n_sp, mut n_so) = (small_count(rng, 0.45, if small { 13 } else { 30 }), small_count(rng, 0.4, if small { 13 } else { 30 }));
    let mut n_js = small_count(rng, 0.75, 13).min(if small { 2 } else { 6 });
    let mut n_oa = small_count(rng, 0.45, if small { 13 } else { 60 });
    let mut n_ia = small_count(rng, 0.45, if small { 13 } else { 60 });
    if small {
        n_sp = n_sp.min(4);
        n_so = n_so.min(4);
        n_oa = n_oa.min(5);
        n_ia = n_ia.min(5);
        n_in = n_in.min(6);
        n_out = n_out.min(6);
    }
    match shape {
        Shape::Empty => {
            n_in = 0;
            n_out = 0;
            n_sp = 0;
            n_so = 0;
            n_js = 0;
            n_oa = 0;
            n_ia = 0;
        }
        Shape::TransparentOnly | Shape::Coinbase => {
            n_sp = 0;
            n_so = 0;
            n_js = 0;
            n_oa = 0;
            n_ia = 0;
            n_in = n_in.max(1);
            if shape == Shape::Coinbase {
                n_in = 1;
                if rng.gen_bool(0.5) {
                    n_so = small_count(rng, 0.2, 13).min(4);
                    n_oa = small_count(rng, 0.5, 13).min(4);
                }
            }
        }
        Shape::SpendsOnly => {
            n_sp = n_sp.max(1);
            n_so = 0;
        }
        Shape::OutputsOnly => {
            n_sp = 0;
            n_so = n_so.max(1);
        }
        Shape::Boundary253 => {
            let n = *[252usize, 253, 254, 300].choose(rng).unwrap();
            match rng.gen_range(0..5) {
                0 => n_in = n,
                1 => n_out = n,
                2 if ver.has_sapling() => n_so = n,
                3 if ver.has_sapling() => n_sp = n,
                4 if ver.has_orchard() => n_oa = n,
                _ => n_out = n,
            }
        }
        Shape::Boundary64k => {
            n_out = if rng.gen_bool(0.5) { 65535 } else { 65536 };
            n_sp = n_sp.min(2);
            n_so = n_so.min(2);
            n_oa = n_oa.min(2);
            n_ia = n_ia.min(2);
        }
        _ => {}
    }
    for _ in 0..n_in {
        p.vin.push(fresh_vin(rng, pool));
    }
    if shape == Shape::Coinbase {
        p.vin[0].prevout_hash = [0; 32];
        p.vin[0].prevout_n = u32::MAX;
        let l = rng.gen_range(2..=100);
        p.vin[0].script_sig = rand_script(rng, l);
        p.vin[0].sequence = u32::MAX;
    }
    if n_out >= 1000 {
        // huge output vectors: tiny scripts keep the encoding below a megabyte
        for _ in 0..n_out {
            let l = rng.gen_range(0..3);
            p.vout.push(TxOut { value: rng.gen_range(0..1000), script: rand_script(rng, l) });
        }
    } else {
        for _ in 0..n_out {
            p.vout.push(fresh_vout(rng, pool));
        }
    }
    if shape == Shape::BigScript {
        let l = *[65535usize, 65536, 70000].choose(rng).unwrap();
        if rng.gen_bool(0.5) || p.vout.is_empty() {
            if p.vin.is_empty() {
                p.vin.push(fresh_vin(rng, pool));
            }
            p.vin[0].script_sig = rand_script(rng, l);
        } else {
            p.vout[0].script = rand_script(rng, l);
        }
    }
    if ver.has_sapling() {
        for _ in 0..n_sp {
            p.spends.push(fresh_spend(rng, pool));
        }
        for _ in 0..n_so {
            p.outputs.push(fresh_output(rng, pool));
        }
        p.vb_sapling = rand_amount_signed(rng);
        p.sapling_bsig = rand_bytes(rng, 64);
    }
    if ver.has_sprout() {
        for _ in 0..n_js {
            p.js.push(js_random(rng, ver));
        }
        p.js_pubkey = rand32(rng);
        p.js_sig = rand_bytes(rng, 64);
    }
    if ver.has_orchard() && n_oa > 0 {
        p.orchard = Some(fresh_obundle(rng, pool, n_oa, false, branch));
    }
    if ver.has_ironwood() && n_ia > 0 {
        p.ironwood = Some(fresh_obundle(rng, pool, n_ia, true, branch));
    }
    p.normalise();
    p
}

/// Draws raw material from the repository's own proptest strategies.
pub fn draw_arb_tx(runner: &mut proptest::test_runner::TestRunner, branch: BranchId) -> Option<Transaction> {
    let s = ztx::testing::arb_tx(branch);
    vh_common::draw(runner, &s)
}

pub fn sha256d(b: &[u8]) -> [u8; 32] {
    use sha2::{Digest, Sha256};
    let h = Sha256::digest(Sha256::digest(b));
    h.into()
}

// ---------------------------------------------------------------------------------------------
// Signature hashes through the public API, with the harness' own coin context.

#[derive(Debug, Clone)]
pub struct CoinCtx {
    pub amounts: Vec<Zatoshis>,
    pub scripts: Vec<Script>,
}

impl tb::Authorization for CoinCtx {
    type ScriptSig = Script;
}

impl TransparentAuthorizingContext for CoinCtx {
    fn input_amounts(&self) -> Vec<Zatoshis> {
        self.amounts.clone()
    }
    fn input_scriptpubkeys(&self) -> Vec<Script> {
        self.scripts.clone()
    }
}

pub struct HarnessAuth;

impl Authorization for HarnessAuth {
    type TransparentAuth = CoinCtx;
    type SaplingAuth = sapling::bundle::Authorized;
    type OrchardAuth = orchard::bundle::Authorized;
}

struct TMap(CoinCtx);

impl tb::MapAuth<tb::Authorized, CoinCtx> for TMap {
    fn map_script_sig(&self, s: Script) -> Script {
        s
    }
    fn map_authorization(&self, _: tb::Authorized) -> CoinCtx {
        self.0.clone()
    }
}

#[derive(Clone, Debug, PartialEq, Eq)]
pub struct Coin {
    pub value: i64,
    pub script: Vec<u8>,
}

pub fn rand_coins(rng: &mut ChaCha20Rng, n: usize) -> Vec<Coin> {
    (0..n)
        .map(|_| Coin {
            value: rand_amount_unsigned(rng),
            script: {
                let l = script_len(rng).min(80);
                rand_script(rng, l)
            },
        })
        .collect()
}

#[derive(Clone, Debug, PartialEq, Eq)]
pub struct Digests {
    pub txid: [u8; 32],
    pub auth: [u8; 32],
    pub shielded: Option<[u8; 32]>,
    /// (input index, hash type, digest)
    pub transparent: Vec<(usize, u8, [u8; 32])>,
}

/// Everything C04 observes about one transaction: identifier, authorising-data commitment and the
/// signature hashes for the shielded signatures and for `inputs` × all six hash types, computed by
/// `transaction::sighash::signature_hash` with `coins` as the spent outputs.
/// Signature hashes are undefined before Overwinter (the implementation documents a panic).
pub fn digests(tx: &Transaction, coins: &[Coin], inputs: &[usize]) -> Digests {
    let txid: [u8; 32] = *tx.txid().as_ref();
    let auth: [u8; 32] = tx.auth_commitment().as_bytes().try_into().unwrap();
    let overwintered = tx.version().has_overwinter();
    let mut d = Digests { txid, auth, shielded: None, transparent: vec![] };
    if !overwintered {
        return d;
    }
    let ctx = CoinCtx {
        amounts: coins.iter().map(|c| Zatoshis::from_nonnegative_i64(c.value).expect("coin value in range")).collect(),
        scripts: coins.iter().map(|c| Script(zcash_script::script::Code(c.script.clone()))).collect(),
    };
    let data: TransactionData<HarnessAuth> = tx.clone().into_data().map_authorization(TMap(ctx.clone()), (), ());
    let parts = data.digest(TxIdDigester);
    d.shielded = Some(*signature_hash(&data, &SignableInput::Shielded, &parts).as_ref());
    if let Some(b) = data.transparent_bundle() {
        for &i in inputs {
            for ht in wire::HASH_TYPES {
                let st = SighashType::parse(ht).expect("valid hash type");
                // ZIP 244 commits to the scriptPubKey of the coin, ZIP 143/243 to the script code: the
                // other argument gets a decoy so that a mix-up of the two is observable.
                let decoy = {
                    let mut v = ctx.scripts[i].0.0.clone();
                    v.push(0xac);
                    Script(zcash_script::script::Code(v))
                };
                let (code, spk) = if tx.version().has_orchard() { (&decoy, &ctx.scripts[i]) } else { (&ctx.scripts[i], &decoy) };
                let si = zcash_transparent::sighash::SignableInput::from_parts(b, st, i, code, spk, ctx.amounts[i]).expect("index in range");
                let h = signature_hash(&data, &SignableInput::Transparent(si), &parts);
                d.transparent.push((i, ht, *h.as_ref()));
            }
        }
    }
    d
}

/// Rebuilds the transaction from its bundles through `TransactionData::from_parts*` + `freeze`
/// (the in-memory construction path, whose txid computation is separate from the parser's).
pub fn rebuild(tx: &Transaction) -> std::io::Result<Transaction> {
    let d = tx.clone().into_data();
    let data: TransactionData<Authorized> = match d.version() {
        TxVersion::V6 => TransactionData::from_parts_v6(
            d.consensus_branch_id(),
            d.lock_time(),
            d.expiry_height(),
            d.transparent_bundle().cloned(),
            d.sapling_bundle().cloned(),
            d.orchard_bundle().cloned(),
            d.ironwood_bundle().cloned(),
        ),
        v => TransactionData::from_parts(
            v,
            d.consensus_branch_id(),
            d.lock_time(),
            d.expiry_height(),
            d.transparent_bundle().cloned(),
            d.sprout_bundle().cloned(),
            d.sapling_bundle().cloned(),
            d.orchard_bundle().cloned(),
        ),
    };
    data.freeze()
}

pub fn sprout_bundle_from(js: &[Js], ver: Ver, pubkey: [u8; 32], sig: &[u8]) -> Option<sprout::Bundle> {
    if js.is_empty() {
        return None;
    }
    let joinsplits = js.iter().map(|j| sprout::JsDescription::read(&j.bytes[..], ver.has_sapling()).ok()).collect::<Option<Vec<_>>>()?;
    Some(sprout::Bundle { joinsplits, joinsplit_pubkey: pubkey, joinsplit_sig: sig.try_into().ok()? })
}

pub fn unused_writer_marker() {
    let _ = std::io::sink().write(&[]);
}
