//! C03 — transaction and block-header wire codecs are faithful and canonical.
//!
//! Monitors (all on the real `Transaction::{read,write,txid,auth_commitment}`,
//! `BlockHeader::{read,write,hash}` and the local `zcash_encoding` 0.5):
//!
//! * positives: every generated / composed well-formed transaction of every
//!   (version, branch) pair is encoded by an *independent* writer (`wire`), parsed
//!   by the real reader through a counting reader with a random suffix, compared
//!   field by field through the public accessors of every bundle, re-serialised
//!   (must equal the independent encoding), re-parsed, rebuilt through
//!   `TransactionData::from_parts*().freeze()`; txid for v1–v4 = sha256d;
//!   the repository's own `arb_tx` values are checked for `read(write(t)) == t`
//!   (fields, txid, auth commitment) modulo the representability normalisation;
//! * negatives: mutation operators aimed by the field table (truncation at field
//!   boundaries ±1, bit flips in every field class, CompactSize re-encodings,
//!   huge counts, out-of-range amounts, count ±1, header/flag/field-element
//!   corruption). Oracle: never panic; no allocation bomb; non-canonical prefix
//!   and out-of-range amount ⇒ reject; accept ⇒ consumed == len(write(value))
//!   and the value is a fixed point of write→read (fields, txid, auth commitment);
//! * the event log feeds `lib/pyref/{txlayout,blockhdr,zip244}.py`.

mod txgen;
mod wire;

use std::alloc::{GlobalAlloc, Layout, System};
use std::collections::BTreeSet;
use std::sync::atomic::{AtomicBool, AtomicUsize, Ordering};

use vh_common::rand::seq::SliceRandom;
use vh_common::rand::Rng;
use vh_common::rand_chacha::ChaCha20Rng;
use vh_common::{guard, hexs, json, panic_class, Args, CountingReader, Reporter, Tier};
use zcash_primitives::block::{BlockHash, BlockHeader, BlockHeaderData};
use zcash_primitives::transaction::Transaction;
use zcash_protocol::consensus::BranchId;

use txgen::{Pool, Shape, VerSel};
use wire::{Field, Kind, Parts, Ver, MAX_COMPACT_SIZE, MAX_MONEY};

// --- allocation monitor -------------------------------------------------------------------------

struct Track;
static ARMED: AtomicBool = AtomicBool::new(false);
static MAX_REQ: AtomicUsize = AtomicUsize::new(0);

unsafe impl GlobalAlloc for Track {
    unsafe fn alloc(&self, l: Layout) -> *mut u8 {
        if ARMED.load(Ordering::Relaxed) {
            MAX_REQ.fetch_max(l.size(), Ordering::Relaxed);
        }
        unsafe { System.alloc(l) }
    }
    unsafe fn dealloc(&self, p: *mut u8, l: Layout) {
        unsafe { System.dealloc(p, l) }
    }
    unsafe fn realloc(&self, p: *mut u8, l: Layout, n: usize) -> *mut u8 {
        if ARMED.load(Ordering::Relaxed) {
            MAX_REQ.fetch_max(n, Ordering::Relaxed);
        }
        unsafe { System.realloc(p, l, n) }
    }
}

#[global_allocator]
static GLOBAL: Track = Track;

/// Runs a parser under the allocation monitor; returns the largest single allocation request.
fn monitored<T>(f: impl FnOnce() -> T) -> (Result<T, String>, usize) {
    MAX_REQ.store(0, Ordering::Relaxed);
    ARMED.store(true, Ordering::Relaxed);
    let r = guard(f);
    ARMED.store(false, Ordering::Relaxed);
    (r, MAX_REQ.load(Ordering::Relaxed))
}

/// Error text as part of a class signature: digits collapsed, spaces to dashes, at most 60 chars.
fn err_class(e: &str) -> String {
    let mut out = String::new();
    let mut last_digit = false;
    for ch in e.chars().take(60) {
        if ch.is_ascii_digit() {
            if !last_digit {
                out.push('N');
            }
            last_digit = true;
        } else {
            last_digit = false;
            out.push(if ch == ' ' { '-' } else { ch });
        }
    }
    out
}

fn alloc_bound(input_len: usize) -> usize {
    64 * input_len + (1 << 20)
}

// --- helpers ------------------------------------------------------------------------------------

fn bucket(n: usize) -> u8 {
    match n {
        0 => 0,
        1 => 1,
        2 => 2,
        3..=5 => 3,
        6..=12 => 4,
        13..=252 => 5,
        253..=65534 => 6,
        _ => 7,
    }
}

fn shape_sig(p: &Parts, branch: BranchId) -> (String, &'static str, u8, [u8; 7]) {
    (
        p.ver.label().to_string(),
        txgen::branch_name(branch),
        p.bundle_bitmap(),
        [
            bucket(p.vin.len()),
            bucket(p.vout.len()),
            bucket(p.spends.len()),
            bucket(p.outputs.len()),
            bucket(p.js.len()),
            bucket(p.orchard.as_ref().map_or(0, |b| b.actions.len())),
            bucket(p.ironwood.as_ref().map_or(0, |b| b.actions.len())),
        ],
    )
}

fn parts_fingerprint(p: &Parts) -> String {
    // Canonical abstract field stream (NOT wire order), mirrored by lib/pyref/txlayout.py:fingerprint.
    use sha2::{Digest, Sha256};
    let mut h = Sha256::new();
    let u32b = |h: &mut Sha256, v: u32| h.update(v.to_le_bytes());
    let lenb = |h: &mut Sha256, v: usize| h.update((v as u32).to_le_bytes());
    u32b(&mut h, p.ver.header());
    u32b(&mut h, p.ver.vgid().unwrap_or(0));
    u32b(&mut h, p.branch);
    u32b(&mut h, p.lock_time);
    u32b(&mut h, p.expiry);
    lenb(&mut h, p.vin.len());
    for i in &p.vin {
        h.update(i.prevout_hash);
        u32b(&mut h, i.prevout_n);
        lenb(&mut h, i.script_sig.len());
        h.update(&i.script_sig);
        u32b(&mut h, i.sequence);
    }
    lenb(&mut h, p.vout.len());
    for o in &p.vout {
        h.update(o.value.to_le_bytes());
        lenb(&mut h, o.script.len());
        h.update(&o.script);
    }
    h.update(p.vb_sapling.to_le_bytes());
    lenb(&mut h, p.spends.len());
    for s in &p.spends {
        h.update(s.cv);
        h.update(s.anchor);
        h.update(s.nf);
        h.update(s.rk);
        h.update(&s.proof);
        h.update(&s.sig);
    }
    lenb(&mut h, p.outputs.len());
    for o in &p.outputs {
        h.update(o.cv);
        h.update(o.cmu);
        h.update(o.epk);
        h.update(&o.enc);
        h.update(&o.out);
        h.update(&o.proof);
    }
    h.update(&p.sapling_bsig);
    lenb(&mut h, p.js.len());
    for j in &p.js {
        h.update(&j.bytes);
    }
    h.update(p.js_pubkey);
    h.update(&p.js_sig);
    for ob in [&p.orchard, &p.ironwood] {
        match ob {
            None => h.update([0u8]),
            Some(b) => {
                h.update([1u8]);
                lenb(&mut h, b.actions.len());
                for a in &b.actions {
                    h.update(a.cv);
                    h.update(a.nf);
                    h.update(a.rk);
                    h.update(a.cmx);
                    h.update(a.epk);
                    h.update(&a.enc);
                    h.update(&a.out);
                    h.update(&a.sig);
                }
                h.update([b.flags]);
                h.update(b.vb.to_le_bytes());
                h.update(b.anchor);
                lenb(&mut h, b.proof.len());
                h.update(&b.proof);
                h.update(&b.bsig);
            }
        }
    }
    hexs(&h.finalize())
}

fn table_digest(fields: &[Field]) -> String {
    use sha2::{Digest, Sha256};
    let mut h = Sha256::new();
    for f in fields {
        let role = match f.role {
            wire::Role::Structural => 'S',
            wire::Role::Effecting => 'E',
            wire::Role::Authorising => 'A',
        };
        h.update(format!("{}:{}:{}:{};", f.name, f.off, f.len, role).as_bytes());
    }
    hexs(&h.finalize())
}

struct Ctx {
    r: Reporter,
    rng: ChaCha20Rng,
    tx_events_left: usize,
    hdr_events_left: usize,
}

fn replay_tx(bytes: &[u8], branch: BranchId, what: &str) -> vh_common::Value {
    let hex = if bytes.len() <= 20_000 { hexs(bytes) } else { format!("{}… ({} bytes)", hexs(&bytes[..2000]), bytes.len()) };
    json!({"call": what, "branch": txgen::branch_name(branch), "input_hex": hex})
}

struct Parsed {
    tx: Transaction,
    pos: usize,
}

fn parse_counting(input: &[u8], branch: BranchId) -> (Result<std::io::Result<Parsed>, String>, usize) {
    monitored(|| {
        let mut cr = CountingReader::new(input);
        let tx = Transaction::read(&mut cr, branch)?;
        Ok(Parsed { tx, pos: cr.pos })
    })
}

/// A reader that hands out the input in short, irregular pieces (what a socket or pipe does and the
/// `io::Read` contract allows); `pattern` = piece lengths, cycled.
struct ChunkReader<'a> {
    data: &'a [u8],
    pos: usize,
    pattern: Vec<usize>,
    k: usize,
    short_reads: usize,
}

impl<'a> ChunkReader<'a> {
    fn new(data: &'a [u8], pattern: Vec<usize>) -> Self {
        ChunkReader { data, pos: 0, pattern, k: 0, short_reads: 0 }
    }
}

impl<'a> std::io::Read for ChunkReader<'a> {
    fn read(&mut self, buf: &mut [u8]) -> std::io::Result<usize> {
        let want = self.pattern[self.k % self.pattern.len()].max(1);
        self.k += 1;
        let n = want.min(buf.len()).min(self.data.len() - self.pos);
        if n < buf.len() && n > 0 {
            self.short_reads += 1;
        }
        buf[..n].copy_from_slice(&self.data[self.pos..self.pos + n]);
        self.pos += n;
        Ok(n)
    }
}

/// The outcome of a parse must not depend on how the reader delivers the bytes: the same input
/// through a reader that returns short reads must be accepted/rejected alike, consume the same
/// number of bytes and yield the same identifier, authorizing commitment and serialisation.
fn check_reader_independence(c: &mut Ctx, input: &[u8], branch: BranchId, reference: Option<&Parsed>, ctx: &str) {
    let pattern: Vec<usize> = match c.rng.gen_range(0..4) {
        0 => vec![1],
        1 => vec![c.rng.gen_range(2..9)],
        2 => (0..c.rng.gen_range(2..7)).map(|_| c.rng.gen_range(1..70)).collect(),
        _ => vec![c.rng.gen_range(1..4), c.rng.gen_range(30..600), 1],
    };
    let pat = format!("{pattern:?}");
    let mut cr = ChunkReader::new(input, pattern);
    let res = guard(|| Transaction::read(&mut cr, branch));
    c.r.count("chunked_reader_parses", 1);
    c.r.count("chunked_reader_short_reads", cr.short_reads as u64);
    let rp = |what: &str| {
        let mut v = replay_tx(input, branch, what);
        v["chunk_pattern"] = json!(pat);
        v
    };
    match (res, reference) {
        (Err(p), _) => c.r.violation(&format!("C03:tx-read:panic:{}", panic_class(&p)), format!("Transaction::read panicked when the bytes arrived in pieces {pat} ({ctx}): {p}"), rp("Transaction::read(chunked)")),
        (Ok(Err(_)), None) => {}
        (Ok(Err(e)), Some(_)) => c.r.violation("C03:reader-dependent:accepted-from-slice-rejected-in-pieces", format!("input accepted from a slice is rejected when delivered in pieces {pat} ({ctx}): {e}"), rp("Transaction::read(chunked)")),
        (Ok(Ok(_)), None) => c.r.violation("C03:reader-dependent:rejected-from-slice-accepted-in-pieces", format!("input rejected from a slice is accepted when delivered in pieces {pat} ({ctx})"), rp("Transaction::read(chunked)")),
        (Ok(Ok(t)), Some(r)) => {
            let ver = txgen::ver_of(t.version()).label();
            if cr.pos != r.pos {
                c.r.violation(&format!("C03:reader-dependent:consumed:{ver}"), format!("consumed {} bytes from a slice but {} when delivered in pieces {pat} ({ctx})", r.pos, cr.pos), rp("Transaction::read(chunked)"));
            }
            if t.txid() != r.tx.txid() {
                c.r.violation(&format!("C03:reader-dependent:txid:{ver}"), format!("txid depends on how the reader delivers the bytes: {} from a slice, {} in pieces {pat} ({ctx})", hexs(r.tx.txid().as_ref()), hexs(t.txid().as_ref())), rp("Transaction::read(chunked)"));
            }
            if t.auth_commitment().as_bytes() != r.tx.auth_commitment().as_bytes() {
                c.r.violation(&format!("C03:reader-dependent:auth-commitment:{ver}"), format!("authorizing commitment depends on how the reader delivers the bytes (pieces {pat}; {ctx})"), rp("Transaction::read(chunked)"));
            }
            if txgen::write_tx(&t).ok() != txgen::write_tx(&r.tx).ok() {
                c.r.violation(&format!("C03:reader-dependent:bytes:{ver}"), format!("serialisation of the parsed value depends on how the reader delivers the bytes (pieces {pat}; {ctx})"), rp("Transaction::read(chunked)"));
            }
        }
    }
}

/// Names the field in which the re-serialisation of an accepted value departs from the consumed
/// input (located with the independent parser), so that a violation class names the root cause
/// rather than the mutation operator that happened to expose it.
fn drift_cause(consumed: &[u8], reser: &[u8]) -> String {
    match wire::decode(consumed) {
        Ok((p, n)) if n == consumed.len() => {
            let (e, fields) = wire::encode(&p);
            if e != consumed {
                return "input-not-canonical".into();
            }
            let at = consumed.iter().zip(reser).position(|(a, b)| a != b).unwrap_or(consumed.len().min(reser.len()));
            let f = fields.iter().find(|f| f.off <= at && at < f.end()).map(|f| f.name).unwrap_or("end");
            let mut s = f.to_string();
            if f == "sapling.value_balance" && p.spends.is_empty() && p.outputs.is_empty() {
                s.push_str("(no-spends-no-outputs)");
            }
            s
        }
        _ => "input-not-decodable-by-spec-parser".into(),
    }
}

/// The generic oracle for an arbitrary byte string: never panic, no allocation bomb,
/// `must_reject` classes rejected; accept ⇒ consumed == len(write(v)) and v is a fixed point.
/// Returns Some(accepted?) if the parser behaved (no panic).
fn check_bytes(c: &mut Ctx, input: &[u8], branch: BranchId, op: &str, class: &str, must_reject: Option<&str>) -> Option<bool> {
    let (res, max_req) = parse_counting(input, branch);
    if max_req > alloc_bound(input.len()) {
        c.r.violation(
            &format!("C03:tx-read:alloc-bomb:{op}:{class}"),
            format!("a single allocation of {max_req} bytes was requested while parsing a {}-byte input", input.len()),
            replay_tx(input, branch, "Transaction::read"),
        );
    }
    c.r.set_max("max_alloc_request_while_parsing_mutant", max_req as u64);
    let parsed = match res {
        Err(p) => {
            c.r.violation(
                &format!("C03:tx-read:panic:{}", panic_class(&p)),
                format!("Transaction::read panicked on a mutated encoding ({op} on {class}): {p}"),
                replay_tx(input, branch, "Transaction::read"),
            );
            return None;
        }
        Ok(Err(_)) => {
            c.r.count("mutants_rejected", 1);
            if c.rng.gen_range(0..8) == 0 {
                check_reader_independence(c, input, branch, None, &format!("{op} on {class}"));
            }
            return Some(false);
        }
        Ok(Ok(p)) => p,
    };
    c.r.count("mutants_accepted", 1);
    if c.rng.gen_range(0..4) == 0 {
        check_reader_independence(c, input, branch, Some(&parsed), &format!("{op} on {class}"));
    }
    if let Some(why) = must_reject {
        c.r.violation(
            &format!("C03:tx-read:accepted:{why}:{class}"),
            format!("Transaction::read accepted an encoding with a {why} in {class} ({op})"),
            replay_tx(input, branch, "Transaction::read"),
        );
    }
    let ver = txgen::ver_of(parsed.tx.version()).label();
    let b1 = match guard(|| txgen::write_tx(&parsed.tx)) {
        Err(p) => {
            c.r.violation(
                &format!("C03:tx-write:panic:{}", panic_class(&p)),
                format!("Transaction::write panicked on an accepted value ({op} on {class}): {p}"),
                replay_tx(input, branch, "Transaction::read→write"),
            );
            return Some(true);
        }
        Ok(Err(e)) => {
            c.r.violation(
                &format!("C03:accepted-unserialisable:{ver}:{class}:{}", err_class(&e.to_string())),
                format!("value accepted by Transaction::read cannot be written ({op} on {class}): {e}"),
                replay_tx(input, branch, "Transaction::read→write"),
            );
            return Some(true);
        }
        Ok(Ok(b)) => b,
    };
    if parsed.pos != b1.len() {
        let kind = if parsed.pos > b1.len() { "consumed-more-than-reserialised" } else { "consumed-less-than-reserialised" };
        c.r.violation(
            &format!("C03:tx-read:{kind}:{ver}:{}", drift_cause(&input[..parsed.pos.min(input.len())], &b1)),
            format!("reader consumed {} bytes, the accepted value serialises to {} bytes ({op} on {class})", parsed.pos, b1.len()),
            replay_tx(input, branch, "Transaction::read→write"),
        );
    }
    match guard(|| Transaction::read(&b1[..], branch)) {
        Err(p) => c.r.violation(
            &format!("C03:tx-read:panic:{}", panic_class(&p)),
            format!("re-parse of a re-serialised accepted value panicked: {p}"),
            replay_tx(input, branch, "read→write→read"),
        ),
        Ok(Err(e)) => c.r.violation(
            &format!("C03:accepted-not-reparsable:{ver}:{}", drift_cause(&input[..parsed.pos.min(input.len())], &b1)),
            format!("write(read(b)) does not parse ({op} on {class}): {e}"),
            replay_tx(input, branch, "read→write→read"),
        ),
        Ok(Ok(t2)) => {
            let p1 = txgen::tx_to_parts(&parsed.tx);
            let p2 = txgen::tx_to_parts(&t2);
            let mut diffs = vec![];
            if let Some(d) = txgen::parts_diff(&p1, &p2) {
                diffs.push(format!("field:{d}"));
            }
            if t2.txid() != parsed.tx.txid() {
                diffs.push("txid".into());
            }
            if t2.auth_commitment().as_bytes() != parsed.tx.auth_commitment().as_bytes() {
                diffs.push("auth-commitment".into());
            }
            if let Ok(b2) = txgen::write_tx(&t2) {
                if b2 != b1 {
                    diffs.push("bytes".into());
                }
            }
            if !diffs.is_empty() {
                let what = diffs[0].split('[').next().unwrap().to_string();
                // name the input class precisely: which field was mutated how, and what drifted
                let cause = drift_cause(&input[..parsed.pos.min(input.len())], &b1);
                c.r.violation(
                    &format!("C03:accepted-not-roundtrip-stable:{ver}:{cause}:{what}"),
                    format!(
                        "read(write(read(b))) != read(b): differs in {diffs:?} (found by {op} on {class}; the re-serialisation departs from the input in {cause}); input consumed {} bytes, re-serialisation has {} bytes and {} the consumed input",
                        parsed.pos,
                        b1.len(),
                        if input.get(..parsed.pos) == Some(&b1[..]) { "equals" } else { "differs from" }
                    ),
                    replay_tx(input, branch, "read→write→read"),
                );
            }
        }
    }
    Some(true)
}

// --- positives ----------------------------------------------------------------------------------

/// `parts` normalised, `bytes` = its independent encoding.
fn positive(c: &mut Ctx, parts: &Parts, bytes: &[u8], branch: BranchId, origin: &str) -> Option<Transaction> {
    let sig = shape_sig(parts, branch);
    let nontrivial = parts.bundle_bitmap().count_ones() >= 2;
    c.r.case(&("pos", &sig), nontrivial);
    c.r.count(&format!("pos_{}_{}", parts.ver.label().replace('+', "hi"), txgen::branch_name(branch)), 1);
    let ver = parts.ver.label();
    let mut input = bytes.to_vec();
    let suffix_len = match c.rng.gen_range(0..4) {
        0 => 0,
        1 => 1,
        _ => c.rng.gen_range(1..200),
    };
    input.extend(txgen::rand_bytes(&mut c.rng, suffix_len));
    let (res, _) = parse_counting(&input, branch);
    let parsed = match res {
        Err(p) => {
            c.r.violation(&format!("C03:tx-read:panic:{}", panic_class(&p)), format!("Transaction::read panicked on a well-formed {ver} transaction ({origin}): {p}"), replay_tx(bytes, branch, "Transaction::read"));
            return None;
        }
        Ok(Err(e)) => {
            c.r.violation(
                &format!("C03:wellformed-rejected:{ver}"),
                format!("Transaction::read rejected a well-formed {ver}/{} transaction ({origin}; bundles {:05b}): {e}", txgen::branch_name(branch), parts.bundle_bitmap()),
                replay_tx(bytes, branch, "Transaction::read"),
            );
            return None;
        }
        Ok(Ok(p)) => p,
    };
    if parsed.pos != bytes.len() {
        c.r.violation(
            &format!("C03:tx-read:consumed-wrong-length:{ver}"),
            format!("well-formed {ver} transaction of {} bytes followed by a {suffix_len}-byte suffix: reader stopped at {}", bytes.len(), parsed.pos),
            replay_tx(&input, branch, "Transaction::read"),
        );
    }
    if suffix_len > 0 {
        c.r.count("suffix_cases", 1);
    }
    check_reader_independence(c, &input, branch, Some(&parsed), origin);
    let tx = parsed.tx;
    let seen = txgen::tx_to_parts(&tx);
    if let Some(d) = txgen::parts_diff(parts, &seen) {
        let what = d.split('[').next().unwrap().to_string();
        c.r.violation(
            &format!("C03:field-mismatch:{ver}:{what}"),
            format!("parsed {ver} transaction differs from the encoded one in `{d}` (as seen through the bundle accessors)"),
            replay_tx(bytes, branch, "Transaction::read"),
        );
    }
    if !parts.ver.zip244() && tx.consensus_branch_id() != branch {
        c.r.violation(&format!("C03:field-mismatch:{ver}:consensus_branch_id"), "pre-v5 transaction does not carry the branch id passed to read", replay_tx(bytes, branch, "Transaction::read"));
    }
    match guard(|| txgen::write_tx(&tx)) {
        Err(p) => c.r.violation(&format!("C03:tx-write:panic:{}", panic_class(&p)), format!("Transaction::write panicked: {p}"), replay_tx(bytes, branch, "read→write")),
        Ok(Err(e)) => c.r.violation(&format!("C03:tx-write:error:{ver}"), format!("Transaction::write failed on a parsed well-formed transaction: {e}"), replay_tx(bytes, branch, "read→write")),
        Ok(Ok(w)) => {
            if w != bytes {
                let at = w.iter().zip(bytes).position(|(a, b)| a != b).unwrap_or(w.len().min(bytes.len()));
                let (_, fields) = wire::encode(parts);
                let f = fields.iter().find(|f| f.off <= at && at < f.end()).map(|f| f.name).unwrap_or("end");
                c.r.violation(
                    &format!("C03:tx-write:bytes-differ:{ver}:{f}"),
                    format!("write(read(b)) != b for a canonical {ver} encoding: first difference at offset {at} (field {f}); lengths {} vs {}", w.len(), bytes.len()),
                    replay_tx(bytes, branch, "read→write"),
                );
            }
        }
    }
    if !parts.ver.zip244() {
        let want = txgen::sha256d(bytes);
        if tx.txid().as_ref() != &want {
            c.r.violation(&format!("C03:txid-not-sha256d:{ver}:read"), "txid of a parsed pre-v5 transaction is not the double SHA-256 of its serialisation", replay_tx(bytes, branch, "Transaction::read"));
        }
    }
    // the in-memory construction path must agree with the parser
    match guard(|| txgen::rebuild(&tx)) {
        Err(p) => c.r.violation(&format!("C03:freeze:panic:{}", panic_class(&p)), format!("TransactionData::freeze panicked: {p}"), replay_tx(bytes, branch, "read→from_parts→freeze")),
        Ok(Err(e)) => c.r.violation(&format!("C03:freeze:error:{ver}"), format!("freeze failed: {e}"), replay_tx(bytes, branch, "read→from_parts→freeze")),
        Ok(Ok(t3)) => {
            if t3.txid() != tx.txid() {
                c.r.violation(&format!("C03:txid-differs:read-vs-freeze:{ver}"), "TransactionData::from_parts(..).freeze() of the parsed bundles has a different txid than the parsed transaction", replay_tx(bytes, branch, "read→from_parts→freeze"));
            }
            if t3.auth_commitment().as_bytes() != tx.auth_commitment().as_bytes() {
                c.r.violation(&format!("C03:auth-commitment-differs:read-vs-freeze:{ver}"), "auth commitment differs between parsed and rebuilt transaction", replay_tx(bytes, branch, "read→from_parts→freeze"));
            }
            if let Ok(w3) = txgen::write_tx(&t3) {
                if w3 != bytes {
                    c.r.violation(&format!("C03:tx-write:bytes-differ:rebuilt:{ver}"), "rebuilt transaction serialises differently", replay_tx(bytes, branch, "read→from_parts→freeze→write"));
                }
            }
        }
    }
    if c.tx_events_left > 0 && bytes.len() <= 120_000 && c.r.has_events() {
        c.tx_events_left -= 1;
        c.r.count("tx_events_logged", 1);
        let ev = json!({
            "k": "tx", "hex": hexs(bytes), "branch": txgen::branch_name(branch), "ver": ver,
            "txid": hexs(tx.txid().as_ref()), "auth": hexs(tx.auth_commitment().as_bytes()),
            "fp": parts_fingerprint(&seen), "ft": table_digest(&wire::encode(parts).1), "len": bytes.len(),
            "n": [seen.vin.len(), seen.vout.len(), seen.spends.len(), seen.outputs.len(), seen.js.len(),
                  seen.orchard.as_ref().map_or(0, |b| b.actions.len()), seen.ironwood.as_ref().map_or(0, |b| b.actions.len())],
            "lock_time": seen.lock_time, "expiry": seen.expiry,
        });
        c.r.event(&ev);
    }
    c.r.sample(
        &format!("positive:{ver}"),
        json!({"origin": origin, "version": ver, "branch": txgen::branch_name(branch), "bundles_bitmap": parts.bundle_bitmap(), "bytes": bytes.len(),
               "counts": {"vin": parts.vin.len(), "vout": parts.vout.len(), "spends": parts.spends.len(), "outputs": parts.outputs.len(), "joinsplits": parts.js.len(),
                          "orchard_actions": parts.orchard.as_ref().map_or(0, |b| b.actions.len()), "ironwood_actions": parts.ironwood.as_ref().map_or(0, |b| b.actions.len())}}),
    );
    Some(tx)
}

/// `read(write(t)) == t` for a value produced by the repository's own generator (not by the parser).
fn arb_roundtrip(c: &mut Ctx, t0: &Transaction, branch: BranchId, pool: &mut Pool) {
    let raw = txgen::tx_to_parts(t0);
    let mut norm = raw.clone();
    norm.normalise();
    let representable = norm == raw;
    c.r.count(if representable { "arb_tx_representable" } else { "arb_tx_normalised_first" }, 1);
    let ver = raw.ver.label();
    let b0 = match guard(|| txgen::write_tx(t0)) {
        Err(p) => {
            c.r.violation(&format!("C03:tx-write:panic:{}", panic_class(&p)), format!("Transaction::write panicked on an arb_tx value: {p}"), json!({"call": "arb_tx→write", "branch": txgen::branch_name(branch)}));
            return;
        }
        Ok(Err(e)) => {
            c.r.violation(&format!("C03:tx-write:error:{ver}"), format!("Transaction::write failed on an arb_tx value: {e}"), json!({"call": "arb_tx→write", "branch": txgen::branch_name(branch)}));
            return;
        }
        Ok(Ok(b)) => b,
    };
    // independent encoder agrees with the real writer on the generator's value
    let (enc, _) = wire::encode(&norm);
    if enc != b0 {
        let at = enc.iter().zip(&b0).position(|(a, b)| a != b).unwrap_or(enc.len().min(b0.len()));
        let (_, fields) = wire::encode(&norm);
        let f = fields.iter().find(|f| f.off <= at && at < f.end()).map(|f| f.name).unwrap_or("end");
        c.r.violation(
            &format!("C03:tx-write:differs-from-spec-encoding:{ver}:{f}"),
            format!("Transaction::write of an arb_tx({}) value differs from the specification encoding of its fields at offset {at} (field {f}); lengths {} vs {}", txgen::branch_name(branch), b0.len(), enc.len()),
            replay_tx(&b0, branch, "arb_tx→write"),
        );
    }
    c.r.count("arb_tx_values", 1);
    if let Some(t1) = positive(c, &norm, &enc, branch, "arb_tx") {
        if representable {
            // nothing was lost: identifier and auth commitment must survive the round trip
            if t1.txid() != t0.txid() {
                c.r.violation(&format!("C03:roundtrip:txid-changed:{ver}"), "txid(read(write(t))) != txid(t) for a representable arb_tx value", replay_tx(&b0, branch, "arb_tx→write→read"));
            }
            if t1.auth_commitment().as_bytes() != t0.auth_commitment().as_bytes() {
                c.r.violation(&format!("C03:roundtrip:auth-commitment-changed:{ver}"), "auth_commitment(read(write(t))) != auth_commitment(t)", replay_tx(&b0, branch, "arb_tx→write→read"));
            }
        }
        pool.absorb(&norm);
    }
}

// --- negatives ----------------------------------------------------------------------------------

fn put(bytes: &[u8], f: &Field, new: &[u8]) -> Vec<u8> {
    let mut v = Vec::with_capacity(bytes.len() + new.len());
    v.extend_from_slice(&bytes[..f.off]);
    v.extend_from_slice(new);
    v.extend_from_slice(&bytes[f.end()..]);
    v
}

fn neg_case(c: &mut Ctx, input: &[u8], branch: BranchId, ver: Ver, op: &str, f: Option<&Field>, must_reject: Option<&str>, header_len: usize) {
    let class = f.map(|f| f.name).unwrap_or("-");
    let r = check_bytes(c, input, branch, op, class, must_reject);
    let past_header = f.map_or(true, |f| f.off >= header_len);
    let rejected = r == Some(false);
    c.r.case(&("neg", ver.label(), op, class, r), rejected && past_header);
    c.r.count(&format!("op_{op}"), 1);
}

enum Edit {
    Cut(usize),
    Put(Field, Vec<u8>),
    Xor(usize, u8),
    Splice(usize, Vec<u8>),
    Branch(BranchId),
}

struct Mutant {
    op: &'static str,
    field: Option<Field>,
    edit: Edit,
    must_reject: Option<&'static str>,
}

fn plan_mutants(c: &mut Ctx, parts: &Parts, bytes: &[u8], fields: &[Field]) -> Vec<Mutant> {
    let mut plan: Vec<Mutant> = vec![];
    let mut names: Vec<&'static str> = fields.iter().map(|f| f.name).collect::<BTreeSet<_>>().into_iter().collect();
    names.shuffle(&mut c.rng);
    let pick = |c: &mut Ctx, name: &str| -> Field {
        let v: Vec<&Field> = fields.iter().filter(|f| f.name == name).collect();
        (*v.choose(&mut c.rng).unwrap()).clone()
    };
    let at = |o: usize| fields.iter().find(|f| f.off <= o && o < f.end()).cloned();

    // (1) truncation at field boundaries and one byte either side
    let mut cuts: BTreeSet<usize> = BTreeSet::new();
    for f in fields.iter().take(3).chain(fields.iter().rev().take(3)) {
        cuts.insert(f.off);
        cuts.insert(f.end());
    }
    for _ in 0..5 {
        let f = fields.choose(&mut c.rng).unwrap();
        cuts.insert(f.off);
    }
    for cut in cuts {
        for d in [-1i64, 0, 1] {
            let l = cut as i64 + d;
            if l >= 0 && (l as usize) < bytes.len() {
                plan.push(Mutant { op: "truncate", field: at(l as usize), edit: Edit::Cut(l as usize), must_reject: None });
            }
        }
    }

    // (2) count fields: non-canonical re-encodings, huge values, +-1
    for name in names.iter().copied().filter(|n| fields.iter().any(|f| f.name == *n && f.kind == Kind::Count)) {
        let f = pick(c, name);
        let (n, l) = wire::cs_decode(&bytes[f.off..], false).expect("own encoding");
        assert_eq!(l, f.len);
        for w in [3usize, 5, 9] {
            if w > f.len {
                if let Some(e) = wire::cs_width(n, w) {
                    plan.push(Mutant { op: "cs-noncanonical", field: Some(f.clone()), edit: Edit::Put(f.clone(), e), must_reject: Some("non-canonical-compactsize") });
                }
            }
        }
        let huge: [(u64, Option<&'static str>); 6] = [
            (MAX_COMPACT_SIZE, None),
            (MAX_COMPACT_SIZE + 1, Some("oversized-compactsize")),
            (0xffff_ffff, Some("oversized-compactsize")),
            (0x1_0000_0000, Some("oversized-compactsize")),
            (u64::MAX, Some("oversized-compactsize")),
            (0x7fff_ffff_ffff_ffff, Some("oversized-compactsize")),
        ];
        for _ in 0..2 {
            let (v, must) = huge[c.rng.gen_range(0..huge.len())];
            plan.push(Mutant { op: "count-huge", field: Some(f.clone()), edit: Edit::Put(f.clone(), wire::cs(v)), must_reject: must });
        }
        plan.push(Mutant { op: "count-plus1", field: Some(f.clone()), edit: Edit::Put(f.clone(), wire::cs(n + 1)), must_reject: None });
        if n > 0 {
            plan.push(Mutant { op: "count-minus1", field: Some(f.clone()), edit: Edit::Put(f.clone(), wire::cs(n - 1)), must_reject: None });
        }
    }

    // (3) amounts: out of range must be rejected; boundaries exercise the accept side
    for name in names.iter().copied().filter(|n| fields.iter().any(|f| f.name == *n && matches!(f.kind, Kind::AmountSigned | Kind::AmountUnsigned))) {
        let f = pick(c, name);
        let signed = f.kind == Kind::AmountSigned;
        let bad: Vec<i64> = if signed { vec![MAX_MONEY + 1, -MAX_MONEY - 1, i64::MIN, i64::MAX] } else { vec![MAX_MONEY + 1, -1, i64::MIN, i64::MAX, -MAX_MONEY] };
        for v in bad {
            plan.push(Mutant { op: "amount-out-of-range", field: Some(f.clone()), edit: Edit::Put(f.clone(), v.to_le_bytes().to_vec()), must_reject: Some("out-of-range-amount") });
        }
        let ok: Vec<i64> = if signed { vec![MAX_MONEY, -MAX_MONEY, 0] } else { vec![MAX_MONEY, 0] };
        let v = *ok.choose(&mut c.rng).unwrap();
        plan.push(Mutant { op: "amount-boundary", field: Some(f.clone()), edit: Edit::Put(f.clone(), v.to_le_bytes().to_vec()), must_reject: None });
    }

    // (4) one bit flip per field name (every field class)
    for name in names.iter().copied() {
        let f = pick(c, name);
        if f.len > 0 {
            let i = f.off + c.rng.gen_range(0..f.len);
            plan.push(Mutant { op: "bitflip", field: Some(f), edit: Edit::Xor(i, 1 << c.rng.gen_range(0..8)), must_reject: None });
        }
    }

    // (5) field elements / points out of range, reserved flag bits, header corruption
    for name in names.iter().copied() {
        let f = pick(c, name);
        match f.kind {
            Kind::FieldElem | Kind::Point => {
                plan.push(Mutant { op: "all-ones", field: Some(f.clone()), edit: Edit::Put(f.clone(), vec![0xff; 32]), must_reject: None });
                if f.kind == Kind::Point {
                    plan.push(Mutant { op: "all-zero", field: Some(f.clone()), edit: Edit::Put(f.clone(), vec![0; 32]), must_reject: None });
                }
            }
            Kind::Flags => {
                for b in [0x04u8, 0x08, 0x80, 0xff] {
                    plan.push(Mutant { op: "flags-reserved", field: Some(f.clone()), edit: Edit::Put(f.clone(), vec![bytes[f.off] | b]), must_reject: None });
                }
            }
            Kind::Fixed | Kind::Branch => {
                if f.kind == Kind::Branch {
                    // every other branch id a v5/v6 encoding can name (bundle grammar depends on it)
                    let cur = u32::from_le_bytes(bytes[f.off..f.end()].try_into().unwrap());
                    for b in [BranchId::Canopy, BranchId::Nu5, BranchId::Nu6, BranchId::Nu6_1, BranchId::Nu6_2, BranchId::Nu6_3] {
                        if u32::from(b) != cur {
                            plan.push(Mutant { op: "branch-swap", field: Some(f.clone()), edit: Edit::Put(f.clone(), u32::from(b).to_le_bytes().to_vec()), must_reject: None });
                        }
                    }
                }
                for _ in 0..2 {
                    let v: u32 = match c.rng.gen_range(0..6) {
                        0 => 0,
                        1 => 0x8000_0000,
                        2 => 0x8000_0007,
                        3 => 0x8000_0000 | c.rng.gen_range(1..7),
                        4 => u32::from(*txgen::BRANCHES.choose(&mut c.rng).unwrap()),
                        _ => c.rng.r#gen(),
                    };
                    plan.push(Mutant { op: "header-value", field: Some(f.clone()), edit: Edit::Put(f.clone(), v.to_le_bytes().to_vec()), must_reject: None });
                }
            }
            _ => {}
        }
    }

    // (6) random splices, (7) a foreign branch id (pre-v5 encodings do not carry it)
    for _ in 0..2 {
        let a = c.rng.gen_range(0..bytes.len());
        let l = c.rng.gen_range(1..=16.min(bytes.len() - a));
        let r = txgen::rand_bytes(&mut c.rng, l);
        plan.push(Mutant { op: "splice", field: at(a), edit: Edit::Splice(a, r), must_reject: None });
    }
    let other = *txgen::BRANCHES.choose(&mut c.rng).unwrap();
    plan.push(Mutant { op: "other-branch", field: None, edit: Edit::Branch(other), must_reject: None });
    let _ = parts;
    plan
}

fn mutate_tx(c: &mut Ctx, parts: &Parts, bytes: &[u8], fields: &[Field], branch: BranchId, budget: usize) {
    let ver = parts.ver;
    let header_len = if ver.overwintered() { 8 } else { 4 };
    if bytes.len() > 300_000 {
        // huge encodings: only a handful of aimed mutants (each parse is expensive)
        let counts: Vec<&Field> = fields.iter().filter(|f| f.kind == Kind::Count && f.len > 1).collect();
        for f in counts.iter().take(3) {
            let (n, _) = wire::cs_decode(&bytes[f.off..], false).unwrap();
            for w in [5usize, 9] {
                if w > f.len {
                    if let Some(e) = wire::cs_width(n, w) {
                        neg_case(c, &put(bytes, f, &e), branch, ver, "cs-noncanonical", Some(f), Some("non-canonical-compactsize"), header_len);
                    }
                }
            }
        }
        neg_case(c, &bytes[..bytes.len() - 1], branch, ver, "truncate", fields.last(), None, header_len);
        return;
    }
    // Stratified selection: operators take turns until the per-transaction budget is used, so that a
    // transaction with many fields does not spend everything on its first operator.
    let mut plan = plan_mutants(c, parts, bytes, fields);
    plan.shuffle(&mut c.rng);
    let mut by_op: std::collections::BTreeMap<&'static str, Vec<Mutant>> = Default::default();
    for m in plan {
        by_op.entry(m.op).or_default().push(m);
    }
    let mut left = budget;
    while left > 0 && !by_op.is_empty() && c.r.time_left() {
        let ops: Vec<&'static str> = by_op.keys().copied().collect();
        for op in ops {
            if left == 0 {
                break;
            }
            let v = by_op.get_mut(op).unwrap();
            let Some(m) = v.pop() else {
                by_op.remove(op);
                continue;
            };
            left -= 1;
            let mut b = branch;
            let input: Vec<u8> = match &m.edit {
                Edit::Cut(l) => bytes[..*l].to_vec(),
                Edit::Put(f, new) => put(bytes, f, new),
                Edit::Xor(i, x) => {
                    let mut v = bytes.to_vec();
                    v[*i] ^= x;
                    v
                }
                Edit::Splice(a, r) => {
                    let mut v = bytes.to_vec();
                    v[*a..*a + r.len()].copy_from_slice(r);
                    v
                }
                Edit::Branch(o) => {
                    b = *o;
                    bytes.to_vec()
                }
            };
            let before = c.r.counter("mutants_accepted");
            neg_case(c, &input, b, ver, m.op, m.field.as_ref(), m.must_reject, header_len);
            if m.op == "amount-boundary" && c.r.counter("mutants_accepted") > before {
                c.r.count("boundary_amounts_accepted", 1);
            }
        }
    }
}

// --- block headers ------------------------------------------------------------------------------

fn header_bytes_spec(version: i32, prev: &[u8; 32], merkle: &[u8; 32], sapling_root: &[u8; 32], time: u32, bits: u32, nonce: &[u8; 32], solution: &[u8]) -> Vec<u8> {
    let mut v = Vec::with_capacity(140 + 3 + solution.len());
    v.extend_from_slice(&version.to_le_bytes());
    v.extend_from_slice(prev);
    v.extend_from_slice(merkle);
    v.extend_from_slice(sapling_root);
    v.extend_from_slice(&time.to_le_bytes());
    v.extend_from_slice(&bits.to_le_bytes());
    v.extend_from_slice(nonce);
    v.extend_from_slice(&wire::cs(solution.len() as u64));
    v.extend_from_slice(solution);
    v
}

fn header_replay(b: &[u8], what: &str) -> vh_common::Value {
    let hex = if b.len() <= 4000 { hexs(b) } else { format!("{}… ({} bytes)", hexs(&b[..300]), b.len()) };
    json!({"call": what, "input_hex": hex})
}

fn write_header(h: &BlockHeader) -> std::io::Result<Vec<u8>> {
    let mut v = vec![];
    h.write(&mut v)?;
    Ok(v)
}

/// Generic oracle for header bytes. Returns Some(accepted).
fn check_header_bytes(c: &mut Ctx, input: &[u8], op: &str, must_reject: Option<&str>) -> Option<bool> {
    let (res, max_req) = monitored(|| {
        let mut cr = CountingReader::new(input);
        let h = BlockHeader::read(&mut cr)?;
        Ok::<_, std::io::Error>((h, cr.pos))
    });
    if max_req > alloc_bound(input.len()) {
        c.r.violation(&format!("C03:header-read:alloc-bomb:{op}"), format!("allocation of {max_req} bytes requested for a {}-byte input", input.len()), header_replay(input, "BlockHeader::read"));
    }
    let (h, pos) = match res {
        Err(p) => {
            c.r.violation(&format!("C03:header-read:panic:{}", panic_class(&p)), format!("BlockHeader::read panicked ({op}): {p}"), header_replay(input, "BlockHeader::read"));
            return None;
        }
        Ok(Err(_)) => {
            c.r.count("header_mutants_rejected", 1);
            return Some(false);
        }
        Ok(Ok(x)) => x,
    };
    c.r.count("header_mutants_accepted", 1);
    if let Some(why) = must_reject {
        c.r.violation(&format!("C03:header-read:accepted:{why}"), format!("BlockHeader::read accepted a {why} ({op})"), header_replay(input, "BlockHeader::read"));
    }
    match write_header(&h) {
        Err(e) => c.r.violation(&format!("C03:header:accepted-unserialisable:{op}"), format!("{e}"), header_replay(input, "BlockHeader::read→write")),
        Ok(w) => {
            if pos != w.len() {
                c.r.violation(&format!("C03:header-read:consumed-wrong-length:{op}"), format!("consumed {pos}, value serialises to {}", w.len()), header_replay(input, "BlockHeader::read→write"));
            }
            if h.hash().0 != txgen::sha256d(&w) {
                c.r.violation(&format!("C03:header-hash-not-sha256d:{op}"), "hash() of an accepted header is not sha256d of its serialisation", header_replay(input, "BlockHeader::read→hash"));
            }
            match BlockHeader::read(&w[..]) {
                Err(e) => c.r.violation(&format!("C03:header:accepted-not-reparsable:{op}"), format!("{e}"), header_replay(input, "read→write→read")),
                Ok(h2) => {
                    if h2.hash() != h.hash() || write_header(&h2).ok().as_deref() != Some(&w[..]) {
                        c.r.violation(&format!("C03:header:accepted-not-roundtrip-stable:{op}"), "read(write(read(b))) != read(b)", header_replay(input, "read→write→read"));
                    }
                }
            }
        }
    }
    Some(true)
}

fn header_case(c: &mut Ctx, sol_len: usize) {
    let version: i32 = match c.rng.gen_range(0..5) {
        0 => 4,
        1 => i32::MIN,
        2 => -1,
        3 => i32::MAX,
        _ => c.rng.r#gen(),
    };
    let prev = txgen::rand32(&mut c.rng);
    let merkle = txgen::rand32(&mut c.rng);
    let root = txgen::rand32(&mut c.rng);
    let time: u32 = c.rng.r#gen();
    let bits: u32 = c.rng.r#gen();
    let nonce = txgen::rand32(&mut c.rng);
    let solution = txgen::rand_bytes(&mut c.rng, sol_len);
    let spec = header_bytes_spec(version, &prev, &merkle, &root, time, bits, &nonce, &solution);
    c.r.case(&("hdr", bucket(sol_len), sol_len == 1344), sol_len > 0);
    c.r.count("header_cases", 1);
    // construction path
    let built = guard(|| {
        BlockHeaderData { version, prev_block: BlockHash(prev), merkle_root: merkle, final_sapling_root: root, time, bits, nonce, solution: solution.clone() }.freeze()
    });
    match built {
        Err(p) => c.r.violation(&format!("C03:header-freeze:panic:{}", panic_class(&p)), p, header_replay(&spec, "BlockHeaderData::freeze")),
        Ok(Err(e)) => c.r.violation("C03:header-freeze:error", format!("{e}"), header_replay(&spec, "BlockHeaderData::freeze")),
        Ok(Ok(h)) => {
            match write_header(&h) {
                Ok(w) if w == spec => {}
                Ok(_) => c.r.violation("C03:header-write:differs-from-spec-encoding", "BlockHeader::write differs from the specification layout", header_replay(&spec, "freeze→write")),
                Err(e) => c.r.violation("C03:header-write:error", format!("{e}"), header_replay(&spec, "freeze→write")),
            }
            if h.hash().0 != txgen::sha256d(&spec) {
                c.r.violation("C03:header-hash-not-sha256d:freeze", "hash() of a constructed header is not sha256d(serialisation)", header_replay(&spec, "freeze→hash"));
            }
        }
    }
    // parser path with suffix
    let mut input = spec.clone();
    let suffix = c.rng.gen_range(0..40);
    input.extend(txgen::rand_bytes(&mut c.rng, suffix));
    let (res, _) = monitored(|| {
        let mut cr = CountingReader::new(&input);
        let h = BlockHeader::read(&mut cr)?;
        Ok::<_, std::io::Error>((h, cr.pos))
    });
    match res {
        Err(p) => c.r.violation(&format!("C03:header-read:panic:{}", panic_class(&p)), p, header_replay(&spec, "BlockHeader::read")),
        Ok(Err(e)) => c.r.violation("C03:header:wellformed-rejected", format!("{e}"), header_replay(&spec, "BlockHeader::read")),
        Ok(Ok((h, pos))) => {
            if pos != spec.len() {
                c.r.violation("C03:header-read:consumed-wrong-length:wellformed", format!("consumed {pos} of {}", spec.len()), header_replay(&input, "BlockHeader::read"));
            }
            let same = h.version == version && h.prev_block.0 == prev && h.merkle_root == merkle && h.final_sapling_root == root && h.time == time && h.bits == bits && h.nonce == nonce && h.solution == solution;
            if !same {
                c.r.violation("C03:header:field-mismatch", "parsed header fields differ from the encoded ones", header_replay(&spec, "BlockHeader::read"));
            }
            if h.hash().0 != txgen::sha256d(&spec) {
                c.r.violation("C03:header-hash-not-sha256d:read", "hash() of a parsed header is not sha256d of the bytes it was parsed from", header_replay(&spec, "BlockHeader::read→hash"));
            }
            if write_header(&h).ok().as_deref() != Some(&spec[..]) {
                c.r.violation("C03:header-write:bytes-differ", "write(read(b)) != b", header_replay(&spec, "read→write"));
            }
            if c.hdr_events_left > 0 && c.r.has_events() && spec.len() < 100_000 {
                c.hdr_events_left -= 1;
                c.r.count("header_events_logged", 1);
                c.r.event(&json!({"k": "hdr", "hex": hexs(&spec), "hash": hexs(&h.hash().0), "version": h.version, "time": h.time, "bits": h.bits, "sol_len": h.solution.len()}));
            }
        }
    }
    if sol_len > 100_000 {
        return;
    }
    // mutations: truncation at every boundary ±1, length prefix re-encodings, huge, flips
    let cs_off = 140;
    let cs_len = wire::cs(sol_len as u64).len();
    let bounds = [0usize, 4, 36, 68, 100, 104, 108, 140, 140 + cs_len, spec.len()];
    for b in bounds {
        for d in [-1i64, 0, 1] {
            let l = b as i64 + d;
            if l >= 0 && (l as usize) < spec.len() {
                let r = check_header_bytes(c, &spec[..l as usize], "truncate", None);
                c.r.case(&("hdrneg", "truncate", b, r), r == Some(false));
            }
        }
    }
    for w in [3usize, 5, 9] {
        if w > cs_len {
            if let Some(e) = wire::cs_width(sol_len as u64, w) {
                let mut v = spec[..cs_off].to_vec();
                v.extend(e);
                v.extend_from_slice(&spec[cs_off + cs_len..]);
                let r = check_header_bytes(c, &v, "cs-noncanonical", Some("non-canonical-compactsize"));
                c.r.case(&("hdrneg", "cs-noncanonical", w, r), r == Some(false));
                c.r.count("header_op_cs-noncanonical", 1);
            }
        }
    }
    for (n, must) in [(MAX_COMPACT_SIZE, None), (MAX_COMPACT_SIZE + 1, Some("oversized-compactsize")), (0xffff_ffffu64, Some("oversized-compactsize")), (u64::MAX, Some("oversized-compactsize")), (sol_len as u64 + 1, None)] {
        let mut v = spec[..cs_off].to_vec();
        v.extend(wire::cs(n));
        v.extend_from_slice(&spec[cs_off + cs_len..]);
        let r = check_header_bytes(c, &v, "count-huge", must);
        c.r.case(&("hdrneg", "count-huge", n, r), r == Some(false));
        c.r.count("header_op_count-huge", 1);
    }
    for _ in 0..6 {
        let mut v = spec.clone();
        let i = c.rng.gen_range(0..v.len());
        v[i] ^= 1 << c.rng.gen_range(0..8);
        let r = check_header_bytes(c, &v, "bitflip", None);
        c.r.case(&("hdrneg", "bitflip", i.min(141), r), false);
    }
}

/// A solution of exactly MAX_COMPACT_SIZE bytes must be accepted and round-trip; one more byte with
/// the prefix MAX_COMPACT_SIZE+1 must be rejected although all the data is present.
fn header_max_vector(c: &mut Ctx) {
    let n = MAX_COMPACT_SIZE as usize;
    let mut spec = header_bytes_spec(4, &[1; 32], &[2; 32], &[3; 32], 1, 2, &[4; 32], &[]);
    spec.truncate(140);
    let mut ok = spec.clone();
    ok.extend(wire::cs(n as u64));
    ok.resize(ok.len() + n, 0x5a);
    let r = check_header_bytes(c, &ok, "solution-max-compactsize", None);
    c.r.case(&("hdr", "max", r), true);
    if r == Some(true) {
        c.r.count("compactsize_max_vector_accepted", 1);
    } else if r == Some(false) {
        c.r.violation("C03:header:wellformed-rejected:max-compactsize-solution", "a header whose solution has exactly MAX_COMPACT_SIZE bytes was rejected", json!({"call": "BlockHeader::read", "solution_len": n}));
    }
    let mut bad = spec.clone();
    bad.extend(wire::cs(n as u64 + 1));
    bad.resize(bad.len() + n + 1, 0x5a);
    let r = check_header_bytes(c, &bad, "solution-max-compactsize+1", Some("oversized-compactsize"));
    c.r.case(&("hdr", "max+1", r), true);
    if r == Some(false) {
        c.r.count("oversized_compactsize_with_data_rejected", 1);
    }
}

// --- zcash_encoding 0.5, exercised directly -----------------------------------------------------

mod enc5 {
    use super::*;
    use zcash_encoding5::{Array, CompactSize, Optional, Vector, MAX_COMPACT_SIZE as MAX5};

    fn viol(c: &mut Ctx, sig: &str, detail: String, input: &[u8]) {
        c.r.violation(&format!("C03:zcash_encoding:{sig}"), detail, json!({"crate": "components/zcash_encoding", "input_hex": hexs(&input[..input.len().min(64)])}));
    }

    fn lattice(rng: &mut ChaCha20Rng, extra: usize) -> Vec<u64> {
        let mut v: Vec<u64> = vec![];
        for b in [0u64, 1, 2, 251, 252, 253, 254, 255, 256, 0xfffe, 0xffff, 0x10000, 0x10001, 0x01ff_ffff, 0x0200_0000, 0x0200_0001, 0x0200_0002, 0x7fff_ffff, 0x8000_0000, 0xffff_fffe, 0xffff_ffff, 0x1_0000_0000, 0x1_0000_0001, 1 << 40, i64::MAX as u64, (i64::MAX as u64) + 1, u64::MAX - 1, u64::MAX] {
            v.push(b);
        }
        for _ in 0..extra {
            let bits = rng.gen_range(0..=64);
            v.push(if bits == 64 { rng.r#gen() } else { rng.r#gen::<u64>() & ((1u64 << bits) - 1) });
        }
        v
    }

    pub fn run(c: &mut Ctx, extra: usize) {
        assert_eq!(MAX5 as u64, MAX_COMPACT_SIZE);
        let mut rng = c.rng.clone();
        for n in lattice(&mut rng, extra) {
            let canon = wire::cs(n);
            // writers
            let mut w = vec![];
            let r = guard(|| CompactSize::write_unbounded(&mut w, n));
            c.r.case(&("enc5", "write_unbounded", canon.len(), n > MAX_COMPACT_SIZE), true);
            match r {
                Ok(Ok(())) if w == canon => {}
                other => viol(c, "CompactSize::write_unbounded:wrong-encoding", format!("{n}: {other:?} wrote {}", hexs(&w)), &canon),
            }
            if let Ok(us) = usize::try_from(n) {
                let mut w = vec![];
                let r = guard(|| CompactSize::write(&mut w, us));
                c.r.evals(1);
                let fits = n <= MAX_COMPACT_SIZE;
                match r {
                    Ok(Ok(())) if fits && w == canon => {}
                    Ok(Err(_)) if !fits => {
                        if !w.is_empty() {
                            viol(c, "CompactSize::write:partial-output-on-error", format!("{n}: wrote {} before failing", hexs(&w)), &canon);
                        }
                    }
                    other => viol(c, if fits { "CompactSize::write:wrong-encoding" } else { "CompactSize::write:accepted-oversized" }, format!("{n}: {other:?} wrote {}", hexs(&w)), &canon),
                }
                let sz = guard(|| CompactSize::serialized_size(us));
                if sz != Ok(canon.len()) {
                    viol(c, "CompactSize::serialized_size:wrong", format!("{n}: {sz:?} vs {}", canon.len()), &canon);
                }
            }
            // readers on every width that can hold n, with a suffix
            for width in [1usize, 3, 5, 9] {
                let Some(mut e) = wire::cs_width(n, width) else { continue };
                let elen = e.len();
                let is_canon = elen == canon.len();
                e.extend_from_slice(&[0xaa, 0xbb]);
                for bounded in [false, true] {
                    let mut cr = CountingReader::new(&e);
                    let r = guard(|| if bounded { CompactSize::read(&mut cr) } else { CompactSize::read_unbounded(&mut cr) });
                    let pos = cr.pos;
                    let want_ok = is_canon && (!bounded || n <= MAX_COMPACT_SIZE);
                    let fname = if bounded { "CompactSize::read" } else { "CompactSize::read_unbounded" };
                    c.r.case(&("enc5", fname, width, is_canon, n > MAX_COMPACT_SIZE), true);
                    match r {
                        Err(p) => viol(c, &format!("{fname}:panic"), p, &e),
                        Ok(Ok(v)) => {
                            if !want_ok {
                                let why = if !is_canon { "accepted-non-canonical" } else { "accepted-oversized" };
                                viol(c, &format!("{fname}:{why}"), format!("value {n} in a {width}-byte encoding accepted as {v}"), &e);
                            } else if v != n {
                                viol(c, &format!("{fname}:wrong-value"), format!("{v} != {n}"), &e);
                            } else if pos != elen {
                                viol(c, &format!("{fname}:consumed-wrong-length"), format!("{pos} != {elen}"), &e);
                            }
                        }
                        Ok(Err(_)) => {
                            if want_ok {
                                viol(c, &format!("{fname}:rejected-canonical"), format!("value {n}"), &e);
                            }
                            if pos > elen {
                                viol(c, &format!("{fname}:over-read-on-error"), format!("{pos} > {elen}"), &e);
                            }
                        }
                    }
                }
                // read_t into narrower types
                let mut cr = CountingReader::new(&e);
                let r = guard(|| CompactSize::read_t::<_, u8>(&mut cr));
                c.r.evals(1);
                let want = is_canon && n <= 255;
                match r {
                    Ok(Ok(v)) if want && v as u64 == n => {}
                    Ok(Err(_)) if !want => {}
                    other => viol(c, "CompactSize::read_t<u8>:contract", format!("{n} width {width}: {other:?}"), &e),
                }
                // truncated encodings are errors
                for cut in 0..elen {
                    let r = guard(|| CompactSize::read_unbounded(&e[..cut]));
                    c.r.evals(1);
                    if !matches!(r, Ok(Err(_))) {
                        viol(c, "CompactSize::read_unbounded:truncated", format!("{r:?} on {cut} of {elen} bytes"), &e);
                    }
                }
            }
        }
        c.r.count("enc5_compactsize_values", 1);

        // Vector / Array / Optional over u8, u16-LE and fixed 3-byte elements
        for round in 0..(40 + extra / 4) {
            let n: usize = match round % 10 {
                0 => 0,
                1 => 1,
                2 => 252,
                3 => 253,
                4 => 254,
                5 => 65535,
                6 => 65536,
                _ => rng.gen_range(0..600),
            };
            let data = txgen::rand_bytes(&mut rng, n);
            // Vector<u8>
            let mut w = vec![];
            let r = guard(|| Vector::write(&mut w, &data, |w, b| std::io::Write::write_all(w, &[*b])));
            let mut want = wire::cs(n as u64);
            want.extend_from_slice(&data);
            c.r.case(&("enc5", "Vector<u8>", bucket(n)), true);
            if !matches!(r, Ok(Ok(()))) || w != want {
                viol(c, "Vector::write:wrong-encoding", format!("len {n}: {r:?}"), &want);
            }
            if Vector::serialized_size_of_u8_vec(&data) != want.len() {
                viol(c, "Vector::serialized_size_of_u8_vec:wrong", format!("len {n}"), &want);
            }
            let mut w2 = vec![];
            let _ = Vector::write_sized(&mut w2, data.iter(), |w, b| std::io::Write::write_all(w, &[*b]));
            if w2 != want {
                viol(c, "Vector::write_sized:wrong-encoding", format!("len {n}"), &want);
            }
            if n > 0 {
                let ne = nonempty::NonEmpty::from_vec(data.clone()).unwrap();
                let mut w3 = vec![];
                let _ = Vector::write_nonempty(&mut w3, &ne, |w, b| std::io::Write::write_all(w, &[*b]));
                if w3 != want {
                    viol(c, "Vector::write_nonempty:wrong-encoding", format!("len {n}"), &want);
                }
            }
            let mut inp = want.clone();
            inp.extend_from_slice(&[1, 2, 3]);
            let rd = |cr: &mut CountingReader| {
                Vector::read(cr, |r| {
                    let mut b = [0u8; 1];
                    std::io::Read::read_exact(r, &mut b)?;
                    Ok(b[0])
                })
            };
            let mut cr = CountingReader::new(&inp);
            let (r, max_req) = monitored(|| rd(&mut cr));
            match r {
                Ok(Ok(v)) if v == data && cr.pos == want.len() => {}
                other => viol(c, "Vector::read:roundtrip", format!("len {n}: pos {} ok={}", cr.pos, matches!(other, Ok(Ok(_)))), &inp),
            }
            if max_req > alloc_bound(inp.len()) {
                viol(c, "Vector::read:alloc-bomb", format!("{max_req} bytes requested"), &inp);
            }
            // read_collected into a different collection
            let r: Result<std::io::Result<std::collections::VecDeque<u8>>, _> = guard(|| {
                Vector::read_collected(&inp[..], |r| {
                    let mut b = [0u8; 1];
                    std::io::Read::read_exact(r, &mut b)?;
                    Ok(b[0])
                })
            });
            if !matches!(&r, Ok(Ok(v)) if v.iter().copied().eq(data.iter().copied())) {
                viol(c, "Vector::read_collected:roundtrip", format!("len {n}"), &inp);
            }
            // mutated length prefixes
            let pl = wire::cs(n as u64).len();
            for width in [3usize, 5, 9] {
                if width > pl {
                    let mut m = wire::cs_width(n as u64, width).unwrap();
                    m.extend_from_slice(&data);
                    let mut cr = CountingReader::new(&m);
                    let r = guard(|| rd(&mut cr));
                    c.r.case(&("enc5", "Vector::read", "noncanon", width), true);
                    match r {
                        Ok(Err(_)) => {}
                        Ok(Ok(_)) => viol(c, "Vector::read:accepted-non-canonical", format!("len {n} in {width} bytes"), &m),
                        Err(p) => viol(c, "Vector::read:panic", p, &m),
                    }
                }
            }
            for huge in [MAX_COMPACT_SIZE + 1, 0xffff_ffff, u64::MAX, 1 << 33] {
                let mut m = wire::cs(huge);
                m.extend_from_slice(&data);
                let mut cr = CountingReader::new(&m);
                let (r, max_req) = monitored(|| rd(&mut cr));
                c.r.case(&("enc5", "Vector::read", "huge", huge), true);
                match r {
                    Ok(Err(_)) => {}
                    Ok(Ok(_)) => viol(c, "Vector::read:accepted-oversized", format!("count {huge}"), &m),
                    Err(p) => viol(c, "Vector::read:panic", p, &m),
                }
                if max_req > alloc_bound(m.len()) {
                    viol(c, "Vector::read:alloc-bomb", format!("{max_req} bytes requested for count {huge}"), &m);
                }
            }
            // count larger than the data present (legal size, truncated data): error, bounded allocation
            {
                let mut m = wire::cs(MAX_COMPACT_SIZE);
                m.extend_from_slice(&data);
                let mut cr = CountingReader::new(&m);
                let (r, max_req) = monitored(|| rd(&mut cr));
                if !matches!(r, Ok(Err(_))) {
                    viol(c, "Vector::read:truncated-data", format!("count MAX with {n} bytes: ok={}", matches!(r, Ok(Ok(_)))), &m);
                }
                if max_req > alloc_bound(m.len()) {
                    viol(c, "Vector::read:alloc-bomb", format!("{max_req} bytes requested for count MAX_COMPACT_SIZE with {n} bytes of data"), &m);
                }
            }
            // Array of u16-LE elements
            let k = n.min(2000) / 2;
            let elems: Vec<u16> = (0..k).map(|_| rng.r#gen()).collect();
            let mut w = vec![];
            let _ = Array::write(&mut w, elems.iter(), |w, e| std::io::Write::write_all(w, &e.to_le_bytes()));
            let want: Vec<u8> = elems.iter().flat_map(|e| e.to_le_bytes()).collect();
            c.r.case(&("enc5", "Array<u16>", bucket(k)), true);
            if w != want {
                viol(c, "Array::write:wrong-encoding", format!("{k} elements"), &want);
            }
            let mut inp = want.clone();
            inp.extend_from_slice(&[9, 9, 9]);
            let mut cr = CountingReader::new(&inp);
            let r = guard(|| {
                Array::read(&mut cr, k, |r| {
                    let mut b = [0u8; 2];
                    std::io::Read::read_exact(r, &mut b)?;
                    Ok(u16::from_le_bytes(b))
                })
            });
            match r {
                Ok(Ok(v)) if v == elems && cr.pos == want.len() => {}
                _ => viol(c, "Array::read:roundtrip", format!("{k} elements, pos {}", cr.pos), &inp),
            }
            if k > 0 {
                let r = guard(|| {
                    Array::read(&want[..want.len() - 1], k, |r| {
                        let mut b = [0u8; 2];
                        std::io::Read::read_exact(r, &mut b)?;
                        Ok(u16::from_le_bytes(b))
                    })
                });
                if !matches!(r, Ok(Err(_))) {
                    viol(c, "Array::read:truncated", format!("{k} elements"), &want);
                }
            }
            // Optional<u32>
            for val in [None, Some(rng.r#gen::<u32>())] {
                let mut w = vec![];
                let _ = Optional::write(&mut w, val, |mut w, v: u32| std::io::Write::write_all(&mut w, &v.to_le_bytes()));
                let want: Vec<u8> = match val {
                    None => vec![0],
                    Some(v) => {
                        let mut x = vec![1];
                        x.extend_from_slice(&v.to_le_bytes());
                        x
                    }
                };
                c.r.case(&("enc5", "Optional", val.is_some()), true);
                if w != want {
                    viol(c, "Optional::write:wrong-encoding", format!("{val:?}"), &want);
                }
                let mut inp = want.clone();
                inp.push(0x77);
                let mut cr = CountingReader::new(&inp);
                let r = guard(|| {
                    Optional::read(&mut cr, |mut r| {
                        let mut b = [0u8; 4];
                        std::io::Read::read_exact(&mut r, &mut b)?;
                        Ok(u32::from_le_bytes(b))
                    })
                });
                match r {
                    Ok(Ok(v)) if v == val && cr.pos == want.len() => {}
                    _ => viol(c, "Optional::read:roundtrip", format!("{val:?} pos {}", cr.pos), &inp),
                }
                for tag in [2u8, 0x80, 0xff] {
                    let mut m = want.clone();
                    m[0] = tag;
                    m.extend_from_slice(&[0; 4]);
                    let r = guard(|| {
                        Optional::read(&m[..], |mut r| {
                            let mut b = [0u8; 4];
                            std::io::Read::read_exact(&mut r, &mut b)?;
                            Ok(u32::from_le_bytes(b))
                        })
                    });
                    if !matches!(r, Ok(Err(_))) {
                        viol(c, "Optional::read:accepted-non-canonical-tag", format!("tag {tag}"), &m);
                    }
                }
            }
        }
        c.r.count("enc5_combinator_rounds", 1);
    }
}

// --- main ---------------------------------------------------------------------------------------

fn main() {
    vh_common::install_panic_hook();
    let args = Args::parse();
    let r = Reporter::new("C03", &args);
    let rng = vh_common::rng(args.shard_seed(), 0xC03);
    let thorough = args.tier == Tier::Thorough;
    let mut c = Ctx {
        r,
        rng,
        tx_events_left: args.get_u64("tx-events", 220) as usize,
        hdr_events_left: args.get_u64("hdr-events", 40) as usize,
    };
    // Replay aid: `c03 --probe-hex <tx bytes> [--probe-branch <name>] --out /dev/stdout` runs the generic
    // byte-string oracle on one input and reports what it sees.
    if let Some(h) = args.extra.get("probe-hex") {
        let bytes = hex::decode(h).expect("probe-hex");
        let branch = args.extra.get("probe-branch").and_then(|b| txgen::branch_from_name(b)).unwrap_or(BranchId::Nu6_3);
        let r = check_bytes(&mut c, &bytes, branch, "probe", "-", None);
        c.r.note(format!("probe: parser {}", match r { Some(true) => "accepted", Some(false) => "rejected", None => "panicked" }));
        c.r.finish();
        return;
    }
    let max_cases = args.get_u64("max-cases", if thorough { 60_000 } else { 1_500 }) as usize;
    let mut_budget = args.get_u64("mutants-per-tx", 90) as usize;

    // (5) zcash_encoding 0.5 directly
    enc5::run(&mut c, if thorough { 4000 } else { 400 });

    // block headers
    let mut sol_lens: Vec<usize> = vec![0, 1, 252, 253, 254, 1344, 400, 36, 65535, 65536];
    for _ in 0..(if thorough { 300 } else { 25 }) {
        sol_lens.push(c.rng.gen_range(0..3000));
    }
    for l in sol_lens {
        if !c.r.time_left() {
            break;
        }
        header_case(&mut c, l);
    }
    if args.shard < args.get_u64("max-vector-shards", 2) {
        header_max_vector(&mut c);
    }

    // raw material from the repository's own strategies; every branch is visited by some shard
    let mut pool = Pool::default();
    let mut runner = vh_common::proptest_runner(args.shard_seed(), 0xC03);
    let n_arb = args.get_u64("arb-per-branch", if thorough { 6 } else { 1 }) as usize;
    let mut order: Vec<BranchId> = txgen::BRANCHES.to_vec();
    order.rotate_left((args.shard as usize) % txgen::BRANCHES.len());
    // always have Sapling, Orchard and Ironwood material first
    for b in [BranchId::Canopy, BranchId::Nu6_2, BranchId::Nu6_3] {
        order.retain(|x| *x != b);
        order.insert(0, b);
    }
    let arb_branches = args.get_u64("arb-branches", if thorough { 11 } else { 5 }) as usize;
    for (bi, b) in order.iter().enumerate() {
        if bi >= arb_branches {
            break;
        }
        for _ in 0..n_arb {
            if !c.r.time_left() {
                break;
            }
            match guard(|| txgen::draw_arb_tx(&mut runner, *b)) {
                Ok(Some(t0)) => arb_roundtrip(&mut c, &t0, *b, &mut pool),
                Ok(None) => c.r.inconclusive("arb_tx strategy rejected"),
                Err(p) => c.r.inconclusive(&format!("arb_tx generator panicked: {}", panic_class(&p))),
            }
        }
    }
    let mut tries = 0;
    while !pool.ready() && tries < 60 && c.r.time_left() {
        let b = [BranchId::Nu6_3, BranchId::Canopy, BranchId::Nu6_2][tries % 3];
        tries += 1;
        match guard(|| txgen::draw_arb_tx(&mut runner, b)) {
            Ok(Some(t0)) => arb_roundtrip(&mut c, &t0, b, &mut pool),
            _ => c.r.inconclusive("arb_tx strategy rejected"),
        }
    }
    if !pool.ready() {
        c.r.inconclusive("material pool incomplete");
        c.r.finish();
        return;
    }

    // composed transactions: every (version, branch) pair × aimed shapes
    let pairs = txgen::valid_pairs();
    let shapes = [
        Shape::Mixed, Shape::Mixed, Shape::Mixed, Shape::Small, Shape::Small, Shape::Empty, Shape::TransparentOnly, Shape::Coinbase,
        Shape::SpendsOnly, Shape::OutputsOnly, Shape::Mixed, Shape::Small, Shape::Boundary253,
    ];
    let mut i = 0usize;
    let off = args.shard as usize * 7;
    while i < max_cases && c.r.time_left() {
        let (sel, branch) = pairs[(i + off) % pairs.len()];
        let mut shape = shapes[((i + off) / pairs.len()) % shapes.len()];
        // rare expensive shapes
        if i == 20 || i % 400 == 399 {
            shape = Shape::Boundary64k;
        } else if i == 40 || i % 400 == 199 {
            shape = Shape::BigScript;
        }
        let ver = txgen::pick_ver(&mut c.rng, sel);
        let _ = VerSel::V6;
        let parts = txgen::compose(&mut c.rng, &pool, ver, branch, shape);
        let (bytes, fields) = wire::encode(&parts);
        // the independent parser agrees with the independent writer (harness self-check)
        match wire::decode(&bytes) {
            Ok((p2, n)) if n == bytes.len() && p2 == parts => {}
            other => panic!("harness self-check failed: wire::decode(wire::encode(p)) != p: {:?}", other.map(|x| x.1)),
        }
        match shape {
            Shape::Boundary253 => c.r.count("shape_compactsize_253_boundary", 1),
            Shape::Boundary64k => c.r.count("shape_compactsize_64k_boundary", 1),
            Shape::BigScript => c.r.count("shape_script_64k", 1),
            Shape::Empty => c.r.count("shape_all_bundles_empty", 1),
            Shape::SpendsOnly => c.r.count("shape_sapling_spends_only", (!parts.spends.is_empty()) as u64),
            Shape::OutputsOnly => c.r.count("shape_sapling_outputs_only", (!parts.outputs.is_empty()) as u64),
            Shape::Coinbase => c.r.count("shape_coinbase", 1),
            _ => {}
        }
        if !parts.js.is_empty() {
            c.r.count("shape_with_joinsplits", 1);
        }
        if parts.ironwood.is_some() {
            c.r.count("shape_with_ironwood", 1);
        }
        if parts.orchard.is_some() {
            c.r.count("shape_with_orchard", 1);
        }
        if positive(&mut c, &parts, &bytes, branch, "composed").is_some() {
            mutate_tx(&mut c, &parts, &bytes, &fields, branch, mut_budget);
        }
        i += 1;
    }
    c.r.finish();
}
