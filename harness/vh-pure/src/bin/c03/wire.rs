//! Harness-side model of the Zcash transaction wire format, written from the
//! protocol specification §7.1 (v1–v4), ZIP 225 (v5) and the v6 layout named in
//! the property statement (v5 header, transparent, Sapling, Orchard, then an
//! Orchard-shaped Ironwood bundle). It shares no code with the implementation
//! under test: `Parts` holds raw bytes only, `encode` is an independent writer
//! that also emits the *field table* (offset, length, name, kind, role, sighash
//! coverage of every field), `decode` an independent strict parser.
//!
//! Used by C03 (differential encode/decode, mutation operators aimed at field
//! boundaries / counts / amounts) and C04 (effecting / authorising classification
//! of every byte, sighash coverage rules of ZIP 143/243/244).
#![allow(dead_code)]

pub const MAX_COMPACT_SIZE: u64 = 0x0200_0000;
pub const MAX_MONEY: i64 = 21_000_000 * 100_000_000;

pub const V3_VGID: u32 = 0x03C4_8270;
pub const V4_VGID: u32 = 0x892F_2085;
pub const V5_VGID: u32 = 0x26A7_270A;
pub const V6_VGID: u32 = 0xD884_B698;

pub const GROTH: usize = 192;
pub const PHGR: usize = 296;
pub const ENC: usize = 580;
pub const OUT: usize = 80;

/// Canonical CompactSize encoding.
pub fn cs(n: u64) -> Vec<u8> {
    if n < 253 {
        vec![n as u8]
    } else if n <= 0xffff {
        let mut v = vec![253];
        v.extend_from_slice(&(n as u16).to_le_bytes());
        v
    } else if n <= 0xffff_ffff {
        let mut v = vec![254];
        v.extend_from_slice(&(n as u32).to_le_bytes());
        v
    } else {
        let mut v = vec![255];
        v.extend_from_slice(&n.to_le_bytes());
        v
    }
}

/// Encoding of `n` with an explicit width marker (1, 3, 5 or 9 bytes); `None`
/// if `n` does not fit. Wider than `cs(n).len()` means non-canonical.
pub fn cs_width(n: u64, width: usize) -> Option<Vec<u8>> {
    match width {
        1 if n < 253 => Some(vec![n as u8]),
        3 if n <= 0xffff => {
            let mut v = vec![253];
            v.extend_from_slice(&(n as u16).to_le_bytes());
            Some(v)
        }
        5 if n <= 0xffff_ffff => {
            let mut v = vec![254];
            v.extend_from_slice(&(n as u32).to_le_bytes());
            Some(v)
        }
        9 => {
            let mut v = vec![255];
            v.extend_from_slice(&n.to_le_bytes());
            Some(v)
        }
        _ => None,
    }
}

/// Reference decoder: `Ok((value, encoded_len))` only for the canonical
/// encoding; `bounded` additionally enforces `MAX_COMPACT_SIZE`.
pub fn cs_decode(b: &[u8], bounded: bool) -> Result<(u64, usize), &'static str> {
    let f = *b.first().ok_or("eof")?;
    let (v, l) = match f {
        0..=252 => (f as u64, 1),
        253 => {
            let x = b.get(1..3).ok_or("eof")?;
            let v = u16::from_le_bytes([x[0], x[1]]) as u64;
            if v < 253 {
                return Err("non-canonical");
            }
            (v, 3)
        }
        254 => {
            let x = b.get(1..5).ok_or("eof")?;
            let v = u32::from_le_bytes([x[0], x[1], x[2], x[3]]) as u64;
            if v < 0x10000 {
                return Err("non-canonical");
            }
            (v, 5)
        }
        255 => {
            let x = b.get(1..9).ok_or("eof")?;
            let v = u64::from_le_bytes(x.try_into().unwrap());
            if v < 0x1_0000_0000 {
                return Err("non-canonical");
            }
            (v, 9)
        }
    };
    if bounded && v > MAX_COMPACT_SIZE {
        return Err("too large");
    }
    Ok((v, l))
}

#[derive(Clone, Copy, PartialEq, Eq, Debug, Hash)]
pub enum Ver {
    /// not overwintered; the full header value (1..=0x7fffffff)
    Sprout(u32),
    V3,
    V4,
    V5,
    V6,
}

impl Ver {
    pub fn header(self) -> u32 {
        match self {
            Ver::Sprout(v) => v,
            Ver::V3 => 0x8000_0003,
            Ver::V4 => 0x8000_0004,
            Ver::V5 => 0x8000_0005,
            Ver::V6 => 0x8000_0006,
        }
    }
    pub fn vgid(self) -> Option<u32> {
        match self {
            Ver::Sprout(_) => None,
            Ver::V3 => Some(V3_VGID),
            Ver::V4 => Some(V4_VGID),
            Ver::V5 => Some(V5_VGID),
            Ver::V6 => Some(V6_VGID),
        }
    }
    pub fn num(self) -> u32 {
        match self {
            Ver::Sprout(v) => v.min(2),
            Ver::V3 => 3,
            Ver::V4 => 4,
            Ver::V5 => 5,
            Ver::V6 => 6,
        }
    }
    pub fn label(self) -> &'static str {
        match self {
            Ver::Sprout(1) => "v1",
            Ver::Sprout(2) => "v2",
            Ver::Sprout(_) => "v2+",
            Ver::V3 => "v3",
            Ver::V4 => "v4",
            Ver::V5 => "v5",
            Ver::V6 => "v6",
        }
    }
    pub fn has_sprout(self) -> bool {
        match self {
            Ver::Sprout(v) => v >= 2,
            Ver::V3 | Ver::V4 => true,
            _ => false,
        }
    }
    pub fn has_sapling(self) -> bool {
        matches!(self, Ver::V4 | Ver::V5 | Ver::V6)
    }
    pub fn has_orchard(self) -> bool {
        matches!(self, Ver::V5 | Ver::V6)
    }
    pub fn has_ironwood(self) -> bool {
        matches!(self, Ver::V6)
    }
    pub fn overwintered(self) -> bool {
        !matches!(self, Ver::Sprout(_))
    }
    pub fn zip244(self) -> bool {
        matches!(self, Ver::V5 | Ver::V6)
    }
    pub fn js_proof_len(self) -> usize {
        if self.has_sapling() { GROTH } else { PHGR }
    }
}

#[derive(Clone, PartialEq, Eq, Debug)]
pub struct TxIn {
    pub prevout_hash: [u8; 32],
    pub prevout_n: u32,
    pub script_sig: Vec<u8>,
    pub sequence: u32,
}

#[derive(Clone, PartialEq, Eq, Debug)]
pub struct TxOut {
    pub value: i64,
    pub script: Vec<u8>,
}

#[derive(Clone, PartialEq, Eq, Debug)]
pub struct Spend {
    pub cv: [u8; 32],
    pub anchor: [u8; 32],
    pub nf: [u8; 32],
    pub rk: [u8; 32],
    pub proof: Vec<u8>,
    pub sig: Vec<u8>,
}

#[derive(Clone, PartialEq, Eq, Debug)]
pub struct Output {
    pub cv: [u8; 32],
    pub cmu: [u8; 32],
    pub epk: [u8; 32],
    pub enc: Vec<u8>,
    pub out: Vec<u8>,
    pub proof: Vec<u8>,
}

/// One JoinSplit description, kept as raw bytes (1802 with a PHGR13 proof, 1698 with Groth16).
#[derive(Clone, PartialEq, Eq, Debug)]
pub struct Js {
    pub bytes: Vec<u8>,
}

#[derive(Clone, PartialEq, Eq, Debug)]
pub struct Action {
    pub cv: [u8; 32],
    pub nf: [u8; 32],
    pub rk: [u8; 32],
    pub cmx: [u8; 32],
    pub epk: [u8; 32],
    pub enc: Vec<u8>,
    pub out: Vec<u8>,
    pub sig: Vec<u8>,
}

#[derive(Clone, PartialEq, Eq, Debug)]
pub struct OBundle {
    pub actions: Vec<Action>,
    pub flags: u8,
    pub vb: i64,
    pub anchor: [u8; 32],
    pub proof: Vec<u8>,
    pub bsig: Vec<u8>,
}

#[derive(Clone, PartialEq, Eq, Debug)]
pub struct Parts {
    pub ver: Ver,
    /// serialised only from v5 on
    pub branch: u32,
    pub lock_time: u32,
    pub expiry: u32,
    pub vin: Vec<TxIn>,
    pub vout: Vec<TxOut>,
    pub vb_sapling: i64,
    pub spends: Vec<Spend>,
    pub outputs: Vec<Output>,
    pub sapling_bsig: Vec<u8>,
    pub js: Vec<Js>,
    pub js_pubkey: [u8; 32],
    pub js_sig: Vec<u8>,
    pub orchard: Option<OBundle>,
    pub ironwood: Option<OBundle>,
}

impl Parts {
    pub fn empty(ver: Ver, branch: u32) -> Parts {
        Parts {
            ver,
            branch,
            lock_time: 0,
            expiry: 0,
            vin: vec![],
            vout: vec![],
            vb_sapling: 0,
            spends: vec![],
            outputs: vec![],
            sapling_bsig: vec![0; 64],
            js: vec![],
            js_pubkey: [0; 32],
            js_sig: vec![0; 64],
            orchard: None,
            ironwood: None,
        }
    }

    /// bit 0 transparent, 1 sprout, 2 sapling, 3 orchard, 4 ironwood
    pub fn bundle_bitmap(&self) -> u8 {
        (!(self.vin.is_empty() && self.vout.is_empty())) as u8
            | ((!self.js.is_empty()) as u8) << 1
            | ((!(self.spends.is_empty() && self.outputs.is_empty())) as u8) << 2
            | (self.orchard.is_some() as u8) << 3
            | (self.ironwood.is_some() as u8) << 4
    }

    pub fn is_coinbase(&self) -> bool {
        self.vin.len() == 1 && self.vin[0].prevout_hash == [0; 32] && self.vin[0].prevout_n == u32::MAX
    }

    /// Drops what the version cannot carry and applies the representability
    /// rules of the format (v5+: one shared Sapling anchor; value balance and
    /// binding signature exist only with spends or outputs).
    pub fn normalise(&mut self) {
        let v = self.ver;
        if !v.has_sprout() {
            self.js.clear();
        }
        if self.js.is_empty() {
            self.js_pubkey = [0; 32];
            self.js_sig = vec![0; 64];
        }
        if !v.has_sapling() {
            self.spends.clear();
            self.outputs.clear();
        }
        if self.spends.is_empty() && self.outputs.is_empty() {
            self.vb_sapling = 0;
            self.sapling_bsig = vec![0; 64];
        }
        if v.zip244() && !self.spends.is_empty() {
            let a = self.spends[0].anchor;
            for s in self.spends.iter_mut() {
                s.anchor = a;
            }
        }
        if !v.has_orchard() {
            self.orchard = None;
        }
        if !v.has_ironwood() {
            self.ironwood = None;
        }
        if !v.overwintered() {
            self.expiry = 0;
        }
        if !v.zip244() {
            self.branch = 0;
        }
    }
}

#[derive(Clone, Copy, PartialEq, Eq, Debug, Hash)]
pub enum Kind {
    /// header / version group id: fixed by the version
    Fixed,
    Branch,
    U32,
    /// arbitrary bytes (any value parses)
    Bytes,
    /// CompactSize count or length prefix
    Count,
    AmountSigned,
    AmountUnsigned,
    /// curve point with validity constraints: replace only by another valid one
    Point,
    /// canonical field element
    FieldElem,
    Flags,
}

#[derive(Clone, Copy, PartialEq, Eq, Debug, Hash)]
pub enum Role {
    Structural,
    Effecting,
    Authorising,
}

/// Which signature hashes cover a field (ZIP 143/243 for v3/v4, ZIP 244 S.2 from v5).
#[derive(Clone, Copy, PartialEq, Eq, Debug, Hash)]
pub enum Cover {
    All,
    Never,
    Prevout(usize),
    Sequence(usize),
    Output(usize),
}

#[derive(Clone, Debug)]
pub struct Field {
    pub off: usize,
    pub len: usize,
    pub name: &'static str,
    pub idx: usize,
    pub kind: Kind,
    pub role: Role,
    pub cover: Cover,
}

impl Field {
    pub fn end(&self) -> usize {
        self.off + self.len
    }
}

struct B {
    out: Vec<u8>,
    fields: Vec<Field>,
    zip244: bool,
}

impl B {
    fn put(&mut self, name: &'static str, idx: usize, kind: Kind, role: Role, cover: Cover, bytes: &[u8]) {
        // Before v5 every byte is hashed into the txid, so "authorising" only
        // means "not covered by signature hashes" there.
        let _ = self.zip244;
        self.fields.push(Field {
            off: self.out.len(),
            len: bytes.len(),
            name,
            idx,
            kind,
            role,
            cover,
        });
        self.out.extend_from_slice(bytes);
    }
    fn count(&mut self, name: &'static str, n: usize) {
        self.put(name, 0, Kind::Count, Role::Structural, Cover::All, &cs(n as u64));
    }
    fn eff(&mut self, name: &'static str, idx: usize, kind: Kind, bytes: &[u8]) {
        self.put(name, idx, kind, Role::Effecting, Cover::All, bytes);
    }
    fn auth(&mut self, name: &'static str, idx: usize, bytes: &[u8]) {
        self.put(name, idx, Kind::Bytes, Role::Authorising, Cover::Never, bytes);
    }
}

fn put_transparent(b: &mut B, p: &Parts) {
    b.count("tx_in_count", p.vin.len());
    for (i, t) in p.vin.iter().enumerate() {
        b.put("vin.prevout_hash", i, Kind::Bytes, Role::Effecting, Cover::Prevout(i), &t.prevout_hash);
        b.put("vin.prevout_n", i, Kind::U32, Role::Effecting, Cover::Prevout(i), &t.prevout_n.to_le_bytes());
        b.put("vin.script_sig_len", i, Kind::Count, Role::Structural, Cover::Never, &cs(t.script_sig.len() as u64));
        b.auth("vin.script_sig", i, &t.script_sig);
        b.put("vin.sequence", i, Kind::U32, Role::Effecting, Cover::Sequence(i), &t.sequence.to_le_bytes());
    }
    b.count("tx_out_count", p.vout.len());
    for (i, t) in p.vout.iter().enumerate() {
        b.put("vout.value", i, Kind::AmountUnsigned, Role::Effecting, Cover::Output(i), &t.value.to_le_bytes());
        b.put("vout.script_len", i, Kind::Count, Role::Structural, Cover::Output(i), &cs(t.script.len() as u64));
        b.put("vout.script", i, Kind::Bytes, Role::Effecting, Cover::Output(i), &t.script);
    }
}

/// Sub-fields of one JoinSplit description: (name, kind, length); the proof length depends on the version.
pub fn js_layout(proof_len: usize) -> Vec<(&'static str, Kind, usize)> {
    vec![
        ("js.vpub_old", Kind::AmountUnsigned, 8),
        ("js.vpub_new", Kind::AmountUnsigned, 8),
        ("js.anchor", Kind::Bytes, 32),
        ("js.nullifiers", Kind::Bytes, 64),
        ("js.commitments", Kind::Bytes, 64),
        ("js.ephemeral_key", Kind::Bytes, 32),
        ("js.random_seed", Kind::Bytes, 32),
        ("js.macs", Kind::Bytes, 64),
        ("js.proof", Kind::Bytes, proof_len),
        ("js.ciphertexts", Kind::Bytes, 1202),
    ]
}

pub fn js_len(proof_len: usize) -> usize {
    js_layout(proof_len).iter().map(|x| x.2).sum()
}

fn put_sprout(b: &mut B, p: &Parts) {
    b.count("n_joinsplit", p.js.len());
    let lay = js_layout(p.ver.js_proof_len());
    for (i, j) in p.js.iter().enumerate() {
        let mut o = 0;
        for (name, kind, len) in &lay {
            b.eff(name, i, *kind, &j.bytes[o..o + len]);
            o += len;
        }
        assert_eq!(o, j.bytes.len(), "joinsplit length does not match the version's proof system");
    }
    if !p.js.is_empty() {
        b.eff("joinsplit_pubkey", 0, Kind::Bytes, &p.js_pubkey);
        b.auth("joinsplit_sig", 0, &p.js_sig);
    }
}

fn put_orchard(b: &mut B, ob: &Option<OBundle>, iron: bool, v6: bool) {
    macro_rules! n {
        ($o:literal, $i:literal) => {
            if iron { $i } else { $o }
        };
    }
    let Some(ob) = ob else {
        b.count(n!("orchard.n_actions", "ironwood.n_actions"), 0);
        return;
    };
    b.count(n!("orchard.n_actions", "ironwood.n_actions"), ob.actions.len());
    for (i, a) in ob.actions.iter().enumerate() {
        b.eff(n!("orchard.action.cv", "ironwood.action.cv"), i, Kind::Point, &a.cv);
        b.eff(n!("orchard.action.nf", "ironwood.action.nf"), i, Kind::FieldElem, &a.nf);
        b.eff(n!("orchard.action.rk", "ironwood.action.rk"), i, Kind::Point, &a.rk);
        b.eff(n!("orchard.action.cmx", "ironwood.action.cmx"), i, Kind::FieldElem, &a.cmx);
        b.eff(n!("orchard.action.epk", "ironwood.action.epk"), i, Kind::Point, &a.epk);
        b.eff(n!("orchard.action.enc", "ironwood.action.enc"), i, Kind::Bytes, &a.enc);
        b.eff(n!("orchard.action.out", "ironwood.action.out"), i, Kind::Bytes, &a.out);
    }
    b.eff(n!("orchard.flags", "ironwood.flags"), 0, Kind::Flags, &[ob.flags]);
    b.eff(n!("orchard.value_balance", "ironwood.value_balance"), 0, Kind::AmountSigned, &ob.vb.to_le_bytes());
    if v6 {
        // v6: anchors are authorising data
        b.put(n!("orchard.anchor", "ironwood.anchor"), 0, Kind::FieldElem, Role::Authorising, Cover::Never, &ob.anchor);
    } else {
        b.eff("orchard.anchor", 0, Kind::FieldElem, &ob.anchor);
    }
    b.put(n!("orchard.proof_len", "ironwood.proof_len"), 0, Kind::Count, Role::Structural, Cover::Never, &cs(ob.proof.len() as u64));
    b.auth(n!("orchard.proof", "ironwood.proof"), 0, &ob.proof);
    for (i, a) in ob.actions.iter().enumerate() {
        b.auth(n!("orchard.spend_auth_sig", "ironwood.spend_auth_sig"), i, &a.sig);
    }
    b.auth(n!("orchard.binding_sig", "ironwood.binding_sig"), 0, &ob.bsig);
}

/// Independent serialiser; also returns the field table. `p` must be normalised.
pub fn encode(p: &Parts) -> (Vec<u8>, Vec<Field>) {
    let v = p.ver;
    let mut b = B {
        out: Vec::with_capacity(4096),
        fields: Vec::with_capacity(64),
        zip244: v.zip244(),
    };
    b.put("header", 0, Kind::Fixed, Role::Structural, Cover::All, &v.header().to_le_bytes());
    if let Some(g) = v.vgid() {
        b.put("version_group_id", 0, Kind::Fixed, Role::Structural, Cover::All, &g.to_le_bytes());
    }
    if v.zip244() {
        b.eff("consensus_branch_id", 0, Kind::Branch, &p.branch.to_le_bytes());
        b.eff("lock_time", 0, Kind::U32, &p.lock_time.to_le_bytes());
        b.eff("expiry_height", 0, Kind::U32, &p.expiry.to_le_bytes());
        put_transparent(&mut b, p);
        // Sapling, ZIP 225 layout
        b.count("sapling.n_spends", p.spends.len());
        for (i, s) in p.spends.iter().enumerate() {
            b.eff("sapling.spend.cv", i, Kind::Point, &s.cv);
            b.eff("sapling.spend.nf", i, Kind::Bytes, &s.nf);
            b.eff("sapling.spend.rk", i, Kind::Point, &s.rk);
        }
        b.count("sapling.n_outputs", p.outputs.len());
        for (i, o) in p.outputs.iter().enumerate() {
            b.eff("sapling.output.cv", i, Kind::Point, &o.cv);
            b.eff("sapling.output.cmu", i, Kind::FieldElem, &o.cmu);
            b.eff("sapling.output.epk", i, Kind::Bytes, &o.epk);
            b.eff("sapling.output.enc", i, Kind::Bytes, &o.enc);
            b.eff("sapling.output.out", i, Kind::Bytes, &o.out);
        }
        let any = !(p.spends.is_empty() && p.outputs.is_empty());
        if any {
            b.eff("sapling.value_balance", 0, Kind::AmountSigned, &p.vb_sapling.to_le_bytes());
        }
        if !p.spends.is_empty() {
            if v == Ver::V6 {
                b.put("sapling.anchor", 0, Kind::FieldElem, Role::Authorising, Cover::Never, &p.spends[0].anchor);
            } else {
                b.eff("sapling.anchor", 0, Kind::FieldElem, &p.spends[0].anchor);
            }
        }
        for (i, s) in p.spends.iter().enumerate() {
            b.auth("sapling.spend.proof", i, &s.proof);
        }
        for (i, s) in p.spends.iter().enumerate() {
            b.auth("sapling.spend.auth_sig", i, &s.sig);
        }
        for (i, o) in p.outputs.iter().enumerate() {
            b.auth("sapling.output.proof", i, &o.proof);
        }
        if any {
            b.auth("sapling.binding_sig", 0, &p.sapling_bsig);
        }
        put_orchard(&mut b, &p.orchard, false, v == Ver::V6);
        if v.has_ironwood() {
            put_orchard(&mut b, &p.ironwood, true, true);
        }
    } else {
        put_transparent(&mut b, p);
        b.eff("lock_time", 0, Kind::U32, &p.lock_time.to_le_bytes());
        if v.overwintered() {
            b.eff("expiry_height", 0, Kind::U32, &p.expiry.to_le_bytes());
        }
        if v.has_sapling() {
            b.eff("sapling.value_balance", 0, Kind::AmountSigned, &p.vb_sapling.to_le_bytes());
            b.count("sapling.n_spends", p.spends.len());
            for (i, s) in p.spends.iter().enumerate() {
                b.eff("sapling.spend.cv", i, Kind::Point, &s.cv);
                b.eff("sapling.spend.anchor", i, Kind::FieldElem, &s.anchor);
                b.eff("sapling.spend.nf", i, Kind::Bytes, &s.nf);
                b.eff("sapling.spend.rk", i, Kind::Point, &s.rk);
                // v4: proofs are covered by the txid and by ZIP 243 signature hashes
                b.eff("sapling.spend.proof", i, Kind::Bytes, &s.proof);
                b.auth("sapling.spend.auth_sig", i, &s.sig);
            }
            b.count("sapling.n_outputs", p.outputs.len());
            for (i, o) in p.outputs.iter().enumerate() {
                b.eff("sapling.output.cv", i, Kind::Point, &o.cv);
                b.eff("sapling.output.cmu", i, Kind::FieldElem, &o.cmu);
                b.eff("sapling.output.epk", i, Kind::Bytes, &o.epk);
                b.eff("sapling.output.enc", i, Kind::Bytes, &o.enc);
                b.eff("sapling.output.out", i, Kind::Bytes, &o.out);
                b.eff("sapling.output.proof", i, Kind::Bytes, &o.proof);
            }
        }
        if v.has_sprout() {
            put_sprout(&mut b, p);
        }
        if v.has_sapling() && !(p.spends.is_empty() && p.outputs.is_empty()) {
            b.auth("sapling.binding_sig", 0, &p.sapling_bsig);
        }
    }
    (b.out, b.fields)
}

pub struct Cur<'a> {
    pub b: &'a [u8],
    pub pos: usize,
}

impl<'a> Cur<'a> {
    pub fn take(&mut self, n: usize) -> Result<&'a [u8], String> {
        if self.b.len() - self.pos < n {
            return Err(format!("eof at {} (+{})", self.pos, n));
        }
        let s = &self.b[self.pos..self.pos + n];
        self.pos += n;
        Ok(s)
    }
    pub fn a32(&mut self) -> Result<[u8; 32], String> {
        Ok(self.take(32)?.try_into().unwrap())
    }
    pub fn u32(&mut self) -> Result<u32, String> {
        Ok(u32::from_le_bytes(self.take(4)?.try_into().unwrap()))
    }
    pub fn i64(&mut self) -> Result<i64, String> {
        Ok(i64::from_le_bytes(self.take(8)?.try_into().unwrap()))
    }
    pub fn vec(&mut self, n: usize) -> Result<Vec<u8>, String> {
        Ok(self.take(n)?.to_vec())
    }
    pub fn cs(&mut self) -> Result<usize, String> {
        let (v, l) = cs_decode(&self.b[self.pos..], true).map_err(|e| format!("compactsize at {}: {e}", self.pos))?;
        self.pos += l;
        Ok(v as usize)
    }
}

fn get_transparent(c: &mut Cur, p: &mut Parts) -> Result<(), String> {
    let n = c.cs()?;
    for _ in 0..n {
        let prevout_hash = c.a32()?;
        let prevout_n = c.u32()?;
        let l = c.cs()?;
        let script_sig = c.vec(l)?;
        let sequence = c.u32()?;
        p.vin.push(TxIn { prevout_hash, prevout_n, script_sig, sequence });
    }
    let n = c.cs()?;
    for _ in 0..n {
        let value = c.i64()?;
        let l = c.cs()?;
        let script = c.vec(l)?;
        p.vout.push(TxOut { value, script });
    }
    Ok(())
}

fn get_orchard(c: &mut Cur) -> Result<Option<OBundle>, String> {
    let n = c.cs()?;
    if n == 0 {
        return Ok(None);
    }
    let mut actions = vec![];
    for _ in 0..n {
        actions.push(Action {
            cv: c.a32()?,
            nf: c.a32()?,
            rk: c.a32()?,
            cmx: c.a32()?,
            epk: c.a32()?,
            enc: c.vec(ENC)?,
            out: c.vec(OUT)?,
            sig: vec![],
        });
    }
    let flags = c.take(1)?[0];
    let vb = c.i64()?;
    let anchor = c.a32()?;
    let pl = c.cs()?;
    let proof = c.vec(pl)?;
    for a in actions.iter_mut() {
        a.sig = c.vec(64)?;
    }
    let bsig = c.vec(64)?;
    Ok(Some(OBundle { actions, flags, vb, anchor, proof, bsig }))
}

/// Independent strict parser of a canonical encoding; returns the parts and the consumed length.
/// Only the structure is checked (counts, lengths), not the validity of points or amounts.
pub fn decode(bytes: &[u8]) -> Result<(Parts, usize), String> {
    let mut c = Cur { b: bytes, pos: 0 };
    let header = c.u32()?;
    let ver = if header >> 31 == 1 {
        let g = c.u32()?;
        match (header & 0x7fff_ffff, g) {
            (3, V3_VGID) => Ver::V3,
            (4, V4_VGID) => Ver::V4,
            (5, V5_VGID) => Ver::V5,
            (6, V6_VGID) => Ver::V6,
            _ => return Err("unknown version/group".into()),
        }
    } else if header >= 1 {
        Ver::Sprout(header)
    } else {
        return Err("version 0".into());
    };
    let mut p = Parts::empty(ver, 0);
    if ver.zip244() {
        p.branch = c.u32()?;
        p.lock_time = c.u32()?;
        p.expiry = c.u32()?;
        get_transparent(&mut c, &mut p)?;
        let ns = c.cs()?;
        for _ in 0..ns {
            p.spends.push(Spend { cv: c.a32()?, anchor: [0; 32], nf: c.a32()?, rk: c.a32()?, proof: vec![], sig: vec![] });
        }
        let no = c.cs()?;
        for _ in 0..no {
            p.outputs.push(Output { cv: c.a32()?, cmu: c.a32()?, epk: c.a32()?, enc: c.vec(ENC)?, out: c.vec(OUT)?, proof: vec![] });
        }
        if ns + no > 0 {
            p.vb_sapling = c.i64()?;
        }
        if ns > 0 {
            let a = c.a32()?;
            for s in p.spends.iter_mut() {
                s.anchor = a;
            }
        }
        for s in p.spends.iter_mut() {
            s.proof = c.vec(GROTH)?;
        }
        for s in p.spends.iter_mut() {
            s.sig = c.vec(64)?;
        }
        for o in p.outputs.iter_mut() {
            o.proof = c.vec(GROTH)?;
        }
        if ns + no > 0 {
            p.sapling_bsig = c.vec(64)?;
        }
        p.orchard = get_orchard(&mut c)?;
        if ver.has_ironwood() {
            p.ironwood = get_orchard(&mut c)?;
        }
    } else {
        get_transparent(&mut c, &mut p)?;
        p.lock_time = c.u32()?;
        if ver.overwintered() {
            p.expiry = c.u32()?;
        }
        if ver.has_sapling() {
            p.vb_sapling = c.i64()?;
            let ns = c.cs()?;
            for _ in 0..ns {
                p.spends.push(Spend { cv: c.a32()?, anchor: c.a32()?, nf: c.a32()?, rk: c.a32()?, proof: c.vec(GROTH)?, sig: c.vec(64)? });
            }
            let no = c.cs()?;
            for _ in 0..no {
                p.outputs.push(Output { cv: c.a32()?, cmu: c.a32()?, epk: c.a32()?, enc: c.vec(ENC)?, out: c.vec(OUT)?, proof: c.vec(GROTH)? });
            }
        }
        if ver.has_sprout() {
            let nj = c.cs()?;
            let l = js_len(ver.js_proof_len());
            for _ in 0..nj {
                p.js.push(Js { bytes: c.vec(l)? });
            }
            if nj > 0 {
                p.js_pubkey = c.a32()?;
                p.js_sig = c.vec(64)?;
            }
        }
        if ver.has_sapling() && !(p.spends.is_empty() && p.outputs.is_empty()) {
            p.sapling_bsig = c.vec(64)?;
        }
    }
    Ok((p, c.pos))
}

pub const SIGHASH_ALL: u8 = 1;
pub const SIGHASH_NONE: u8 = 2;
pub const SIGHASH_SINGLE: u8 = 3;
pub const SIGHASH_ANYONECANPAY: u8 = 0x80;
pub const HASH_TYPES: [u8; 6] = [1, 2, 3, 0x81, 0x82, 0x83];

/// Does the signature hash for (`hash_type`, transparent input `j`; `None` = shielded signature,
/// hash type ALL) cover a field with coverage rule `cover`? `coinbase_or_no_inputs` selects the
/// ZIP 244 special case in which the transparent part of the signature digest is the txid digest.
pub fn covered(ver: Ver, cover: Cover, hash_type: u8, j: Option<usize>, coinbase_or_no_inputs: bool, n_out: usize) -> bool {
    let acp = hash_type & SIGHASH_ANYONECANPAY != 0;
    let base = hash_type & 0x1f;
    match cover {
        Cover::All => true,
        Cover::Never => false,
        _ if ver.zip244() && coinbase_or_no_inputs => true,
        Cover::Prevout(i) => !acp || j == Some(i),
        Cover::Sequence(i) => {
            if ver.zip244() {
                !acp || j == Some(i)
            } else {
                (!acp && base != SIGHASH_SINGLE && base != SIGHASH_NONE) || j == Some(i)
            }
        }
        Cover::Output(k) => match base {
            SIGHASH_NONE => false,
            SIGHASH_SINGLE => match j {
                Some(j) => j < n_out && j == k,
                None => false,
            },
            _ => true,
        },
    }
}

/// Names of all effecting / authorising fields a version can carry (the denominator of the
/// C04 field-coverage figure).
pub fn mutable_field_names(ver: Ver) -> Vec<&'static str> {
    let mut v: Vec<&'static str> = vec!["lock_time", "vin.prevout_hash", "vin.prevout_n", "vin.script_sig", "vin.sequence", "vout.value", "vout.script"];
    if ver.overwintered() {
        v.push("expiry_height");
    }
    if ver.zip244() {
        v.push("consensus_branch_id");
    }
    if ver.has_sprout() {
        v.extend(js_layout(0).iter().map(|x| x.0));
        v.extend(["joinsplit_pubkey", "joinsplit_sig"]);
    }
    if ver.has_sapling() {
        v.extend([
            "sapling.value_balance", "sapling.spend.cv", "sapling.spend.nf", "sapling.spend.rk", "sapling.spend.proof", "sapling.spend.auth_sig",
            "sapling.output.cv", "sapling.output.cmu", "sapling.output.epk", "sapling.output.enc", "sapling.output.out", "sapling.output.proof", "sapling.binding_sig",
        ]);
        v.push(if ver.zip244() { "sapling.anchor" } else { "sapling.spend.anchor" });
    }
    if ver.has_orchard() {
        v.extend([
            "orchard.action.cv", "orchard.action.nf", "orchard.action.rk", "orchard.action.cmx", "orchard.action.epk", "orchard.action.enc", "orchard.action.out",
            "orchard.flags", "orchard.value_balance", "orchard.anchor", "orchard.proof", "orchard.spend_auth_sig", "orchard.binding_sig",
        ]);
    }
    if ver.has_ironwood() {
        v.extend([
            "ironwood.action.cv", "ironwood.action.nf", "ironwood.action.rk", "ironwood.action.cmx", "ironwood.action.epk", "ironwood.action.enc", "ironwood.action.out",
            "ironwood.flags", "ironwood.value_balance", "ironwood.anchor", "ironwood.proof", "ironwood.spend_auth_sig", "ironwood.binding_sig",
        ]);
    }
    v
}
