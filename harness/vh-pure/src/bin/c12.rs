//! C12 — ZIP 321 payment requests round-trip and only valid requests parse.
//!
//! The shard (1) builds valid requests (the crate's own strategies on all three networks plus
//! boundary requests: every index shape, labels over every character class, 512-byte memos,
//! boundary amounts, every recipient kind) through the public constructors, renders them,
//! parses them back and compares; (2) produces grammar-mutated URIs from a small URI model and
//! feeds them to `from_uri`; (3) checks `Payment::new` / `TransactionRequest::{new,from_indexed,
//! total}` and the memo conversions; (4) throws arbitrary strings at the parser.
//! What can be decided locally is decided here (no panic, re-rendering parses to the same
//! request, accepted payments obey the rule list, totals, memo bytes). Everything that needs the
//! ZIP 321 text — does the rendered URI denote exactly this request, does an accepted URI break a
//! rule, what is the exact zatoshi value of an amount string — is logged and judged by
//! `lib/pyref/zip321.py`. The shard tells the reference what kind each address string is
//! (valid / transparent-only / can receive a memo): address validity is C10's subject.

use std::collections::BTreeMap;

use vh_common::rand::seq::SliceRandom;
use vh_common::rand::{Rng, RngCore};
use vh_common::rand_chacha::ChaCha20Rng;
use vh_common::{guard, hexs, json, panic_class, Args, Reporter, Value};
use zcash_address::ZcashAddress;
use zcash_protocol::consensus::NetworkType;
use zcash_protocol::memo::{Memo, MemoBytes};
use zcash_protocol::value::Zatoshis;
use zip321::{Payment, TransactionRequest, Zip321Error};

const MAX_MONEY: u64 = 21_000_000 * 100_000_000;

struct Ctx {
    r: Reporter,
}

#[derive(Clone)]
struct Addr {
    s: String,
    a: ZcashAddress,
    t_only: bool,
    memo: bool,
}

struct Pool {
    all: Vec<Addr>,
    t_only: Vec<usize>,
    memo: Vec<usize>,
}

impl Pool {
    fn any(&self, rng: &mut ChaCha20Rng) -> &Addr {
        &self.all[rng.gen_range(0..self.all.len())]
    }
    fn transparent(&self, rng: &mut ChaCha20Rng) -> &Addr {
        &self.all[*self.t_only.choose(rng).unwrap()]
    }
    fn with_memo(&self, rng: &mut ChaCha20Rng) -> &Addr {
        &self.all[*self.memo.choose(rng).unwrap()]
    }
}

fn build_pool(seed: u64) -> Pool {
    let mut runner = vh_common::proptest_runner(seed, 1201);
    let mut all = vec![];
    for net in [NetworkType::Main, NetworkType::Test, NetworkType::Regtest] {
        let strat = zcash_address::testing::arb_address(net);
        let mut n = 0;
        while n < 90 {
            if let Some(a) = vh_common::draw(&mut runner, &strat) {
                let s = a.encode();
                // only strings the address codec itself reads back (C10 owns that round trip)
                if ZcashAddress::try_from_encoded(&s).ok().as_ref() == Some(&a) {
                    all.push(Addr { s, t_only: a.is_transparent_only(), memo: a.can_receive_memo(), a });
                }
                n += 1;
            }
        }
    }
    // the addresses of the ZIP's own examples
    for s in [
        "tmEZhbWHTpdKMw5it8YDspUXSMGQyFwovpU",
        "ztestsapling10yy2ex5dcqkclhc7z7yrnjq2z6feyjad56ptwlfgmy77dmaqqrl9gyhprdx59qgmsnyfska2kez",
    ] {
        if let Ok(a) = ZcashAddress::try_from_encoded(s) {
            all.push(Addr { s: s.into(), t_only: a.is_transparent_only(), memo: a.can_receive_memo(), a });
        }
    }
    let t_only = (0..all.len()).filter(|i| all[*i].t_only).collect();
    let memo = (0..all.len()).filter(|i| all[*i].memo).collect();
    Pool { all, t_only, memo }
}

// ---------------------------------------------------------------------------------------------
// looking at requests through the public accessors only

type CanonPayment = (String, Option<u64>, Option<Vec<u8>>, Option<String>, Option<String>, Vec<(String, String)>);

fn canon(req: &TransactionRequest) -> BTreeMap<usize, CanonPayment> {
    req.payments()
        .iter()
        .map(|(i, p)| {
            let mut other: Vec<(String, String)> = p.other_params().to_vec();
            other.sort();
            (
                *i,
                (
                    p.recipient_address().encode(),
                    p.amount().map(u64::from),
                    p.memo().map(|m| m.as_array().to_vec()),
                    p.label().cloned(),
                    p.message().cloned(),
                    other,
                ),
            )
        })
        .collect()
}

fn diff(a: &BTreeMap<usize, CanonPayment>, b: &BTreeMap<usize, CanonPayment>) -> &'static str {
    if a.keys().ne(b.keys()) {
        return "indices";
    }
    for (k, x) in a {
        let y = &b[k];
        if x.0 != y.0 {
            return "address";
        }
        if x.1 != y.1 {
            return "amount";
        }
        if x.2 != y.2 {
            return "memo";
        }
        if x.3 != y.3 {
            return "label";
        }
        if x.4 != y.4 {
            return "message";
        }
        if x.5 != y.5 {
            return "other-params";
        }
    }
    "none"
}

fn dump(req: &TransactionRequest) -> Value {
    let mut m = serde_json::Map::new();
    for (i, p) in req.payments() {
        m.insert(
            i.to_string(),
            json!({
                "address": p.recipient_address().encode(),
                "amount": p.amount().map(u64::from),
                "memo": p.memo().map(|m| hexs(m.as_array())),
                "label": p.label(),
                "message": p.message(),
                "other": p.other_params().iter().map(|(n, v)| json!([n, v])).collect::<Vec<_>>(),
            }),
        );
    }
    Value::Object(m)
}

/// Every string the reference will look up (the same lenient split it uses).
fn kinds_for(uri: &str) -> Value {
    let mut m = serde_json::Map::new();
    let mut add = |s: &str| {
        if m.contains_key(s) {
            return;
        }
        let v = match guard(|| ZcashAddress::try_from_encoded(s)) {
            // `canonical`: the address codec accepts a few spellings of one address (it trims
            // surrounding whitespace, for instance); requests are compared on this form
            Ok(Ok(a)) => json!({"valid": true, "t_only": a.is_transparent_only(), "memo": a.can_receive_memo(), "canonical": a.encode()}),
            _ => json!({"valid": false}),
        };
        m.insert(s.to_string(), v);
    };
    if let Some(rest) = uri.strip_prefix("zcash:") {
        let (lead, query) = match rest.split_once('?') {
            Some((l, q)) => (l, Some(q)),
            None => (rest, None),
        };
        if !lead.is_empty() {
            add(lead);
        }
        if let Some(q) = query {
            for piece in q.split('&') {
                if let Some((name, value)) = piece.split_once('=') {
                    let base = name.split('.').next().unwrap_or("");
                    if base == "address" {
                        add(value);
                    }
                }
            }
        }
    }
    Value::Object(m)
}

fn err_kind(e: &Zip321Error) -> &'static str {
    match e {
        Zip321Error::InvalidBase64(_) => "InvalidBase64",
        Zip321Error::MemoBytesError(_) => "MemoBytesError",
        Zip321Error::TooManyPayments(_) => "TooManyPayments",
        Zip321Error::DuplicateParameter(..) => "DuplicateParameter",
        Zip321Error::TransparentMemo(_) => "TransparentMemo",
        Zip321Error::ZeroValuedTransparentOutput(_) => "ZeroValuedTransparentOutput",
        Zip321Error::RecipientMissing(_) => "RecipientMissing",
        Zip321Error::ParseError(_) => "ParseError",
        _ => "other",
    }
}

fn clip(s: &str) -> String {
    if s.len() <= 600 {
        s.to_string()
    } else {
        let mut e = 600;
        while !s.is_char_boundary(e) {
            e -= 1;
        }
        format!("{}…({} bytes)", &s[..e], s.len())
    }
}

/// `from_uri` on any string: never panics; an accepted request obeys the rule list, re-renders
/// to something that parses to the same request, and has a consistent total. Returns the request.
fn parse_checked(c: &mut Ctx, uri: &str, origin: &str, op: &str) -> Option<TransactionRequest> {
    let res = match guard(|| TransactionRequest::from_uri(uri)) {
        Err(p) => {
            c.r.violation(&format!("C12:from_uri:panic:{}", panic_class(&p)), format!("from_uri panicked on {:?}: {p}", clip(uri)), json!({"uri": uri, "origin": origin, "op": op}));
            c.r.count("from_uri_panics", 1);
            return None;
        }
        Ok(r) => r,
    };
    c.r.count("from_uri_calls", 1);
    let (tag, req) = match res {
        Ok(req) => ("ok".to_string(), Some(req)),
        Err(e) => (format!("err:{}", err_kind(&e)), None),
    };
    c.r.count(&format!("from_uri_{}", tag.replace(':', "_")), 1);
    c.r.case(&(origin, op, &tag), req.is_some() || origin != "fuzz");
    if let Some(req) = &req {
        let rp = json!({"uri": uri, "origin": origin, "op": op});
        // rule list on the parsed value
        for (i, p) in req.payments() {
            if *i > 9999 {
                c.r.violation("C12:from_uri:accepted-payment-breaking-rule:index-above-9999", format!("index {i} from {:?}", clip(uri)), rp.clone());
            }
            let a = p.recipient_address();
            if p.memo().is_some() && !a.can_receive_memo() {
                c.r.violation("C12:from_uri:accepted-payment-breaking-rule:memo-to-recipient-without-memo", format!("payment {i} of {:?}", clip(uri)), rp.clone());
            }
            if a.is_transparent_only() && p.amount() == Some(Zatoshis::ZERO) {
                c.r.violation("C12:from_uri:accepted-payment-breaking-rule:zero-valued-transparent-output", format!("payment {i} of {:?}", clip(uri)), rp.clone());
            }
            if let Some(z) = p.amount() {
                if u64::from(z) > MAX_MONEY {
                    c.r.violation("C12:from_uri:accepted-payment-breaking-rule:amount-above-max-money", format!("payment {i} of {:?}", clip(uri)), rp.clone());
                }
            }
        }
        // re-render
        match guard(|| {
            let u2 = req.to_uri();
            let back = TransactionRequest::from_uri(&u2);
            (u2, back)
        }) {
            Err(p) => c.r.violation(&format!("C12:rerender:panic:{}", panic_class(&p)), format!("re-rendering the request parsed from {:?} panicked: {p}", clip(uri)), rp.clone()),
            Ok((u2, Err(e))) => c.r.violation(
                &format!("C12:from_uri:rerendered-uri-rejected:{}", err_kind(&e)),
                format!("{:?} parses, its re-rendering {:?} does not: {e}", clip(uri), clip(&u2)),
                rp.clone(),
            ),
            Ok((u2, Ok(back))) => {
                let d = diff(&canon(req), &canon(&back));
                if d != "none" {
                    c.r.violation(
                        &format!("C12:from_uri:rerendered-uri-parses-to-different-request:{d}"),
                        format!("{:?} parses; its re-rendering {:?} parses to a request with different {d}", clip(uri), clip(&u2)),
                        rp.clone(),
                    );
                }
                c.r.count("rerender_checks", 1);
            }
        }
        check_total(c, req, uri);
    }
    if c.r.has_events() && (req.is_some() || origin != "fuzz") {
        c.r.event(&json!({"t": "uri", "origin": origin, "op": op, "uri": uri, "rust": tag, "req": req.as_ref().map(dump), "kinds": kinds_for(uri)}));
    }
    req
}

fn check_total(c: &mut Ctx, req: &TransactionRequest, uri: &str) {
    let mut sum: Option<u128> = Some(0);
    let mut overflow = false;
    for p in req.payments().values() {
        match (sum, p.amount()) {
            (Some(s), Some(a)) => {
                let n = s + u64::from(a) as u128;
                if n > MAX_MONEY as u128 {
                    overflow = true;
                    break;
                }
                sum = Some(n);
            }
            _ => sum = None,
        }
    }
    c.r.count("total_checks", 1);
    let got = guard(|| req.total());
    let ok = match (&got, overflow, sum) {
        (Ok(Err(_)), true, _) => true,
        (Ok(Ok(None)), false, None) => true,
        (Ok(Ok(Some(z))), false, Some(s)) => u64::from(*z) as u128 == s,
        // a missing amount before the overflowing prefix: the crate folds left to right
        (Ok(Ok(None)), true, _) => req.payments().values().any(|p| p.amount().is_none()),
        _ => false,
    };
    if !ok {
        c.r.violation("C12:total:wrong", format!("total() = {got:?}, exact sum {sum:?}, overflow {overflow}"), json!({"uri": uri}));
    }
}

// ---------------------------------------------------------------------------------------------
// generators for valid requests

fn label(rng: &mut ChaCha20Rng) -> String {
    const DELIMS: &str = " !\"#$%&'()*+,-./:;<=>?@[\\]^_`{|}~";
    let n = match rng.gen_range(0..10) {
        0 => 0,
        1 => 1,
        2 => rng.gen_range(100..600),
        _ => rng.gen_range(1..24),
    };
    let mut s = String::new();
    let style = rng.gen_range(0..9);
    for _ in 0..n {
        let ch = match if style == 8 { rng.gen_range(0..8) } else { style } {
            0 => DELIMS.chars().nth(rng.gen_range(0..DELIMS.len())).unwrap(),
            1 => char::from(rng.gen_range(0x20u8..0x7f)),
            2 => char::from(rng.gen_range(0u8..0x20)),
            3 => char::from_u32(rng.gen_range(0x80..0x800)).unwrap_or('é'),
            4 => char::from_u32(rng.gen_range(0x800..0xd800)).unwrap_or('中'),
            5 => char::from_u32(rng.gen_range(0x1_0000..0x11_0000)).unwrap_or('🦄'),
            6 => *['\u{0301}', '\u{200b}', '\u{202e}', '\u{feff}', '\u{fffd}', '\u{10ffff}', '\u{7f}', '\u{85}', '\u{2028}', '\u{e000}'].choose(rng).unwrap(),
            _ => *['%', '+', ' ', '&', '=', '?', '#', '/', 'A', '4', '1', '2', '5', 'z'].choose(rng).unwrap(),
        };
        s.push(ch);
    }
    // escape look-alikes must survive literally
    match rng.gen_range(0..12) {
        0 => s.push_str("%41"),
        1 => s.push_str("%2541"),
        2 => s.push_str("100%"),
        3 => s.insert_str(0, "%zz%"),
        4 => s.push_str("a+b c"),
        5 => s.push_str("%c3%a9"),
        _ => {}
    }
    s
}

fn amount(rng: &mut ChaCha20Rng, allow_zero: bool) -> u64 {
    let v = match rng.gen_range(0..10) {
        0 => 0,
        1 => 1,
        2 => 10u64.pow(rng.gen_range(0..16)),
        3 => MAX_MONEY - rng.gen_range(0..3),
        4 => 100_000_000 + rng.gen_range(0..3) - 1,
        5 => rng.gen_range(1..100_000_000),
        6 => {
            let (a, b) = (rng.gen_range(0..15u32), rng.gen_range(0..9u32));
            rng.gen_range(0..=MAX_MONEY / 10u64.pow(a)).saturating_mul(10u64.pow(b))
        }
        7 => rng.gen_range(1..=21_000_000u64) * 100_000_000,
        _ => rng.gen_range(0..=MAX_MONEY),
    }
    .min(MAX_MONEY);
    if v == 0 && !allow_zero { 1 } else { v }
}

fn memo_bytes(rng: &mut ChaCha20Rng) -> Vec<u8> {
    let n = *[0usize, 1, 2, 3, 4, 31, 32, 33, 255, 256, 510, 511, 512, 512, 512].choose(rng).unwrap();
    let mut b = vec![0u8; n];
    match rng.gen_range(0..6) {
        0 => rng.fill_bytes(&mut b),
        1 => b.iter_mut().for_each(|x| *x = 0xff),
        2 => {
            // text
            for x in b.iter_mut() {
                *x = rng.gen_range(0x20..0x7f);
            }
        }
        3 => {
            rng.fill_bytes(&mut b);
            if n > 0 {
                b[0] = *[0xf4u8, 0xf5, 0xf6, 0xf7, 0xff].choose(rng).unwrap();
            }
        }
        4 => {
            // trailing zeros inside the supplied slice
            rng.fill_bytes(&mut b);
            let z = rng.gen_range(0..=n.min(8));
            for x in b.iter_mut().rev().take(z) {
                *x = 0;
            }
        }
        _ => {
            for x in b.iter_mut() {
                *x = rng.gen_range(1..=255);
            }
        }
    }
    b
}

fn other_name(rng: &mut ChaCha20Rng) -> String {
    const FIRST: &[u8] = b"abcdefghijklmnopqrstuvwxyzABCDEFGHIJKLMNOPQRSTUVWXYZ";
    const REST: &[u8] = b"abcdefghijklmnopqrstuvwxyzABCDEFGHIJKLMNOPQRSTUVWXYZ0123456789+-";
    loop {
        let mut s = String::new();
        s.push(*FIRST.choose(rng).unwrap() as char);
        for _ in 0..rng.gen_range(0..8) {
            s.push(*REST.choose(rng).unwrap() as char);
        }
        if !s.starts_with("req-") && !["address", "amount", "memo", "label", "message"].contains(&s.as_str()) {
            return s;
        }
    }
}

fn index(rng: &mut ChaCha20Rng) -> usize {
    match rng.gen_range(0..4) {
        0 => *[0usize, 1, 2, 9, 10, 11, 99, 100, 101, 999, 1000, 1001, 9998, 9999].choose(rng).unwrap(),
        1 => rng.gen_range(0..10),
        _ => rng.gen_range(0..10_000),
    }
}

fn boundary_request(c: &mut Ctx, rng: &mut ChaCha20Rng, pool: &Pool) -> Option<TransactionRequest> {
    let n = match rng.gen_range(0..6) {
        0 => 1,
        1 => 2,
        2 => rng.gen_range(3..20),
        _ => rng.gen_range(1..5),
    };
    let mut m = BTreeMap::new();
    for _ in 0..n {
        let a = match rng.gen_range(0..3) {
            0 => pool.transparent(rng).clone(),
            1 => pool.with_memo(rng).clone(),
            _ => pool.any(rng).clone(),
        };
        let amt = if rng.gen_bool(0.9) { Some(amount(rng, !a.t_only)) } else { None };
        let memo = if a.memo && rng.gen_bool(0.5) { Some(memo_bytes(rng)) } else { None };
        let lab = rng.gen_bool(0.5).then(|| label(rng));
        let msg = rng.gen_bool(0.5).then(|| label(rng));
        let mut others = vec![];
        let mut names = std::collections::BTreeSet::new();
        for _ in 0..rng.gen_range(0..3) {
            let nm = other_name(rng);
            if names.insert(nm.clone()) {
                others.push((nm, label(rng)));
            }
        }
        let p = guard(|| {
            Payment::new(
                a.a.clone(),
                amt.map(|z| Zatoshis::from_u64(z).unwrap()),
                memo.as_ref().map(|b| MemoBytes::from_bytes(b).unwrap()),
                lab.clone(),
                msg.clone(),
                others.clone(),
            )
        });
        match p {
            Ok(Ok(p)) => {
                m.insert(index(rng), p);
            }
            other => {
                c.r.violation(
                    "C12:Payment::new:refused-valid-payment",
                    format!("{:?} for a payment that breaks no rule (address {}, amount {amt:?}, memo {})", other.map(|r| r.map(|_| ())), a.s, memo.is_some()),
                    json!({"address": a.s, "amount": amt, "memo": memo.map(|b| hexs(&b))}),
                );
                return None;
            }
        }
    }
    match guard(|| TransactionRequest::from_indexed(m)) {
        Ok(Ok(r)) => Some(r),
        other => {
            c.r.violation("C12:from_indexed:refused-valid-request", format!("{:?}", other.map(|r| r.map(|_| ()))), json!({}));
            None
        }
    }
}

/// (1) render -> parse -> equal; the rendered URI goes to the reference together with the request.
fn roundtrip(c: &mut Ctx, req: &TransactionRequest, src: &str) {
    if req.payments().is_empty() {
        return;
    }
    let uri = match guard(|| req.to_uri()) {
        Ok(u) => u,
        Err(p) => {
            c.r.violation(&format!("C12:to_uri:panic:{}", panic_class(&p)), format!("to_uri panicked: {p}"), json!({"req": dump(req)}));
            return;
        }
    };
    c.r.count("roundtrips", 1);
    c.r.count(&format!("roundtrips_{src}"), 1);
    let shape = (
        src,
        req.payments().len().min(6),
        req.payments().keys().any(|k| *k == 0),
        req.payments().values().any(|p| p.memo().is_some()),
        req.payments().values().any(|p| p.label().is_some() || p.message().is_some()),
        req.payments().values().any(|p| !p.other_params().is_empty()),
        req.payments().values().any(|p| p.recipient_address().is_transparent_only()),
    );
    c.r.case(&shape, true);
    let rp = json!({"uri": uri, "src": src, "req": dump(req)});
    match guard(|| TransactionRequest::from_uri(&uri)) {
        Err(p) => c.r.violation(&format!("C12:from_uri:panic:{}", panic_class(&p)), format!("from_uri panicked on a rendered request: {p}"), rp.clone()),
        Ok(Err(e)) => c.r.violation(
            &format!("C12:roundtrip:rendered-uri-rejected:{}", err_kind(&e)),
            format!("to_uri gave {:?}, from_uri refuses it: {e}", clip(&uri)),
            rp.clone(),
        ),
        Ok(Ok(back)) => {
            let d = diff(&canon(req), &canon(&back));
            if d != "none" {
                c.r.violation(&format!("C12:roundtrip:not-equal:{d}"), format!("from_uri(to_uri(r)) differs from r in {d}; uri {:?}", clip(&uri)), rp.clone());
            }
            check_total(c, &back, &uri);
        }
    }
    if c.r.has_events() {
        c.r.event(&json!({"t": "rt", "src": src, "uri": uri, "req": dump(req), "kinds": kinds_for(&uri)}));
    }
    if c.r.counter("roundtrips") <= 2 {
        c.r.sample(&format!("roundtrip-{src}"), json!({"uri": clip(&uri), "payments": req.payments().len()}));
    }
}

// ---------------------------------------------------------------------------------------------
// URI model for grammar mutations

#[derive(Clone)]
struct P {
    name: String,
    idx: String, // "" or ".N" (any text)
    val: Option<String>,
    pay: usize, // which payment of the model it belongs to
}

#[derive(Clone)]
struct U {
    scheme: String,
    lead: String,
    q: bool,
    params: Vec<P>,
    /// (t_only, memo) of each payment's address
    pays: Vec<(bool, bool)>,
}

impl U {
    fn text(&self) -> String {
        let mut s = format!("{}{}", self.scheme, self.lead);
        if self.q {
            s.push('?');
            let ps: Vec<String> = self
                .params
                .iter()
                .map(|p| match &p.val {
                    Some(v) => format!("{}{}={}", p.name, p.idx, v),
                    None => format!("{}{}", p.name, p.idx),
                })
                .collect();
            s.push_str(&ps.join("&"));
        }
        s
    }
}

fn pct(s: &str) -> String {
    // own encoder: everything outside unreserved is escaped (a superset of what must be)
    let mut o = String::new();
    for b in s.bytes() {
        if b.is_ascii_alphanumeric() || b"-._~".contains(&b) {
            o.push(b as char);
        } else {
            o.push_str(&format!("%{b:02X}"));
        }
    }
    o
}

fn b64(b: &[u8]) -> String {
    const A: &[u8] = b"ABCDEFGHIJKLMNOPQRSTUVWXYZabcdefghijklmnopqrstuvwxyz0123456789-_";
    let mut o = String::new();
    let (mut acc, mut bits) = (0u32, 0);
    for x in b {
        acc = (acc << 8) | *x as u32;
        bits += 8;
        while bits >= 6 {
            bits -= 6;
            o.push(A[((acc >> bits) & 63) as usize] as char);
        }
    }
    if bits > 0 {
        o.push(A[((acc << (6 - bits)) & 63) as usize] as char);
    }
    o
}

fn amount_text(rng: &mut ChaCha20Rng, z: u64) -> String {
    let (w, f) = (z / 100_000_000, z % 100_000_000);
    let canonical = if f == 0 { format!("{w}") } else { format!("{w}.{f:08}").trim_end_matches('0').to_string() };
    match rng.gen_range(0..6) {
        0 => format!("{w}.{f:08}"),                       // all eight decimals
        1 => format!("0{canonical}"),                     // leading zero
        2 if f == 0 => format!("{w}.0"),                  // explicit .0
        3 if f != 0 => format!("{canonical}0").chars().take(canonical.len() + usize::from(canonical.split('.').nth(1).map(|d| d.len() < 8).unwrap_or(false))).collect(),
        _ => canonical,
    }
}

fn base_model(rng: &mut ChaCha20Rng, pool: &Pool) -> U {
    let n = *[1usize, 1, 1, 2, 2, 3, 4].choose(rng).unwrap();
    let mut idxs: Vec<usize> = vec![];
    while idxs.len() < n {
        let i = *[0usize, 0, 1, 2, 7, 10, 42, 999, 1000, 9999].choose(rng).unwrap();
        if !idxs.contains(&i) {
            idxs.push(i);
        }
    }
    let lead_form = idxs.contains(&0) && rng.gen_bool(0.6);
    let mut u = U { scheme: "zcash:".into(), lead: String::new(), q: true, params: vec![], pays: vec![] };
    for (pi, i) in idxs.iter().enumerate() {
        let a = match rng.gen_range(0..3) {
            0 => pool.transparent(rng).clone(),
            1 => pool.with_memo(rng).clone(),
            _ => pool.any(rng).clone(),
        };
        u.pays.push((a.t_only, a.memo));
        let idx = if *i == 0 { String::new() } else { format!(".{i}") };
        let mut ps = vec![];
        if *i == 0 && lead_form {
            u.lead = a.s.clone();
        } else {
            ps.push(P { name: "address".into(), idx: idx.clone(), val: Some(a.s.clone()), pay: pi });
        }
        if rng.gen_bool(0.85) {
            let z = amount(rng, !a.t_only);
            ps.push(P { name: "amount".into(), idx: idx.clone(), val: Some(amount_text(rng, z)), pay: pi });
        }
        if a.memo && rng.gen_bool(0.4) {
            ps.push(P { name: "memo".into(), idx: idx.clone(), val: Some(b64(&memo_bytes(rng))), pay: pi });
        }
        if rng.gen_bool(0.4) {
            ps.push(P { name: "label".into(), idx: idx.clone(), val: Some(pct(&label(rng))), pay: pi });
        }
        if rng.gen_bool(0.3) {
            ps.push(P { name: "message".into(), idx: idx.clone(), val: Some(pct(&label(rng))), pay: pi });
        }
        if rng.gen_bool(0.3) {
            ps.push(P { name: other_name(rng), idx: idx.clone(), val: Some(pct(&label(rng))), pay: pi });
        }
        u.params.extend(ps);
    }
    if rng.gen_bool(0.5) {
        u.params.shuffle(rng);
    }
    if u.params.is_empty() {
        u.q = false;
    }
    u
}

const AMOUNT_FORMS: &[&str] = &[
    "0", "0.0", "0.00000000", "00", "0.00000001", "0.000000001", "0.000000010", "1", "1.0", "1.00000000", "1.000000000", "1.10", "01", "001.5", "1.", ".5", ".", "",
    "1.123456789", "1.12345678", "0.123456789", "21000000", "21000000.0", "21000000.00000000", "21000000.00000001", "21000001", "20999999.99999999",
    "20999999.999999999", "100000000", "1e3", "1E3", "1,5", "1_000", "+1", "-1", "-0", " 1", "1 ", "0x10", "1.5.5", "1..5", "NaN", "inf", "１", "١", "1.５",
    "9223372036854775807", "9223372036854775808", "18446744073709551615", "18446744073709551616", "18446744073709551624", "184467440737.09551616",
    "92233720368.54775808", "00000000000000000000000000000001", "0.1", "0.10000000", "1%30", "%31", "1.%30", "1%2E5", "1;5", "1:5", "1/2",
    "000000021000000.00000000", "4294967296", "42.94967296", "0.99999999", "0.999999995",
    // whole part times 10^8 wraps a u64 into the valid range
    "184467440738", "184467440738.5", "184467440737.09551617", "368934881475", "184467440737.99999999", "1844674407370955.1616",
];

const INDEX_FORMS: &[&str] = &[
    ".0", ".00", ".01", ".001", ".0001", ".1", ".9", ".10", ".010", ".999", ".1000", ".9999", ".09999", ".10000", ".99999", ".4294967296", ".18446744073709551616",
    ".18446744073709551617", ".", "..1", ".1.2", ".1.", ".+1", ".-1", ".1e1", ".0x1", ".１", ". 1", ".1 ", ".a", ".1a", "%2E1", ".%31",
];

const VALUE_FORMS: &[&str] = &[
    "", "%", "%%", "%2", "%2G", "%zz", "%G0", "%0", "a%", "a%4", "%41", "%61", "%C3%A9", "%c3%a9", "%C3", "%A9", "%FF", "%C0%80", "%ED%A0%80", "%F4%90%80%80", "%00", "%25",
    "%2541", "%26", "%3D", "%3F", "%23", "%20", "+", "a+b", "a b", "a\"b", "a#b", "a<b", "a>b", "a[b", "a]b", "a{b", "a}b", "a|b", "a\\b", "a^b", "a`b", "a/b", "a?b",
    "a=b", "a==", "é", "中", "🦄", "a\u{0}b", "a\tb", "a\nb", "a\u{7f}b", "a:b@c", "!$'()*,;", "-._~", "a%E2%80%8Bb", "%EF%BF%BD", "%F0%9F%A6%84",
];

const NAME_FORMS: &[&str] = &[
    "Amount", "AMOUNT", "Address", "Memo", "Label", "Message", "a", "A", "z9", "a+b", "a-b", "a+", "a-", "+a", "-a", "1a", "9", "a_b", "a.b", "a%62", "%61mount", "am%6Funt",
    "a b", "a:b", "a@b", "a~b", "é", "", "amount ", " amount", "amounts", "addres", "addressx", "memo2", "req", "req-", "Req-x", "REQ-x", "re-q", "xreq-y",
];

const REQ_FORMS: &[(&str, Option<&str>)] = &[
    ("req-foo", Some("1")), ("req-foo", Some("")), ("req-foo", None), ("req-", Some("x")), ("req-1", Some("x")), ("req-amount", Some("1")), ("req-address", Some("x")),
    ("req-memo", Some("AA")), ("req-x-y+z", Some("%41")), ("req-req-x", Some("1")), ("req-a", Some("a b")),
];

/// Applies one named mutation; returns its name. `None` leaves the model (control).
fn mutate(rng: &mut ChaCha20Rng, pool: &Pool, u: &mut U) -> (&'static str, Option<String>) {
    let pick_pay = |rng: &mut ChaCha20Rng, u: &U| rng.gen_range(0..u.pays.len());
    let idx_of = |u: &U, pay: usize| -> String { u.params.iter().find(|p| p.pay == pay).map(|p| p.idx.clone()).unwrap_or_default() };
    let op = rng.gen_range(0..34);
    match op {
        0 => ("none", None),
        1 | 2 | 3 => {
            // amount text
            let pay = pick_pay(rng, u);
            let v = AMOUNT_FORMS.choose(rng).unwrap().to_string();
            let idx = idx_of(u, pay);
            u.params.retain(|p| !(p.pay == pay && p.name == "amount"));
            u.params.push(P { name: "amount".into(), idx, val: Some(v), pay });
            u.q = true;
            ("amount-form", None)
        }
        4 | 5 => {
            // index text on every parameter of one payment (which must not be the lead one)
            let pay = pick_pay(rng, u);
            let f = INDEX_FORMS.choose(rng).unwrap().to_string();
            let mut touched = false;
            for p in u.params.iter_mut().filter(|p| p.pay == pay) {
                p.idx = f.clone();
                touched = true;
            }
            (if touched { "index-form" } else { "none" }, None)
        }
        6 => {
            // index text on one parameter only
            if let Some(p) = u.params.choose_mut(rng) {
                p.idx = INDEX_FORMS.choose(rng).unwrap().to_string();
            }
            ("index-form-one-param", None)
        }
        7 => {
            // exact duplicate of a parameter
            if let Some(p) = u.params.choose(rng).cloned() {
                let at = rng.gen_range(0..=u.params.len());
                u.params.insert(at, p);
            }
            ("duplicate-param-same-value", None)
        }
        8 => {
            if let Some(mut p) = u.params.choose(rng).cloned() {
                p.val = Some(match p.name.as_str() {
                    "amount" => "2".into(),
                    "address" => pool.any(rng).s.clone(),
                    "memo" => "AAAA".into(),
                    _ => "other".into(),
                });
                u.params.push(p);
            }
            ("duplicate-param-other-value", None)
        }
        9 => {
            // lead address plus an address= parameter for the same payment
            if !u.lead.is_empty() {
                u.params.push(P { name: "address".into(), idx: String::new(), val: Some(if rng.gen_bool(0.5) { u.lead.clone() } else { pool.any(rng).s.clone() }), pay: 0 });
                u.q = true;
            }
            ("lead-and-address-param", None)
        }
        10 => {
            // same name, different index: NOT a duplicate
            if let Some(mut p) = u.params.iter().filter(|p| p.name != "address").cloned().collect::<Vec<_>>().choose(rng).cloned() {
                let others: Vec<String> = u.params.iter().filter(|q| q.pay != p.pay).map(|q| q.idx.clone()).collect();
                if let Some(i) = others.choose(rng) {
                    if !u.params.iter().any(|q| q.name == p.name && q.idx == *i) {
                        p.idx = i.clone();
                        p.pay = u.params.iter().find(|q| q.idx == *i).map(|q| q.pay).unwrap_or(p.pay);
                        if p.name == "memo" {
                            return ("none", None);
                        }
                        u.params.push(p);
                    }
                }
            }
            ("same-name-other-index", None)
        }
        11 | 12 => {
            let (n, v) = *REQ_FORMS.choose(rng).unwrap();
            let pay = pick_pay(rng, u);
            let idx = if rng.gen_bool(0.5) { idx_of(u, pay) } else { String::new() };
            let at = rng.gen_range(0..=u.params.len());
            u.params.insert(at, P { name: n.into(), idx, val: v.map(|s| s.to_string()), pay });
            u.q = true;
            ("req-param", None)
        }
        13 | 14 => {
            // memo for any recipient kind
            let pay = pick_pay(rng, u);
            let idx = idx_of(u, pay);
            u.params.retain(|p| !(p.pay == pay && p.name == "memo"));
            let v = match rng.gen_range(0..10) {
                0 => String::new(),
                1 => b64(&vec![0x41; 513]),
                2 => b64(&vec![0x41; 600]),
                3 => "QR".into(),      // non-zero trailing bits
                4 => "Q".into(),       // impossible length
                5 => "QUJD=".into(),   // padding
                6 => "QUJ+".into(),    // standard alphabet
                7 => "QUJ/".into(),
                8 => "QU%4A".into(),
                _ => b64(&memo_bytes(rng)),
            };
            u.params.push(P { name: "memo".into(), idx, val: Some(v), pay });
            u.q = true;
            ("memo-form", None)
        }
        15 | 16 => {
            // zero amount for any recipient kind, in several spellings
            let pay = pick_pay(rng, u);
            let idx = idx_of(u, pay);
            u.params.retain(|p| !(p.pay == pay && p.name == "amount"));
            let v = *["0", "0.0", "00", "0.00000000", "000.000"].choose(rng).unwrap();
            u.params.push(P { name: "amount".into(), idx, val: Some(v.into()), pay });
            u.q = true;
            ("zero-amount", None)
        }
        17 => {
            // drop the address of one payment
            let pay = pick_pay(rng, u);
            let before = u.params.len();
            u.params.retain(|p| !(p.pay == pay && p.name == "address"));
            if before == u.params.len() {
                // this payment's address was the leading one
                u.lead.clear();
            }
            if u.params.iter().all(|p| p.pay != pay) {
                return ("none", None);
            }
            ("missing-address", None)
        }
        18 => {
            // a parameter for an index that has no address at all
            let i = *[".3", ".77", ".5000", ".9998"].choose(rng).unwrap();
            if !u.params.iter().any(|p| p.idx == i) {
                let (n, v) = *[("amount", "1"), ("label", "x"), ("message", "x"), ("foo", "x")].choose(rng).unwrap();
                u.params.push(P { name: n.into(), idx: i.into(), val: Some(v.into()), pay: 99 });
                u.q = true;
            }
            ("param-for-index-without-address", None)
        }
        19 | 20 => {
            // value alphabet / escapes on a text parameter
            let pay = pick_pay(rng, u);
            let idx = idx_of(u, pay);
            let n = match rng.gen_range(0..3) {
                0 => "label".to_string(),
                1 => "message".to_string(),
                _ => other_name(rng),
            };
            u.params.retain(|p| !(p.pay == pay && p.name == n));
            u.params.push(P { name: n, idx, val: Some(VALUE_FORMS.choose(rng).unwrap().to_string()), pay });
            u.q = true;
            ("value-form", None)
        }
        21 | 22 => {
            let pay = pick_pay(rng, u);
            let idx = idx_of(u, pay);
            let n = NAME_FORMS.choose(rng).unwrap().to_string();
            let v = *["1", "x", "", "%41"].choose(rng).unwrap();
            u.params.push(P { name: n, idx, val: Some(v.into()), pay });
            u.q = true;
            ("name-form", None)
        }
        23 => {
            // parameter without "="
            let pay = pick_pay(rng, u);
            let idx = idx_of(u, pay);
            let n = *["foo", "amount", "label", "memo", "message", "address", "x-y"].choose(rng).unwrap();
            u.params.retain(|p| !(p.pay == pay && p.name == n));
            u.params.push(P { name: n.into(), idx, val: None, pay });
            u.q = true;
            ("param-without-value", None)
        }
        24 => {
            // address strings that are not addresses
            let a = match rng.gen_range(0..9) {
                7 => format!("{}{}", pool.any(rng).s, [" ", "\t", "\n", "\r\n", "\u{b}", "\u{a0}", "%20"].choose(rng).unwrap()),
                8 => format!("{}{}", [" ", "\t", "\u{3000}"].choose(rng).unwrap(), pool.any(rng).s),
                0 => String::new(),
                1 => "t1".into(),
                2 => pool.any(rng).s.to_uppercase(),
                3 => {
                    let mut s = pool.any(rng).s.clone();
                    s.pop();
                    s
                }
                4 => format!("{}x", pool.any(rng).s),
                5 => pct(&pool.any(rng).s).replacen('t', "%74", 1),
                _ => {
                    let s = pool.any(rng).s.clone();
                    let mut b: Vec<char> = s.chars().collect();
                    let i = rng.gen_range(0..b.len());
                    b[i] = if b[i] == 'q' { 'p' } else { 'q' };
                    b.into_iter().collect()
                }
            };
            if !u.lead.is_empty() && rng.gen_bool(0.5) {
                u.lead = a;
            } else if let Some(p) = u.params.iter_mut().filter(|p| p.name == "address").collect::<Vec<_>>().choose_mut(rng) {
                p.val = Some(a);
            }
            ("address-form", None)
        }
        25..=31 => {
            // textual surgery on the rendered string
            let t = u.text();
            let (name, s): (&'static str, String) = match op {
                25 => ("trailing-ampersand", format!("{t}&")),
                26 => ("double-ampersand", t.replacen('&', "&&", 1)),
                27 => ("leading-ampersand", t.replacen('?', "?&", 1)),
                28 => match rng.gen_range(0..6) {
                    0 => ("scheme-form", t.replacen("zcash:", "ZCASH:", 1)),
                    1 => ("scheme-form", t.replacen("zcash:", "zcash://", 1)),
                    2 => ("scheme-form", t.replacen("zcash:", "Zcash:", 1)),
                    3 => ("scheme-form", t.replacen("zcash:", "zcash", 1)),
                    4 => ("scheme-form", t.replacen("zcash:", " zcash:", 1)),
                    _ => ("scheme-form", t.replacen("zcash:", "bitcoin:", 1)),
                },
                29 => ("fragment", format!("{t}#frag")),
                30 => ("second-question-mark", t.replacen('&', "?", 1)),
                _ => match rng.gen_range(0..5) {
                    0 => ("query-delimiter-missing", t.replacen('?', "&", 1)),
                    1 => ("empty-query", format!("{}?", t.split('?').next().unwrap())),
                    2 => ("semicolon-separator", t.replace('&', ";")),
                    3 => ("whitespace", t.replacen('&', " &", 1)),
                    _ => ("trailing-newline", format!("{t}\n")),
                },
            };
            (name, Some(s))
        }
        32 => {
            // many payments
            let k = rng.gen_range(5..60);
            for j in 0..k {
                let i = 100 + j * 3;
                let a = pool.any(rng).clone();
                u.pays.push((a.t_only, a.memo));
                let pay = u.pays.len() - 1;
                u.params.push(P { name: "address".into(), idx: format!(".{i}"), val: Some(a.s.clone()), pay });
                u.params.push(P { name: "amount".into(), idx: format!(".{i}"), val: Some("0.5".into()), pay });
            }
            u.q = true;
            if rng.gen_bool(0.5) {
                u.params.shuffle(rng);
            }
            ("many-payments", None)
        }
        _ => {
            // only addresses / nothing at all
            match rng.gen_range(0..4) {
                0 => ("bare-forms", Some("zcash:".into())),
                1 => ("bare-forms", Some("zcash:?".into())),
                2 => ("bare-forms", Some(format!("zcash:{}", pool.any(rng).s))),
                _ => ("bare-forms", Some(format!("zcash:{}?", pool.any(rng).s))),
            }
        }
    }
}

// ---------------------------------------------------------------------------------------------
// constructors and memos

fn phase_constructors(c: &mut Ctx, rng: &mut ChaCha20Rng, pool: &Pool, big: bool) {
    for a in &pool.all {
        for amt in [None, Some(0u64), Some(1), Some(MAX_MONEY)] {
            for with_memo in [false, true] {
                let memo = with_memo.then(|| MemoBytes::from_bytes(&memo_bytes(rng)).unwrap());
                let g = guard(|| Payment::new(a.a.clone(), amt.map(|z| Zatoshis::from_u64(z).unwrap()), memo.clone(), None, None, vec![]));
                c.r.count("payment_new_calls", 1);
                c.r.case(&("Payment::new", a.t_only, a.memo, amt.map(|z| z.min(2)), with_memo), true);
                let res = match &g {
                    Err(p) => {
                        c.r.violation(&format!("C12:Payment::new:panic:{}", panic_class(p)), p.clone(), json!({"address": a.s}));
                        continue;
                    }
                    Ok(Ok(_)) => "ok".to_string(),
                    Ok(Err(e)) => format!("err:{e:?}"),
                };
                c.r.count(&format!("payment_new_{}", res.replace(':', "_")), 1);
                c.r.event(&json!({"t": "ctor", "address": a.s, "kind": {"valid": true, "t_only": a.t_only, "memo": a.memo}, "amount": amt, "memo": with_memo, "result": res}));
            }
        }
    }
    // TransactionRequest::new re-parses its own rendering: a payment built around Payment::new must be refused
    let t = pool.transparent(rng).clone();
    let bad = Payment::without_memo(t.a.clone(), Zatoshis::ZERO);
    let good = Payment::without_memo(pool.with_memo(rng).a.clone(), Zatoshis::ZERO);
    let good2 = Payment::without_memo(t.a.clone(), Zatoshis::const_from_u64(1));
    for (name, v, want_ok) in [
        ("zero-to-transparent", vec![bad.clone()], false),
        ("zero-to-transparent-second", vec![good.clone(), bad.clone()], false),
        ("zero-to-shielded", vec![good.clone()], true),
        ("two-valid", vec![good.clone(), good2.clone()], true),
        ("empty", vec![], true),
    ] {
        let g = guard(|| TransactionRequest::new(v.clone()).map(|r| r.payments().len()));
        c.r.count("request_new_calls", 1);
        c.r.case(&("TransactionRequest::new", name), true);
        match g {
            Err(p) => c.r.violation(&format!("C12:TransactionRequest::new:panic:{}", panic_class(&p)), p, json!({"case": name})),
            Ok(Ok(n)) if want_ok && n == v.len() => {}
            Ok(Err(_)) if !want_ok => {}
            Ok(other) => c.r.violation(
                &format!("C12:TransactionRequest::new:{}", if want_ok { "refused-valid" } else { "accepted-forbidden" }),
                format!("{name}: {other:?}"),
                json!({"case": name}),
            ),
        }
    }
    // number of payments / index bound
    let sizes: &[usize] = if big { &[9999, 10000] } else { &[] };
    for &n in sizes {
        let v = vec![good2.clone(); n];
        let g = guard(|| TransactionRequest::new(v).map(|r| r.payments().len()));
        c.r.count("request_new_calls", 1);
        c.r.case(&("TransactionRequest::new", n), true);
        match (g, n <= 9999) {
            (Ok(Ok(k)), true) if k == n => c.r.count("request_new_9999_ok", 1),
            (Ok(Err(Zip321Error::TooManyPayments(_))), false) => c.r.count("request_new_10000_refused", 1),
            (other, _) => c.r.violation("C12:TransactionRequest::new:payment-count-bound", format!("{n} payments: {:?}", other.map(|r| r.map_err(|e| err_kind(&e)))), json!({"n": n})),
        }
    }
    for key in [0usize, 1, 9999, 10000, 10001, usize::MAX] {
        let mut m = BTreeMap::new();
        m.insert(key, good2.clone());
        m.insert(3, good.clone());
        let g = guard(|| TransactionRequest::from_indexed(m).map(|r| r.payments().len()));
        c.r.count("from_indexed_calls", 1);
        c.r.case(&("from_indexed", key.min(10002)), true);
        match (g, key <= 9999) {
            (Ok(Ok(_)), true) | (Ok(Err(_)), false) => {}
            (other, _) => c.r.violation(
                &format!("C12:from_indexed:{}", if key <= 9999 { "refused-valid-index" } else { "accepted-index-above-9999" }),
                format!("index {key}: {:?}", other.map(|r| r.map_err(|e| err_kind(&e)))),
                json!({"index": key.to_string()}),
            ),
        }
    }
}

fn phase_memos(c: &mut Ctx, rng: &mut ChaCha20Rng, n: u64) {
    for i in 0..n {
        let b = if i < 256 {
            // every lead byte, rest random text or zeros
            let mut b = memo_bytes(rng);
            if b.is_empty() {
                b.push(0);
            }
            b[0] = i as u8;
            b
        } else {
            memo_bytes(rng)
        };
        c.r.count("memo_cases", 1);
        c.r.case(&("memo", b.len(), b.first().copied()), true);
        let rp = json!({"memo": hexs(&b)});
        let mb = match guard(|| MemoBytes::from_bytes(&b)) {
            Ok(Ok(m)) => m,
            other => {
                c.r.violation("C12:MemoBytes::from_bytes:refused-or-panicked", format!("{} bytes: {:?}", b.len(), other.map(|r| r.map(|_| ()))), rp);
                continue;
            }
        };
        let mut want = [0u8; 512];
        want[..b.len()].copy_from_slice(&b);
        let stripped = {
            let mut e = 512;
            while e > 0 && want[e - 1] == 0 {
                e -= 1;
            }
            &want[..e]
        };
        if mb.as_array() != &want || mb.as_slice() != stripped || mb.clone().into_bytes() != want {
            c.r.violation("C12:MemoBytes:bytes-changed", "as_array / as_slice / into_bytes differ from the zero-padded input".to_string(), rp.clone());
        }
        // through base64 and back
        match guard(|| zip321::memo_from_base64(&zip321::memo_to_base64(&mb))) {
            Ok(Ok(back)) if back.as_array() == &want => {}
            other => c.r.violation("C12:memo-base64:roundtrip", format!("{:?}", other.map(|r| r.map(|m| hexs(m.as_slice())))), rp.clone()),
        }
        if zip321::memo_to_base64(&mb) != b64(stripped) {
            c.r.violation("C12:memo-base64:encoding", "memo_to_base64 is not unpadded base64url of the memo without trailing zeros".to_string(), rp.clone());
        }
        // ZIP 302 interpretation and back
        let text_invalid = want[0] <= 0xf4 && std::str::from_utf8(stripped).is_err();
        match guard(|| Memo::from_bytes(&b).map(|m| (m.encode().into_bytes(), matches!(m, Memo::Empty), matches!(m, Memo::Text(_)), matches!(m, Memo::Arbitrary(_))))) {
            Err(p) => c.r.violation(&format!("C12:Memo::from_bytes:panic:{}", panic_class(&p)), p, rp.clone()),
            Ok(Err(_)) => {
                c.r.count("memo_parse_refused", 1);
                if !text_invalid {
                    c.r.violation("C12:Memo::from_bytes:refused-valid", format!("lead byte {:#x}", want[0]), rp.clone());
                }
            }
            Ok(Ok((enc, empty, text, arb))) => {
                if text_invalid {
                    c.r.violation("C12:Memo::from_bytes:accepted-invalid-utf8-text", format!("lead byte {:#x}", want[0]), rp.clone());
                }
                if enc != want {
                    c.r.violation("C12:Memo:encode-changed-bytes", format!("lead byte {:#x}", want[0]), rp.clone());
                }
                let want_kind = (want[0] == 0xf6 && want[1..].iter().all(|x| *x == 0), want[0] <= 0xf4, want[0] == 0xff);
                if (empty, text, arb) != want_kind {
                    c.r.violation("C12:Memo:wrong-variant", format!("lead byte {:#x}: (empty,text,arbitrary) = {:?}", want[0], (empty, text, arb)), rp.clone());
                }
            }
        }
        // 513 bytes are refused
        if i % 64 == 0 {
            let mut long = b.clone();
            long.resize(513 + (i as usize % 7), 1);
            if !matches!(guard(|| MemoBytes::from_bytes(&long).is_err()), Ok(true)) {
                c.r.violation("C12:MemoBytes::from_bytes:accepted-more-than-512-bytes", format!("{} bytes", long.len()), json!({}));
            }
        }
    }
}

fn phase_fuzz(c: &mut Ctx, rng: &mut ChaCha20Rng, pool: &Pool, n: u64) {
    const ALPHABET: &[&str] = &[
        "zcash:", "?", "&", "=", ".", "%", "+", "-", "_", "~", "0", "1", "9", "a", "A", "address", "amount", "memo", "label", "message", "req-", "%41", "%C3%A9", "é", "🦄", " ", "#", "/",
        ":", "@", "\u{0}", "\n", "1.5", ".1", ".0", "00", "21000000", "AAAA", "tmEZhbWHTpdKMw5it8YDspUXSMGQyFwovpU",
    ];
    for i in 0..n {
        if !c.r.time_left() {
            break;
        }
        let s: String = match i % 4 {
            0 => {
                let mut b = vec![0u8; rng.gen_range(0..60)];
                rng.fill_bytes(&mut b);
                format!("{}{}", if rng.gen_bool(0.7) { "zcash:" } else { "" }, String::from_utf8_lossy(&b))
            }
            1 => (0..rng.gen_range(0..14)).map(|_| *ALPHABET.choose(rng).unwrap()).collect(),
            _ => {
                // a valid URI with a few character-level edits
                let mut chars: Vec<char> = base_model(rng, pool).text().chars().collect();
                for _ in 0..rng.gen_range(1..4) {
                    let pos = rng.gen_range(0..=chars.len());
                    let ch = match rng.gen_range(0..4) {
                        0 => char::from(rng.gen_range(0x20u8..0x7f)),
                        1 => *['%', '&', '=', '?', '.', '0', '+', '#', ' '].choose(rng).unwrap(),
                        2 => char::from_u32(rng.gen_range(0..0x11_0000)).unwrap_or('\u{fffd}'),
                        _ => char::from(rng.gen_range(0u8..0x20)),
                    };
                    match rng.gen_range(0..3) {
                        0 => chars.insert(pos, ch),
                        1 if pos < chars.len() => {
                            chars.remove(pos);
                        }
                        _ if pos < chars.len() => chars[pos] = ch,
                        _ => chars.push(ch),
                    }
                }
                chars.into_iter().collect()
            }
        };
        c.r.count("fuzz_strings", 1);
        if parse_checked(c, &s, "fuzz", ["bytes", "tokens", "edit", "edit"][(i % 4) as usize]).is_some() {
            c.r.count("fuzz_accepted", 1);
        }
    }
}

fn main() {
    vh_common::install_panic_hook();
    let args = Args::parse();
    let mut c = Ctx { r: Reporter::new("C12", &args) };
    let mut rng = vh_common::rng(args.shard_seed(), 12);
    let pool = build_pool(args.shard_seed());
    c.r.count("address_pool", pool.all.len() as u64);
    c.r.count("address_pool_transparent_only", pool.t_only.len() as u64);
    c.r.count("address_pool_memo_capable", pool.memo.len() as u64);
    c.r.count("address_pool_neither", pool.all.iter().filter(|a| !a.t_only && !a.memo).count() as u64);

    // cases prepared by the driver (the ZIP's own examples): just run them through the same checks
    if let Some(path) = args.extra.get("cases") {
        if args.shard == 0 {
            let v: Value = serde_json::from_str(&std::fs::read_to_string(path).expect("cases file")).expect("cases json");
            for (k, origin) in [("valid", "spec-valid"), ("invalid", "spec-invalid")] {
                for u in v[k].as_array().unwrap() {
                    let u = u.as_str().unwrap();
                    let r = parse_checked(&mut c, u, origin, "example");
                    c.r.count("spec_examples_run", 1);
                    if r.is_some() != (k == "valid") {
                        c.r.violation(
                            &format!("C12:from_uri:spec-example:{}", if k == "valid" { "valid-example-refused" } else { "invalid-example-accepted" }),
                            format!("{:?}", clip(u)),
                            json!({"uri": u}),
                        );
                    }
                }
            }
        }
    }

    phase_constructors(&mut c, &mut rng, &pool, args.shard == 0);
    phase_memos(&mut c, &mut rng, args.get_u64("memos", args.pick(1500, 60_000)));

    let n_rt = args.get_u64("roundtrips", args.pick(4000, 60_000));
    let n_mut = args.get_u64("mutations", args.pick(8000, 150_000));
    let n_fuzz = args.get_u64("fuzz", args.pick(15_000, 600_000));
    let mut runner = vh_common::proptest_runner(args.shard_seed(), 1202);
    let nets = [NetworkType::Main, NetworkType::Test, NetworkType::Regtest];
    let strat_idx: Vec<_> = nets.iter().map(|n| zip321::testing::arb_zip321_request(*n)).collect();
    let strat_seq: Vec<_> = nets.iter().map(|n| zip321::testing::arb_zip321_request_sequential(*n)).collect();
    // interleave so that a short budget still sees every phase
    let rounds = 50u64;
    for round in 0..rounds {
        if !c.r.time_left() {
            c.r.inconclusive("budget-exhausted-before-all-rounds");
            break;
        }
        for j in 0..n_rt / rounds {
            if !c.r.time_left() {
                break;
            }
            let k = (j % 3) as usize;
            match j % 5 {
                0 | 1 => {
                    // the crate's strategies construct through from_indexed / new and unwrap: a panic
                    // there means a constructor refused a request the strategy's author considers valid
                    let name = if j % 5 == 0 { "arb-indexed" } else { "arb-sequential" };
                    let drawn = if j % 5 == 0 {
                        guard(|| vh_common::draw(&mut runner, &strat_idx[k]))
                    } else {
                        guard(|| vh_common::draw(&mut runner, &strat_seq[k]))
                    };
                    match drawn {
                        Ok(Some(r)) => roundtrip(&mut c, &r, name),
                        Ok(None) => c.r.inconclusive("strategy-rejected-case"),
                        Err(p) => {
                            c.r.violation(&format!("C12:constructors:{name}-strategy-panicked:{}", panic_class(&p)), format!("drawing from the crate's {name} strategy panicked: {p}"), json!({"strategy": name}));
                            // the runner may be left in a bad state
                            runner = vh_common::proptest_runner(args.shard_seed() ^ j, 1203);
                        }
                    }
                }
                2 => {
                    // the same payments, renumbered 0..n by TransactionRequest::new
                    if let Some(r) = boundary_request(&mut c, &mut rng, &pool) {
                        let v: Vec<Payment> = r.payments().values().cloned().collect();
                        let n = v.len();
                        match guard(|| TransactionRequest::new(v)) {
                            Ok(Ok(r2)) if r2.payments().keys().copied().eq(0..n) => roundtrip(&mut c, &r2, "boundary-sequential"),
                            other => c.r.violation(
                                "C12:TransactionRequest::new:refused-valid",
                                format!("{n} valid payments: {:?}", other.map(|r| r.map(|q| q.payments().keys().copied().collect::<Vec<_>>()).map_err(|e| err_kind(&e)))),
                                json!({"req": dump(&r)}),
                            ),
                        }
                    }
                }
                _ => {
                    if let Some(r) = boundary_request(&mut c, &mut rng, &pool) {
                        roundtrip(&mut c, &r, "boundary");
                    }
                }
            }
        }
        for _ in 0..n_mut / rounds {
            if !c.r.time_left() {
                break;
            }
            let mut u = base_model(&mut rng, &pool);
            let (op, text) = mutate(&mut rng, &pool, &mut u);
            let s = text.unwrap_or_else(|| u.text());
            c.r.count("mutated_uris", 1);
            c.r.count(&format!("op_{op}"), 1);
            if parse_checked(&mut c, &s, "mutated", op).is_some() {
                c.r.count(&format!("accepted_after_{op}"), 1);
            }
            if round == 0 {
                c.r.sample(&format!("mutation-{op}"), json!({"uri": clip(&s)}));
            }
        }
        phase_fuzz(&mut c, &mut rng, &pool, n_fuzz / rounds);
    }
    c.r.finish();
}
