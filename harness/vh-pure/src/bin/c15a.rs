//! C15 part (a) — the scan-queue dominance rule, exhaustively, on `SpanningTree`.
//!
//! Model: `prio: height -> Option<priority>` over a small height domain. Inserting
//! `(range, p, force)` makes every height between the current span and the range `Historic`
//! (gaps become historic) and applies, pointwise on the range, the documented rule
//!   equal -> keep;  inserted in {Verify, Scanned} -> inserted;
//!   current == Scanned and not forced -> current;  otherwise the higher priority.
//! After EVERY insertion of EVERY sequence `into_vec()` of the real tree must be a sorted,
//! gap-free, non-overlapping partition of the model's span with no empty entry, adjacent equal
//! priorities merged, and pointwise equal to the model.
//!
//! Enumeration is a depth-first walk over insertion sequences (prefixes are shared, so every
//! prefix is checked exactly once), sharded over processes by the first insertion.

use std::time::Instant;

use vh_common::rand::Rng;
use vh_common::{guard, json, panic_class, Args, Reporter, Tier, Value};

use zcash_client_backend::data_api::scanning::spanning_tree::SpanningTree;
use zcash_client_backend::data_api::scanning::{ScanPriority, ScanRange};
use zcash_protocol::consensus::BlockHeight;

const MAXN: usize = 8;
/// Priorities in the documented ascending order; model codes are index + 1 (0 = outside the span).
const PRIOS: [ScanPriority; 7] = [
    ScanPriority::Ignored,
    ScanPriority::Scanned,
    ScanPriority::Historic,
    ScanPriority::OpenAdjacent,
    ScanPriority::FoundNote,
    ScanPriority::ChainTip,
    ScanPriority::Verify,
];
const SCANNED: u8 = 2;
const HISTORIC: u8 = 3;
const VERIFY: u8 = 7;
const NAMES: [&str; 8] = ["-", "Ignored", "Scanned", "Historic", "OpenAdjacent", "FoundNote", "ChainTip", "Verify"];

fn code_of(p: ScanPriority) -> u8 {
    PRIOS.iter().position(|x| *x == p).unwrap() as u8 + 1
}

#[inline]
fn dom(cur: u8, ins: u8, force: bool) -> u8 {
    if cur == ins {
        cur
    } else if ins == VERIFY || ins == SCANNED {
        ins
    } else if cur == SCANNED && !force {
        cur
    } else {
        cur.max(ins)
    }
}

#[derive(Clone, Copy, Debug)]
struct Model {
    p: [u8; MAXN],
    lo: u8,
    hi: u8,
}

#[derive(Clone, Copy, Debug)]
struct Ins {
    s: u8,
    e: u8,
    prio: u8,
    force: bool,
}

impl Ins {
    fn range(&self) -> ScanRange {
        ScanRange::from_parts(BlockHeight::from_u32(self.s as u32)..BlockHeight::from_u32(self.e as u32), PRIOS[self.prio as usize - 1])
    }
    fn json(&self) -> Value {
        json!({"range": [self.s, self.e], "priority": NAMES[self.prio as usize], "force_rescans": self.force})
    }
}

struct Cover {
    /// dominance cells exercised: [current][inserted][force]
    cells: [[[u64; 2]; 8]; 8],
    /// relation of the inserted range to the current span
    relation: [u64; 9],
    gap_fills: u64,
}

impl Model {
    fn leaf(i: &Ins) -> Model {
        let mut p = [0u8; MAXN];
        for h in i.s..i.e {
            p[h as usize] = i.prio;
        }
        Model { p, lo: i.s, hi: i.e }
    }

    #[inline]
    fn insert(&self, i: &Ins, cov: &mut Cover) -> Model {
        let mut m = *self;
        let nlo = self.lo.min(i.s);
        let nhi = self.hi.max(i.e);
        // relation of the inserted range to the span (the seven range relations + empty range)
        let rel = if i.s == i.e {
            7
        } else if self.lo == self.hi {
            8
        } else if i.e <= self.lo {
            0
        } else if self.hi <= i.s {
            6
        } else if i.s == self.lo && i.e == self.hi {
            3
        } else if i.s <= self.lo && i.e >= self.hi {
            2
        } else if i.s >= self.lo && i.e <= self.hi {
            4
        } else if i.s < self.lo {
            1
        } else {
            5
        };
        cov.relation[rel] += 1;
        for h in nlo..nhi {
            let inside_span = h >= self.lo && h < self.hi;
            let inside_ins = h >= i.s && h < i.e;
            let hp = &mut m.p[h as usize];
            if inside_ins {
                if inside_span {
                    cov.cells[*hp as usize][i.prio as usize][i.force as usize] += 1;
                    *hp = dom(*hp, i.prio, i.force);
                } else {
                    *hp = i.prio;
                }
            } else if !inside_span {
                *hp = HISTORIC;
                cov.gap_fills += 1;
            }
        }
        m.lo = nlo;
        m.hi = nhi;
        m
    }

    fn index(&self, n: usize) -> usize {
        let mut x = 0usize;
        for h in (0..n).rev() {
            x = x * 8 + self.p[h] as usize;
        }
        x
    }

    fn describe(&self) -> Vec<String> {
        let mut out = vec![];
        let mut h = self.lo;
        while h < self.hi {
            let mut e = h + 1;
            while e < self.hi && self.p[e as usize] == self.p[h as usize] {
                e += 1;
            }
            out.push(format!("{}({h}..{e})", NAMES[self.p[h as usize] as usize]));
            h = e;
        }
        out
    }
}

/// Compares the real tree's flattening with the model. `None` = agreement.
#[inline]
fn compare(v: &[ScanRange], m: &Model) -> Option<&'static str> {
    let mut h = m.lo as u32;
    let mut prev: Option<u8> = None;
    for r in v {
        let (s, e) = (u32::from(r.block_range().start), u32::from(r.block_range().end));
        if e <= s {
            return Some("empty-or-inverted-entry");
        }
        if s != h {
            return Some(if prev.is_none() { "span-start-differs" } else if s > h { "gap-between-entries" } else { "overlapping-or-unsorted-entries" });
        }
        if e > m.hi as u32 {
            return Some("span-end-differs");
        }
        let c = code_of(r.priority());
        if prev == Some(c) {
            return Some("adjacent-equal-priorities-not-merged");
        }
        for x in s..e {
            if m.p[x as usize] != c {
                return Some("priority-differs-from-dominance-rule");
            }
        }
        prev = Some(c);
        h = e;
    }
    if h != m.hi as u32 {
        return Some("span-end-differs");
    }
    None
}

#[derive(Clone, Copy, PartialEq, Eq, Debug)]
enum ForceMode {
    /// every insertion carries its own flag
    PerInsertion,
    /// one flag for the whole sequence (how the wallet uses the tree)
    PerSequence,
}

struct Job {
    n: usize,
    len: usize,
    mode: ForceMode,
    /// also insert empty ranges [h,h) at every position 0..=n
    with_empty: bool,
}

impl Job {
    fn name(&self) -> String {
        format!(
            "len<={} over [0,{}) force {}{}",
            self.len,
            self.n,
            if self.mode == ForceMode::PerInsertion { "per insertion" } else { "per sequence" },
            if self.with_empty { " incl. empty ranges" } else { "" }
        )
    }
    /// number of sequences of length 1..=len
    fn total(&self) -> u128 {
        let ranges = (self.n * (self.n + 1) / 2 + if self.with_empty { self.n + 1 } else { 0 }) as u128;
        let (b, mult) = match self.mode {
            ForceMode::PerInsertion => (ranges * 14, 1),
            ForceMode::PerSequence => (ranges * 7, 2),
        };
        mult * (1..=self.len as u32).map(|k| b.pow(k)).sum::<u128>()
    }
}

/// Class of a panic: the panic site, and whether an EMPTY range had been inserted earlier in the
/// sequence (an empty leaf inside the tree is a distinct, narrower failure class than a panic on
/// non-empty ranges only).
fn panic_kind(p: &str, path: &[Ins]) -> String {
    let empty_before = path[..path.len() - 1].iter().any(|i| i.s == i.e);
    let empty_now = path.last().is_some_and(|i| i.s == i.e);
    format!(
        "panic:{}{}",
        panic_class(p),
        if empty_before {
            ":after-an-empty-range-was-inserted"
        } else if empty_now {
            ":inserting-an-empty-range"
        } else {
            ""
        }
    )
}

/// kind -> (count, up to 3 (path, detail) examples)
#[derive(Default)]
struct Failures(std::collections::BTreeMap<String, (u64, Vec<(Vec<Ins>, String)>)>);

impl Failures {
    fn add(&mut self, kind: &str, path: &[Ins], detail: impl FnOnce() -> String) {
        if !self.0.contains_key(kind) {
            self.0.insert(kind.to_string(), (0, vec![]));
        }
        let e = self.0.get_mut(kind).unwrap();
        e.0 += 1;
        if e.1.len() < 3 {
            e.1.push((path.to_vec(), detail()));
        }
    }
}

struct Hot<'a> {
    ins: Vec<Ins>, // all insertions of the domain, force=false first then force=true
    n: usize,
    len: usize,
    seen: Vec<u64>,
    new_states: Vec<u32>,
    cov: Cover,
    path: [Ins; 8],
    nodes: u64,
    panics: u64,
    failures: Failures,
    deadline: Instant,
    aborted: bool,
    r: &'a mut Reporter,
}

impl Hot<'_> {
    #[inline]
    fn visit(&mut self, m: &Model, v: &[ScanRange], depth: usize) {
        self.nodes += 1;
        if let Some(kind) = compare(v, m) {
            self.failures.add(kind, &self.path[..depth], || {
                format!(
                    "into_vec = [{}], dominance model = [{}]",
                    v.iter().map(|r| format!("{r}")).collect::<Vec<_>>().join(", "),
                    m.describe().join(", ")
                )
            });
        }
        let idx = m.index(self.n);
        let (w, b) = (idx / 64, idx % 64);
        if self.seen[w] >> b & 1 == 0 {
            self.seen[w] |= 1 << b;
            self.new_states.push(idx as u32);
        }
    }

    /// `tree`/`m` are the state after `depth` insertions; tries every next insertion.
    fn dfs(&mut self, tree: &SpanningTree, m: &Model, depth: usize, force_filter: Option<bool>) {
        if depth == 2 && Instant::now() >= self.deadline {
            self.aborted = true;
        }
        if self.aborted {
            return;
        }
        for k in 0..self.ins.len() {
            let i = self.ins[k];
            if force_filter.is_some_and(|f| f != i.force) {
                continue;
            }
            self.path[depth] = i;
            let m2 = m.insert(&i, &mut self.cov);
            let last = depth + 1 == self.len;
            // a panic of the real code is a refuting observation for this sequence; the walk goes on
            let step = guard(|| {
                let t2 = tree.clone().insert(i.range(), i.force);
                if last {
                    (None, t2.into_vec())
                } else {
                    let v = t2.clone().into_vec();
                    (Some(t2), v)
                }
            });
            match step {
                Err(p) => {
                    self.nodes += 1;
                    self.panics += 1;
                    let kind = panic_kind(&p, &self.path[..depth + 1]);
                    self.failures.add(&kind, &self.path[..depth + 1], || format!("{p}; model before the insertion = [{}]", m.describe().join(", ")));
                }
                Ok((t2, v)) => {
                    self.visit(&m2, &v, depth + 1);
                    if let Some(t2) = t2 {
                        self.dfs(&t2, &m2, depth + 1, force_filter);
                        if self.aborted {
                            return;
                        }
                    }
                }
            }
        }
    }
}

fn insertions(n: usize, with_empty: bool) -> Vec<Ins> {
    let mut v = vec![];
    for force in [false, true] {
        for s in 0..=n as u8 {
            for e in s..=n as u8 {
                if s == e && !with_empty {
                    continue;
                }
                for prio in 1..=7u8 {
                    v.push(Ins { s, e, prio, force });
                }
            }
        }
    }
    v
}

fn report_failures(r: &mut Reporter, job: &str, failures: &Failures) {
    for (kind, (count, examples)) in &failures.0 {
        for (path, detail) in examples {
            let last = path.last().unwrap();
            r.violation(
                &format!("C15:spanning-tree:{kind}"),
                format!("after {} insertions (last: {} {}..{} force={}): {detail}", path.len(), NAMES[last.prio as usize], last.s, last.e, last.force),
                json!({"op": "SpanningTree", "job": job, "first": "Leaf(insertions[0])", "insertions": path.iter().map(|i| i.json()).collect::<Vec<_>>()}),
            );
        }
        // the remaining occurrences only count
        for _ in examples.len() as u64..(*count).min(1_000_000) {
            r.violation(&format!("C15:spanning-tree:{kind}"), "", Value::Null);
        }
    }
}

/// Runs one exhaustive job for this shard. Returns true when every sequence owned by the shard
/// was executed.
fn run_job(r: &mut Reporter, args: &Args, job: &Job, deadline: Instant, cov_total: &mut Cover) -> bool {
    let ins = insertions(job.n, job.with_empty);
    let t0 = Instant::now();
    let mut hot = Hot {
        ins: ins.clone(),
        n: job.n,
        len: job.len,
        seen: vec![0u64; (8usize.pow(job.n as u32)).div_ceil(64)],
        new_states: vec![],
        cov: Cover { cells: [[[0; 2]; 8]; 8], relation: [0; 9], gap_fills: 0 },
        path: [Ins { s: 0, e: 0, prio: 1, force: false }; 8],
        nodes: 0,
        panics: 0,
        failures: Failures::default(),
        deadline,
        aborted: false,
        r,
    };
    let name = job.name();
    let mut complete = true;
    // first insertions (and, per sequence, the flag) are the unit of sharding
    let firsts: Vec<(Ins, Option<bool>)> = match job.mode {
        ForceMode::PerInsertion => ins.iter().map(|i| (*i, None)).collect(),
        // with one flag per sequence the first insertion's own flag is irrelevant (a leaf is built
        // without one): enumerate (flag, first insertion with force=false)
        ForceMode::PerSequence => [false, true].iter().flat_map(|f| ins.iter().filter(|i| !i.force).map(move |i| (Ins { force: *f, ..*i }, Some(*f)))).collect(),
    };
    for (k, (first, filter)) in firsts.iter().enumerate() {
        if k as u64 % args.nshards != args.shard {
            continue;
        }
        if Instant::now() >= deadline {
            complete = false;
            break;
        }
        let res = guard(|| {
            hot.path[0] = *first;
            let tree = SpanningTree::Leaf(first.range());
            let m = Model::leaf(first);
            let v = tree.clone().into_vec();
            hot.visit(&m, &v, 1);
            if job.len > 1 {
                hot.dfs(&tree, &m, 1, *filter);
            }
        });
        if let Err(p) = res {
            // the path at the time of the panic is the failing sequence (longest prefix set)
            complete = false;
            let path: Vec<Value> = hot.path.iter().take(job.len).map(|i| i.json()).collect();
            hot.r.violation(
                &format!("C15:spanning-tree:panic:{}", panic_class(&p)),
                format!("{p} (the rest of this first-insertion subtree was skipped)"),
                json!({"op": "SpanningTree", "job": name, "insertions_up_to_panic_depth_unknown": path}),
            );
        }
        if hot.aborted {
            complete = false;
            break;
        }
        // distinct resulting states, registered once each
        for idx in hot.new_states.drain(..) {
            hot.r.sig(&(job.n as u8, idx));
        }
    }
    let (nodes, panics, failures) = (hot.nodes, hot.panics, std::mem::take(&mut hot.failures));
    let cov = hot.cov;
    r.evals(nodes);
    r.count(if job.with_empty { "sequences_checked_exhaustively_incl_empty_ranges" } else { "sequences_checked_exhaustively" }, nodes);
    if panics > 0 {
        // a panicking insertion has no successors: the planned count (which assumes a full tree of
        // sequences) is not reached then
        r.count("exhaustive_sequences_cut_short_by_panics", panics);
    }
    report_failures(r, &name, &failures);
    for a in 0..8 {
        for b in 0..8 {
            for f in 0..2 {
                cov_total.cells[a][b][f] += cov.cells[a][b][f];
            }
        }
    }
    for k in 0..9 {
        cov_total.relation[k] += cov.relation[k];
    }
    cov_total.gap_fills += cov.gap_fills;
    let secs = t0.elapsed().as_secs_f64();
    eprintln!("[shard {}] job {name}: {nodes} sequences in {secs:.1}s ({:.2} M/s), complete={complete}", args.shard, nodes as f64 / secs / 1e6);
    if complete {
        r.count("exhaustive_jobs_completed_by_shards", 1);
    } else {
        r.inconclusive(&format!("enumeration not completed within the budget: {name}"));
    }
    complete
}

/// Seeded sequences of length 6..=8 over [0,8) with per-insertion flags; every second sequence may
/// also insert empty ranges.
fn run_random(r: &mut Reporter, args: &Args, n_seq: u64, cov_total: &mut Cover) {
    let mut g = vh_common::rng(args.shard_seed(), 15);
    let n = 8usize;
    let ins_all = insertions(n, true);
    let ins_nonempty = insertions(n, false);
    let mut done = 0u64;
    let mut steps = 0u64;
    let mut seq_with_empty = 0u64;
    let mut panics = 0u64;
    let mut failures = Failures::default();
    let mut sigs_left = 30_000u32;
    while done < n_seq && (done % 1024 != 0 || r.time_left()) {
        done += 1;
        let allow_empty = done % 2 == 0;
        let ins = if allow_empty { &ins_all } else { &ins_nonempty };
        let len = g.gen_range(6..=8);
        // bias a fraction of sequences towards short ranges (more gaps and splits)
        let short = g.gen_bool(0.3);
        let mut path: Vec<Ins> = Vec::with_capacity(8);
        for _ in 0..len {
            loop {
                let i = ins[g.gen_range(0..ins.len())];
                if !short || i.e - i.s <= 2 {
                    path.push(i);
                    break;
                }
            }
        }
        let any_empty = path.iter().any(|i| i.s == i.e);
        if any_empty {
            seq_with_empty += 1;
        }
        let job = if allow_empty { "random len 6..8 over [0,8) incl. empty ranges" } else { "random len 6..8 over [0,8)" };
        let mut m = Model::leaf(&path[0]);
        let mut tree = Some(SpanningTree::Leaf(path[0].range()));
        for k in 1..len {
            let i = path[k];
            let before = m;
            m = m.insert(&i, cov_total);
            let t = tree.take().unwrap();
            steps += 1;
            match guard(|| {
                let t2 = t.insert(i.range(), i.force);
                let v = t2.clone().into_vec();
                (t2, v)
            }) {
                Err(p) => {
                    panics += 1;
                    failures.add(&panic_kind(&p, &path[..=k]), &path[..=k], || format!("{p}; model before the insertion = [{}] ({job})", before.describe().join(", ")));
                    break;
                }
                Ok((t2, v)) => {
                    if let Some(kind) = compare(&v, &m) {
                        failures.add(kind, &path[..=k], || {
                            format!("into_vec = [{}], dominance model = [{}] ({job})", v.iter().map(|r| format!("{r}")).collect::<Vec<_>>().join(", "), m.describe().join(", "))
                        });
                        break;
                    }
                    tree = Some(t2);
                }
            }
        }
        if sigs_left > 0 && tree.is_some() {
            sigs_left -= 1;
            r.sig(&("random", m.p, m.lo, m.hi));
        }
    }
    r.evals(steps);
    r.count("random_sequences", done);
    r.count("random_sequences_with_an_empty_range", seq_with_empty);
    r.count("random_insertions_checked", steps);
    r.count("random_sequences_ended_by_a_panic", panics);
    report_failures(r, "random", &failures);
}

fn main() {
    vh_common::install_panic_hook();
    let args = Args::parse();
    let mut r = Reporter::new("C15", &args);
    let start = Instant::now();
    let budget = std::time::Duration::from_secs_f64(args.budget_s);
    let mut cov = Cover { cells: [[[0; 2]; 8]; 8], relation: [0; 9], gap_fills: 0 };

    // sanity of the model on the repository's own documented example (harness self-test)
    {
        let mut c = Cover { cells: [[[0; 2]; 8]; 8], relation: [0; 9], gap_fills: 0 };
        let a = Ins { s: 0, e: 3, prio: SCANNED, force: false };
        let m = Model::leaf(&a).insert(&Ins { s: 5, e: 7, prio: 6, force: false }, &mut c);
        assert_eq!(m.describe(), vec!["Scanned(0..3)", "Historic(3..5)", "ChainTip(5..7)"]);
        let m = m.insert(&Ins { s: 1, e: 6, prio: 5, force: false }, &mut c);
        assert_eq!(m.describe(), vec!["Scanned(0..3)", "FoundNote(3..5)", "ChainTip(5..7)"]);
        let m = m.insert(&Ins { s: 1, e: 6, prio: 5, force: true }, &mut c);
        assert_eq!(m.describe(), vec!["Scanned(0..1)", "FoundNote(1..5)", "ChainTip(5..7)"]);
    }

    let jobs: Vec<Job> = match args.tier {
        Tier::Quick => vec![
            Job { n: 6, len: 3, mode: ForceMode::PerInsertion, with_empty: false },
            Job { n: 4, len: 4, mode: ForceMode::PerSequence, with_empty: false },
            Job { n: 3, len: 4, mode: ForceMode::PerInsertion, with_empty: false },
            Job { n: 3, len: 3, mode: ForceMode::PerInsertion, with_empty: true },
        ],
        Tier::Thorough => vec![
            Job { n: 7, len: 3, mode: ForceMode::PerInsertion, with_empty: false },
            Job { n: 5, len: 4, mode: ForceMode::PerInsertion, with_empty: false },
            Job { n: 4, len: 5, mode: ForceMode::PerSequence, with_empty: false },
            Job { n: 3, len: 5, mode: ForceMode::PerInsertion, with_empty: false },
            Job { n: 4, len: 3, mode: ForceMode::PerInsertion, with_empty: true },
            Job { n: 3, len: 4, mode: ForceMode::PerInsertion, with_empty: true },
        ],
    };
    // the random part gets a fixed slice of the budget at the end
    let random_share = 0.15;
    let deadline = start + budget.mul_f64(1.0 - random_share);
    let mut all = true;
    let mut planned: u128 = 0;
    for job in &jobs {
        if !job.with_empty {
            planned += job.total();
        }
        let done = run_job(&mut r, &args, job, deadline, &mut cov);
        all &= done;
    }
    r.set_exhaustive(all);
    r.note(format!(
        "exhaustive jobs: {}; {} sequences in total over all shards",
        jobs.iter().map(|j| j.name()).collect::<Vec<_>>().join("; "),
        planned
    ));
    if args.shard == 0 {
        // the fold sums counters: record the planned total once
        r.count("sequences_planned_exhaustively", planned.min(u64::MAX as u128) as u64);
    }

    let n_random = args.get_u64("random", args.pick(150_000, 6_500_000));
    run_random(&mut r, &args, n_random, &mut cov);

    // coverage of the case analysis
    let mut cells = 0;
    for a in 1..8 {
        for b in 1..8 {
            for f in 0..2 {
                if cov.cells[a][b][f] > 0 {
                    cells += 1;
                }
            }
        }
    }
    r.set_max("max_dominance_cells_exercised_of_98", cells);
    for (k, name) in ["left-disjoint", "left-overlap", "contains-span", "equal", "inside-span", "right-overlap", "right-disjoint", "empty-range", "onto-empty-span"].iter().enumerate() {
        r.count(&format!("relation_{name}"), cov.relation[k]);
    }
    r.count("gap_heights_made_historic", cov.gap_fills);
    r.sample(
        "dominance-table",
        json!({"rule": "rows = current, columns = inserted; entries = (not forced, forced)",
               "table": (1..8).map(|a| (1..8).map(|b| format!("{}/{}", NAMES[dom(a, b, false) as usize], NAMES[dom(a, b, true) as usize])).collect::<Vec<_>>()).collect::<Vec<_>>()}),
    );
    r.finish();
}
