#!/bin/sh
# One-time offline setup: build the harness crates against /repo (filled in as checks land).
set -e
cd "$(dirname "$0")"
exec python3 ./check --setup
